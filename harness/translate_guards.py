#!/usr/bin/env python3
"""
Translator plug-in: the DECISION LOGIC OF THE INPUT / CONFIGURATION GUARDS (property C20).

Regenerates lean/ExponaxModel/Generated/GuardsGen.lean from the *current* source tree: every function under
exponax/ that contains a `raise` becomes one Lean definition

    def <Owner>_<function>_accepts (<the quantities the guard conditions read>) : Bool

which is `true` exactly when NO raise site of that function is reached (conjunction over the raise sites in source
order, respecting early returns, `elif` chains ending in `else: raise`, string dispatch on a mode argument).  A guard
condition that indexes a shape (`x.shape[0]`) additionally requires the index to exist (Python would raise IndexError).

Vocabulary of the conditions (everything else raises `T.TranslateError` naming file:line — never approximated):

  x.shape            ↦ parameter  x_shape : List Nat        x.ndim            ↦ List.length x_shape
  s[k], s[k:]        ↦ List.getD s k 0 (+ bound check), List.drop k s          len(s) ↦ List.length s
  len(t)  (tuple/list-valued argument)  ↦ parameter  t_len : Nat
  (a, b), (a,) + s   ↦ [a, b], [a] ++ s        spatial_shape / wavenumber_shape ↦ Gen.SpectralLayout.*
  [leaf.shape[k] for leaf in jtu.tree_leaves(t)]  ↦ List.map (·.getD k 0) t_leaf_shapes   (parameter : List (List Nat))
  len(set(l))        ↦ List.length (List.eraseDups l)
  + - * % //  on static integers (Nat; Int after a subtraction),  == != < <= > >=,  in / not in (tuple),
  and / or / not,  string literals (mode dispatch),
  self.a.b  (a annotated with a class of the package, e.g. the wrapped stepper) ↦ parameter a_b, typed by that class
  x is None / is not None  ↦ Option.isNone for `int | None` arguments (value usable after the test), else parameter
                              x_is_none : Bool
  isinstance(x, Cls) ↦ explicit form parameter  x_isinstance_Cls : Bool
  comparison of a FLOAT VALUE with a float literal (value-dependent) ↦ opaque parameter  opaque_<text> : Bool
  try: import m / except ImportError: raise ↦ parameter  import_m_ok : Bool
  statement-level call of another guarded function (`validate_normalization_options(...)`: a function returning no value), `return self.m(...)` of a
  guarded method of the same class  ↦ the callee's `_accepts` applied to the translated arguments.

Statements that no guard depends on are not translated; a local bound to an expression outside the vocabulary is an
opaque handle of which a guard may only read `.shape` / `.ndim` / `len` / `is None` (each an explicit parameter).
"""
from __future__ import annotations

import ast
import glob
import json
import os
import re
import sys

HERE = os.path.dirname(os.path.abspath(__file__))
if HERE not in sys.path:
    sys.path.insert(0, HERE)
import translate as T  # noqa: E402

TranslateError = T.TranslateError
NAME = "GuardsGen"
NS = "Guards"

LAYOUT_FUNS = {"spatial_shape": "Exponax.Gen.SpectralLayout.spatial_shape",
               "wavenumber_shape": "Exponax.Gen.SpectralLayout.wavenumber_shape"}


# ----------------------------------------------------------------------------
# values
# ----------------------------------------------------------------------------
class GV:
    """translated expression.  ty: 'N' Nat, 'Z' Int, 'B' Bool, 'S' List Nat, 'Str' String, 'ON' Option Nat,
    'H' opaque handle (array / tuple / float / object: only derived quantities are readable), 'None'"""

    def __init__(self, lean, ty, pre=(), atom=False, base=None, ann=None, shape=None):
        self.lean = lean
        self.ty = ty
        self.pre = tuple(dict.fromkeys(pre))   # index-bound conditions (Lean Bool terms), de-duplicated, ordered
        self.atom = atom
        self.base = base        # handles: stem of the derived parameter names
        self.ann = ann          # handles: annotation text (documentation only)
        self.shape = shape      # handles with a known shape (GV of type 'S')

    def p(self):
        return self.lean if self.atom else f"({self.lean})"


def sanitize(text):
    rep = [("!=", " ne "), ("==", " eq "), ("<=", " le "), (">=", " ge "), ("<", " lt "), (">", " gt "),
           ("-", " neg "), (".", " ")]
    for a, b in rep:
        text = text.replace(a, b)
    return "_".join(re.findall(r"[A-Za-z0-9]+", text))


def balanced(x):
    """x is one fully parenthesised group"""
    if not (x.startswith("(") and x.endswith(")")):
        return False
    d = 0
    for i, c in enumerate(x):
        if c == "(":
            d += 1
        elif c == ")":
            d -= 1
            if d == 0 and i != len(x) - 1:
                return False
    return d == 0


def paren(x):
    if re.fullmatch(r"[A-Za-z_][A-Za-z_0-9.']*", x) or balanced(x) or (x.startswith("!") and balanced(x[1:])):
        return x
    return f"({x})"


def conj(parts):
    parts = [p for p in parts if p != "true"]
    if not parts:
        return "true"
    if len(parts) == 1:
        return parts[0]
    return " && ".join(paren(p) for p in parts)


def neg(c):
    return f"!{paren(c)}"


def ite(c, a, b):
    """Bool-valued if-then-else with the obvious simplifications (a, b are acceptance terms)"""
    if a == b:
        return a
    if a == "false" and b == "true":
        return neg(c)
    if a == "true" and b == "false":
        return c
    if a == "false":
        return conj([neg(c), b])
    if b == "false":
        return conj([c, a])
    if a == "true":
        return f"{paren(c)} || {paren(b)}"
    if b == "true":
        return f"{neg(c)} || {paren(a)}"
    return f"if {c} then {a} else {b}"


# ----------------------------------------------------------------------------
# source index
# ----------------------------------------------------------------------------
class FnInfo:
    def __init__(self, rel, owner, node, src, cls):
        self.rel, self.owner, self.node, self.src, self.cls = rel, owner, node, src, cls
        self.qual = (owner + "." if owner else "") + node.name
        self.raises = [n for n in walk_own(node) if isinstance(n, ast.Raise)]

    @property
    def lean_name(self):
        f = self.node.name
        if f.startswith("__") and f.endswith("__"):
            f = f[2:-2]
        return (self.owner + "_" if self.owner else "") + f + "_accepts"

    def where(self, node=None):
        return f"exponax/{self.rel}:{(node or self.node).lineno}"


def walk_own(fn):
    """nodes of a function body, not descending into nested function / class definitions"""
    todo = list(fn.body)
    while todo:
        n = todo.pop()
        yield n
        for ch in ast.iter_child_nodes(n):
            if isinstance(ch, (ast.FunctionDef, ast.AsyncFunctionDef, ast.ClassDef, ast.Lambda)):
                continue
            todo.append(ch)


class Index:
    def __init__(self, repo):
        self.root = os.path.join(repo, "exponax")
        self.files = sorted(glob.glob(os.path.join(self.root, "**", "*.py"), recursive=True))
        if not self.files:
            raise TranslateError(f"no source files under {self.root}")
        self.funs = []            # FnInfo of every function / method (top-level classes and functions)
        self.classes = {}         # class name -> (rel, ClassDef, src)
        self.imports = {}         # rel -> set of names imported with `from … import name`
        self.module_funs = {}     # rel -> {name: FnInfo}
        for path in self.files:
            src = open(path).read()
            tree = ast.parse(src)
            rel = os.path.relpath(path, self.root)
            self.imports[rel] = set()
            self.module_funs[rel] = {}
            for n in ast.walk(tree):
                if isinstance(n, ast.ImportFrom):
                    for a in n.names:
                        self.imports[rel].add(a.asname or a.name)
            for n in tree.body:
                if isinstance(n, ast.FunctionDef):
                    fi = FnInfo(rel, "", n, src, None)
                    self.funs.append(fi)
                    self.module_funs[rel][n.name] = fi
                elif isinstance(n, ast.ClassDef):
                    if n.name in self.classes:
                        raise TranslateError(f"class {n.name} defined twice ({self.classes[n.name][0]}, {rel})")
                    self.classes[n.name] = (rel, n, src)
                    for m in n.body:
                        if isinstance(m, ast.FunctionDef):
                            self.funs.append(FnInfo(rel, n.name, m, src, n))
            # a raise anywhere else (nested function, module level, async) is outside the vocabulary
            covered = set()
            for fi in [f for f in self.funs if f.rel == rel]:
                for r in fi.raises:
                    covered.add(id(r))
            for n in ast.walk(tree):
                if isinstance(n, ast.Raise) and id(n) not in covered:
                    raise TranslateError(f"exponax/{rel}:{n.lineno}: `raise` outside a top-level function or a "
                                         f"method of a top-level class")

    def attr_annotation(self, clsname, attr, seen=()):
        """annotation node of a dataclass field, looked up through the bases"""
        if clsname not in self.classes or clsname in seen:
            return None
        _, c, _ = self.classes[clsname]
        for m in c.body:
            if isinstance(m, ast.AnnAssign) and isinstance(m.target, ast.Name) and m.target.id == attr:
                return m.annotation
        for b in c.bases:
            r = self.attr_annotation(ast.unparse(b).split(".")[-1], attr, seen + (clsname,))
            if r is not None:
                return r
        return None

    def class_fields(self, clsname, seen=()):
        """annotated fields of a class and (then) of its bases, in declaration order"""
        if clsname not in self.classes or clsname in seen:
            return []
        _, c, _ = self.classes[clsname]
        out = [m.target.id for m in c.body if isinstance(m, ast.AnnAssign) and isinstance(m.target, ast.Name)]
        for b in c.bases:
            for f in self.class_fields(ast.unparse(b).split(".")[-1], seen + (clsname,)):
                if f not in out:
                    out.append(f)
        return out

    def resolve_function(self, rel, name):
        """module-level function `name` as visible in file `rel` (same file, or imported by that name)"""
        if name in self.module_funs[rel]:
            return self.module_funs[rel][name]
        if name in self.imports[rel]:
            cands = [d[name] for r, d in self.module_funs.items() if name in d]
            if len(cands) == 1:
                return cands[0]
        return None


def ann_kind(ann):
    if ann is None:
        return None
    s = ast.unparse(ann)
    if s == "int":
        return "N"
    if s == "bool":
        return "B"
    if s == "str" or s.startswith("Literal["):
        if s.startswith("Literal[") and not all(isinstance(e, ast.Constant) and isinstance(e.value, str)
                                                for e in ast.walk(ann) if isinstance(e, ast.Constant)):
            return "H"
        return "Str"
    if s in ("int | None", "None | int", "Optional[int]"):
        return "ON"
    return "H"


# ----------------------------------------------------------------------------
# one function
# ----------------------------------------------------------------------------
class GuardTr:
    def __init__(self, index: Index, fi: FnInfo, results):
        self.ix = index
        self.fi = fi
        self.results = results        # qual -> translated FnResult (for delegation)
        self.params = {}              # lean name -> (lean type, origin tuple, comment)
        self.env = {}
        self.versions = {}
        self.sites = []               # (lineno, exception name, condition text)
        self.callees = []
        self.argnames = []
        a = fi.node.args
        if a.vararg is not None or a.posonlyargs:
            raise TranslateError(f"{fi.where()}: {fi.qual}: *args / positional-only parameters")
        allargs = list(a.args) + list(a.kwonlyargs)
        for arg in allargs:
            if arg.arg == "self":
                continue
            self.argnames.append(arg.arg)
        defaults = {}
        pos = [x for x in a.args]
        for x, d in zip(pos[len(pos) - len(a.defaults):], a.defaults):
            defaults[x.arg] = d
        for x, d in zip(a.kwonlyargs, a.kw_defaults):
            if d is not None:
                defaults[x.arg] = d
        self.defaults = defaults
        for arg in allargs:
            if arg.arg == "self":
                continue
            kind = ann_kind(arg.annotation)
            if kind is None:
                d = defaults.get(arg.arg)
                if isinstance(d, ast.Constant) and isinstance(d.value, bool):
                    kind = "B"
                elif isinstance(d, ast.Constant) and isinstance(d.value, int):
                    kind = "N"
                elif isinstance(d, ast.Constant) and isinstance(d.value, str):
                    kind = "Str"
                else:
                    kind = "H"
            self.env[arg.arg] = self.param_value(arg.arg, kind, ("arg", arg.arg),
                                                 ast.unparse(arg.annotation) if arg.annotation else None)
        self.formal_kinds = {k: v.ty for k, v in self.env.items()}

    # -- parameters --------------------------------------------------------------
    def err(self, node, msg):
        return TranslateError(f"{self.fi.where(node)}: {self.fi.qual}: {msg}")

    def param_value(self, name, kind, origin, ann=None):
        """the value of an argument / attribute; the Lean parameter is registered when it is first USED"""
        if kind == "H":
            h = GV(name, "H", base=name, ann=ann, atom=True)
            h.origin = origin
            h.desc = (f"argument `{origin[1]}`" if origin[0] == "arg" else f"attribute `self.{origin[1]}`") \
                + (f" : {ann}" if ann else "")
            return h
        v = GV(name, kind, atom=True)
        v.origin = origin
        v.is_param = True
        return v

    def touch(self, name, lty, origin, comment):
        if name in self.params:
            if self.params[name][0] != lty or self.params[name][1] != origin:
                raise TranslateError(f"{self.fi.where()}: {self.fi.qual}: parameter name clash on {name}")
            return
        self.params[name] = (lty, origin, comment)

    LEAN_TY = {"N": "Nat", "B": "Bool", "S": "List Nat", "Str": "String", "ON": "Option Nat", "Z": "Int"}

    def use(self, v: GV):
        """register the parameter behind an atom when it is read"""
        if getattr(v, "is_param", False):
            o = v.origin
            self.touch(v.lean, self.LEAN_TY[v.ty], o,
                       f"argument `{o[1]}`" if o[0] == "arg" else f"attribute `self.{o[1]}`")
        return v

    def derived(self, h: GV, what, node):
        """derived parameter of a handle: shape / len / is_none / isinstance_<C>"""
        if h.ty != "H" or h.base is None:
            raise self.err(node, f"`{what}` of a value that is not an opaque argument / attribute / local")
        name = f"{h.base}_{what}"
        lty = {"shape": "List Nat", "len": "Nat"}.get(what, "Bool")
        origin = (h.origin[0], h.origin[1], what)
        text = {"shape": f"shape of {h.desc}", "len": f"len of {h.desc}", "is_none": f"`is None` of {h.desc}"}.get(
            what, f"`{what}` of {h.desc}")
        self.touch(name, lty, origin, text)
        return GV(name, {"List Nat": "S", "Nat": "N", "Bool": "B"}[lty], atom=True)

    def fresh_handle(self, name, node, why):
        k = self.versions.get(name, 0)
        self.versions[name] = k + 1
        if name in self.argnames:
            k += 1
        base = name if k == 0 else f"{name}_{k}"
        h = GV(base, "H", base=base, atom=True)
        h.origin = ("local", base)
        h.desc = f"local `{' '.join(ast.unparse(node).split())[:70]}` (line {node.lineno}; {why})"
        return h

    # -- expressions -------------------------------------------------------------
    def self_attr(self, attr, node):
        key = "self." + attr
        if key in self.env:
            return self.env[key]
        if self.fi.cls is None:
            raise self.err(node, "`self` outside a class")
        ann = self.ix.attr_annotation(self.fi.cls.name, attr)
        if ann is None:
            raise self.err(node, f"attribute self.{attr} has no annotation in {self.fi.cls.name} or its bases")
        kind = ann_kind(ann)
        lname = attr if attr not in self.argnames else f"self_{attr}"
        v = self.param_value(lname, kind, ("self", attr), ast.unparse(ann))
        self.env[key] = v
        return v

    def inner_attr(self, attr, inner, node):
        """`self.<attr>.<inner>` where `self.<attr>` is annotated with a class of the package (a wrapped stepper):
        the annotated field `<inner>` of that class, as parameter `<attr>_<inner>`; None if it is not such a chain"""
        key = f"self.{attr}.{inner}"
        if key in self.env:
            return self.env[key]
        if "self." + attr in self.env or self.fi.cls is None:
            return None                      # re-bound in this function: not the declared field any more
        ann = self.ix.attr_annotation(self.fi.cls.name, attr)
        if ann is None or not isinstance(ann, ast.Name) or ann.id not in self.ix.classes:
            return None
        iann = self.ix.attr_annotation(ann.id, inner)
        if iann is None:
            raise self.err(node, f"self.{attr}.{inner}: class {ann.id} declares no field `{inner}`")
        kind = ann_kind(iann)
        v = self.param_value(f"{attr}_{inner}", kind, ("self", f"{attr}.{inner}"), ast.unparse(iann))
        self.env[key] = v
        return v

    def expr(self, n) -> GV:
        if isinstance(n, ast.Constant):
            c = n.value
            if isinstance(c, bool):
                return GV("true" if c else "false", "B", atom=True)
            if isinstance(c, int) and c >= 0:
                return GV(str(c), "N", atom=True)
            if isinstance(c, int):
                return GV(f"({c} : Int)", "Z", atom=True)
            if isinstance(c, str):
                return GV(json.dumps(c, ensure_ascii=False), "Str", atom=True)
            if c is None:
                return GV("none", "None", atom=True)
            if isinstance(c, float):
                h = GV(repr(c), "H", base=None, atom=True)
                h.float_literal = True
                return h
            raise self.err(n, f"constant {c!r} outside the vocabulary")
        if isinstance(n, ast.Name):
            if n.id in self.env:
                return self.use(self.env[n.id])
            raise self.err(n, f"unbound name {n.id}")
        if isinstance(n, ast.Attribute):
            if isinstance(n.value, ast.Name) and n.value.id == "self":
                return self.use(self.self_attr(n.attr, n))
            if isinstance(n.value, ast.Attribute) and isinstance(n.value.value, ast.Name) and n.value.value.id == "self":
                inner = self.inner_attr(n.value.attr, n.attr, n)
                if inner is not None:
                    return self.use(inner)
            if n.attr == "shape":
                v = self.expr(n.value)
                if v.ty == "H" and v.shape is not None:
                    return v.shape
                return self.derived(v, "shape", n)
            if n.attr == "ndim":
                v = self.expr(n.value)
                s = v.shape if (v.ty == "H" and v.shape is not None) else self.derived(v, "shape", n)
                return GV(f"List.length {s.p()}", "N", pre=s.pre)
            raise self.err(n, f"attribute access `{ast.unparse(n)}` outside the vocabulary")
        if isinstance(n, (ast.Tuple, ast.List)):
            items = [self.expr(e) for e in n.elts]
            if items and all(getattr(i, "float_literal", False) for i in items):
                h = GV(ast.unparse(n), "H", atom=True)
                h.float_literal = True
                return h
            if any(i.ty != "N" for i in items):
                raise self.err(n, f"tuple `{ast.unparse(n)}` of non-natural entries")
            v = GV("[" + ", ".join(i.lean for i in items) + "]", "S", pre=sum((i.pre for i in items), ()), atom=True)
            v.items = items
            return v
        if isinstance(n, ast.Subscript):
            v = self.expr(n.value)
            if v.ty != "S":
                raise self.err(n, f"indexing `{ast.unparse(n)}` of a value that is not a shape")
            sl = n.slice
            if isinstance(sl, ast.Constant) and isinstance(sl.value, int) and not isinstance(sl.value, bool) \
                    and sl.value >= 0:
                k = sl.value
                return GV(f"List.getD {v.p()} {k} 0", "N", pre=v.pre + (f"decide ({k} < List.length {v.p()})",))
            if isinstance(sl, ast.Slice) and sl.upper is None and sl.step is None and isinstance(sl.lower, ast.Constant) \
                    and isinstance(sl.lower.value, int) and sl.lower.value >= 0:
                return GV(f"List.drop {sl.lower.value} {v.p()}", "S", pre=v.pre)
            raise self.err(n, f"index `{ast.unparse(n)}` outside the vocabulary (constant k ≥ 0 or k: only)")
        if isinstance(n, ast.BinOp):
            a, b = self.expr(n.left), self.expr(n.right)
            pre = a.pre + b.pre
            if isinstance(n.op, ast.Add) and a.ty == "S" and b.ty == "S":
                return GV(f"{a.p()} ++ {b.p()}", "S", pre=pre)
            if a.ty in ("N", "Z") and b.ty in ("N", "Z"):
                sym = {ast.Add: "+", ast.Sub: "-", ast.Mult: "*", ast.Mod: "%", ast.FloorDiv: "/"}.get(type(n.op))
                if sym is None:
                    raise self.err(n, f"integer operator in `{ast.unparse(n)}` outside the vocabulary")
                if a.ty == "N" and b.ty == "N" and sym != "-":
                    return GV(f"{a.p()} {sym} {b.p()}", "N", pre=pre)
                a, b = self.toZ(a), self.toZ(b)
                if sym == "/":
                    return GV(f"Int.fdiv {a.p()} {b.p()}", "Z", pre=pre)
                if sym == "%":
                    return GV(f"Int.fmod {a.p()} {b.p()}", "Z", pre=pre)
                return GV(f"{a.p()} {sym} {b.p()}", "Z", pre=pre)
            raise self.err(n, f"operation `{ast.unparse(n)[:60]}` on kinds ({a.ty}, {b.ty}) outside the vocabulary")
        if isinstance(n, ast.Call):
            return self.call(n)
        if isinstance(n, ast.ListComp):
            return self.leaf_comprehension(n)
        if isinstance(n, (ast.Compare, ast.BoolOp)) or (isinstance(n, ast.UnaryOp) and isinstance(n.op, ast.Not)):
            c, pre = self.cond(n)
            return GV(c, "B", pre=pre)
        raise self.err(n, f"expression `{ast.unparse(n)[:60]}` outside the vocabulary")

    def toZ(self, v):
        if v.ty == "Z":
            return v
        return GV(f"({v.lean} : Int)", "Z", pre=v.pre, atom=True)

    def leaf_comprehension(self, n):
        """[leaf.shape[k] for leaf in jtu.tree_leaves(t)]"""
        if len(n.generators) == 1 and not n.generators[0].ifs and isinstance(n.generators[0].target, ast.Name):
            g = n.generators[0]
            x = g.target.id
            it = g.iter
            e = n.elt
            if isinstance(it, ast.Call) and ast.unparse(it.func) in ("jtu.tree_leaves", "jax.tree_util.tree_leaves",
                                                                      "jax.tree.leaves") \
                    and len(it.args) == 1 and not it.keywords and isinstance(it.args[0], ast.Name) \
                    and isinstance(e, ast.Subscript) and ast.unparse(e.value) == f"{x}.shape" \
                    and isinstance(e.slice, ast.Constant) and isinstance(e.slice.value, int) and e.slice.value >= 0:
                t = self.expr(it.args[0])
                if t.ty != "H":
                    raise self.err(n, "tree_leaves of a non-opaque value")
                k = e.slice.value
                pname = f"{t.base}_leaf_shapes"
                self.touch(pname, "List (List Nat)", ("arg", t.base, "leaf_shapes"),
                           f"shapes of the leaves of the pytree argument `{t.base}`")
                return GV(f"List.map (fun s => List.getD s {k} 0) {pname}", "S",
                          pre=(f"List.all {pname} (fun s => decide ({k} < List.length s))",))
        raise self.err(n, f"comprehension `{ast.unparse(n)[:70]}` outside the vocabulary")

    def call(self, n) -> GV:
        fn = ast.unparse(n.func)
        if fn in LAYOUT_FUNS:
            target = self.ix.resolve_function(self.fi.rel, fn)
            if fn in self.env or target is None or target.rel != "_spectral.py":
                raise self.err(n, f"`{fn}` does not resolve to exponax/_spectral.py::{fn}")
            if n.keywords or len(n.args) != 2:
                raise self.err(n, f"`{fn}` must be called with two positional arguments")
            a, b = self.expr(n.args[0]), self.expr(n.args[1])
            if a.ty != "N" or b.ty != "N":
                raise self.err(n, f"arguments of `{fn}` are not static naturals")
            return GV(f"{LAYOUT_FUNS[fn]} {a.p()} {b.p()}", "S", pre=a.pre + b.pre)
        if fn == "len" and len(n.args) == 1 and not n.keywords and "len" not in self.env:
            arg = n.args[0]
            if isinstance(arg, ast.Call) and ast.unparse(arg.func) == "set" and len(arg.args) == 1 \
                    and not arg.keywords and "set" not in self.env:
                v = self.expr(arg.args[0])
                if v.ty != "S":
                    raise self.err(n, "len(set(·)) of a value that is not a list of naturals")
                return GV(f"List.length (List.eraseDups {v.p()})", "N", pre=v.pre)
            v = self.expr(arg)
            if v.ty == "S":
                return GV(f"List.length {v.p()}", "N", pre=v.pre)
            if v.ty == "H" and not getattr(v, "float_literal", False):
                return self.derived(v, "len", n)
            raise self.err(n, f"len of a value of kind {v.ty}")
        if fn == "isinstance" and len(n.args) == 2 and not n.keywords and "isinstance" not in self.env:
            v = self.expr(n.args[0])
            if v.ty != "H" or not isinstance(n.args[1], (ast.Name, ast.Attribute)):
                raise self.err(n, f"`{ast.unparse(n)}`: isinstance is only supported as a form selector of an opaque "
                                  f"argument against one class")
            return self.derived(v, "isinstance_" + sanitize(ast.unparse(n.args[1])), n)
        raise self.err(n, f"call `{ast.unparse(n)[:70]}` outside the vocabulary")

    # -- conditions --------------------------------------------------------------
    def cond(self, t):
        """(Lean Bool term, index-bound conditions needed to evaluate it)"""
        if isinstance(t, ast.UnaryOp) and isinstance(t.op, ast.Not):
            c, pre = self.cond(t.operand)
            return neg(c), pre
        if isinstance(t, ast.BoolOp):
            parts = [self.cond(v) for v in t.values]
            sym = "&&" if isinstance(t.op, ast.And) else "||"
            # short-circuit: the bound conditions of a later operand are needed only if it is evaluated
            pre = list(parts[0][1])
            guard = parts[0][0]
            for c, p in parts[1:]:
                for q in p:
                    pre.append(f"{neg(guard)} || {paren(q)}" if sym == "&&" else f"{paren(guard)} || {paren(q)}")
                guard = f"{paren(guard)} {sym} {paren(c)}"
            return f" {sym} ".join(paren(c) for c, _ in parts), tuple(pre)
        if isinstance(t, ast.Compare):
            if len(t.ops) != 1:
                raise self.err(t, f"chained comparison `{ast.unparse(t)}`")
            op = t.ops[0]
            left, right = t.left, t.comparators[0]
            if isinstance(op, (ast.Is, ast.IsNot)):
                if not (isinstance(right, ast.Constant) and right.value is None):
                    raise self.err(t, f"`{ast.unparse(t)}`: `is` is only supported against None")
                v = self.expr(left)
                if v.ty == "ON":
                    c = f"Option.isNone {v.p()}"
                elif v.ty == "H":
                    c = self.derived(v, "is_none", t).lean
                else:
                    raise self.err(t, f"`{ast.unparse(t)}`: None test of a value of kind {v.ty}")
                return (c if isinstance(op, ast.Is) else neg(c)), v.pre
            if isinstance(op, (ast.In, ast.NotIn)):
                if not isinstance(right, (ast.Tuple, ast.List)) or not right.elts:
                    raise self.err(t, f"`{ast.unparse(t)}`: membership is only supported in a literal tuple")
                a = self.expr(left)
                alts, pre = [], list(a.pre)
                for e in right.elts:
                    b = self.expr(e)
                    alts.append(self.compare(a, b, ast.Eq(), t))
                    pre += list(b.pre)
                c = " || ".join(paren(x) for x in alts)
                return (c if isinstance(op, ast.In) else neg(c)), tuple(pre)
            a, b = self.expr(left), self.expr(right)
            if (getattr(a, "float_literal", False) and b.ty == "H") or (getattr(b, "float_literal", False) and a.ty == "H"):
                # value-dependent comparison with a float literal: opaque
                name = "opaque_" + sanitize(ast.unparse(t))
                self.touch(name, "Bool", ("opaque", ast.unparse(t)),
                           f"OPAQUE (value-dependent): `{ast.unparse(t)}`  (line {t.lineno})")
                return name, ()
            return self.compare(a, b, op, t), a.pre + b.pre
        v = self.expr(t)
        if v.ty == "B":
            return v.lean, v.pre
        raise self.err(t, f"condition `{ast.unparse(t)[:60]}` of kind {v.ty} outside the vocabulary")

    def compare(self, a, b, op, node):
        if a.ty in ("N", "Z") and b.ty in ("N", "Z"):
            if a.ty != b.ty:
                a, b = self.toZ(a), self.toZ(b)
            if isinstance(op, ast.Eq):
                return f"{a.p()} == {b.p()}"
            if isinstance(op, ast.NotEq):
                return f"{a.p()} != {b.p()}"
            sym = {ast.Lt: "<", ast.LtE: "≤", ast.Gt: ">", ast.GtE: "≥"}.get(type(op))
            if sym is None:
                raise self.err(node, f"comparison operator in `{ast.unparse(node)}`")
            return f"decide ({a.p()} {sym} {b.p()})"
        if a.ty == b.ty and a.ty in ("S", "Str", "B") and isinstance(op, (ast.Eq, ast.NotEq)):
            return f"{a.p()} {'==' if isinstance(op, ast.Eq) else '!='} {b.p()}"
        raise self.err(node, f"comparison `{ast.unparse(node)[:60]}` of kinds ({a.ty}, {b.ty}) outside the vocabulary")

    # -- statements --------------------------------------------------------------
    def is_idiom_call(self, s):
        """statement-level call of a guarded function: `f(...)` / `return self.m(...)`  ->  FnInfo or None"""
        call = None
        if isinstance(s, ast.Expr) and isinstance(s.value, ast.Call):
            call = s.value
        elif isinstance(s, ast.Return) and isinstance(s.value, ast.Call) and isinstance(s.value.func, ast.Attribute):
            call = s.value
        if call is None:
            return None
        return resolve_callee(self.ix, self.fi, call)

    def interesting(self, s):
        for n in [s] + list(walk_stmt(s)):
            if isinstance(n, ast.Raise):
                return True
            if isinstance(n, ast.stmt):
                c = self.is_idiom_call(n)
                if c is not None and c.qual in INTERESTING:
                    return True
        return False

    def stored_names(self, s):
        out = []
        for n in [s] + list(walk_stmt(s)):
            if isinstance(n, ast.Name) and isinstance(n.ctx, (ast.Store, ast.Del)):
                out.append(n.id)
            if isinstance(n, ast.Attribute) and isinstance(n.ctx, ast.Store) and isinstance(n.value, ast.Name) \
                    and n.value.id == "self":
                out.append("self." + n.attr)
            if isinstance(n, (ast.Import, ast.ImportFrom)):
                for a in n.names:
                    out.append((a.asname or a.name).split(".")[0])
            if isinstance(n, (ast.FunctionDef, ast.ClassDef)):
                out.append(n.name)
        return out

    def clobber(self, s):
        for name in dict.fromkeys(self.stored_names(s)):
            self.env[name] = self.fresh_handle(name.replace("self.", "self_"), s, "outside the vocabulary")

    def assign(self, s):
        if isinstance(s, ast.Assign) and len(s.targets) == 1:
            tgt, val = s.targets[0], s.value
        elif isinstance(s, ast.AnnAssign) and s.value is not None:
            tgt, val = s.target, s.value
        else:
            self.clobber(s)
            return
        key = None
        if isinstance(tgt, ast.Name):
            key = tgt.id
        elif isinstance(tgt, ast.Attribute) and isinstance(tgt.value, ast.Name) and tgt.value.id == "self":
            key = "self." + tgt.attr
        if key is None:
            self.clobber(s)
            return
        saved = dict(self.params)
        try:
            v = self.expr(val)
            if v.ty == "None" or getattr(v, "float_literal", False):
                raise TranslateError("literal")
            # aliasing keeps the identity of parameters (self.x = x)
            self.env[key] = v
        except TranslateError:
            self.params = saved       # parameters touched by the failed attempt are not inputs of any guard
            self.env[key] = self.fresh_handle(key.replace("self.", "self_"), s, "outside the vocabulary")

    def accepts(self, stmts):
        """acceptance term of a statement list (what follows the list is: accepted)"""
        if not any(self.interesting(s) for s in stmts):
            return "true"
        s, rest = stmts[0], stmts[1:]
        if isinstance(s, ast.Raise):
            self.sites.append((s.lineno, exc_name(s), self.lexical.get(id(s), "?")))
            return "false"
        if isinstance(s, ast.Return):
            c = self.is_idiom_call(s)
            if c is not None and c.qual in INTERESTING:
                return self.delegate(c, s.value)
            return "true"
        if isinstance(s, ast.Expr):
            c = self.is_idiom_call(s)
            if c is not None and c.qual in INTERESTING:
                d = self.delegate(c, s.value)
                return conj([d, self.accepts(rest)])
            if self.interesting(s):
                raise self.err(s, "raise inside an expression statement")
            return self.accepts(rest)
        if isinstance(s, ast.If):
            if not self.interesting(s) and not contains_return(s):
                self.merge_if(s)
                return self.accepts(rest)
            sel = self.option_test(s.test)
            c, pre = self.cond(s.test)
            pre = [q for q in pre if q not in self.asserted]      # bound checks already made on this path
            self.asserted = self.asserted + pre
            env0, ver0 = dict(self.env), dict(self.versions)
            self.env = dict(env0)
            if sel is not None and sel[1] == "some_in_body":
                self.env[sel[0]] = GV(sel[0] + "_val", "N", atom=True)
            a = self.accepts(list(s.body) + rest)
            self.env, self.versions = dict(env0), dict(ver0)
            if sel is not None and sel[1] == "none_in_body":
                self.env[sel[0]] = GV(sel[0] + "_val", "N", atom=True)
            b = self.accepts(list(s.orelse) + rest)
            self.env, self.versions = env0, ver0
            if sel is not None and (f"{sel[0]}_val" in T.tokens(a) or f"{sel[0]}_val" in T.tokens(b)):
                none_t, some_t = (a, b) if sel[1] == "none_in_body" else (b, a)
                r = f"(match {sel[0]} with | none => {none_t} | some {sel[0]}_val => {some_t})"
            else:
                r = ite(c, a, b)
            self.asserted = self.asserted[:len(self.asserted) - len(pre)]
            return conj(list(pre) + [r])
        if isinstance(s, ast.Try):
            mods = []
            ok = (all(isinstance(b, ast.Import) for b in s.body) and len(s.handlers) == 1 and not s.orelse
                  and not s.finalbody and s.handlers[0].type is not None
                  and ast.unparse(s.handlers[0].type) in ("ImportError", "ModuleNotFoundError")
                  and len(s.handlers[0].body) == 1 and isinstance(s.handlers[0].body[0], ast.Raise))
            if not ok:
                raise self.err(s, "try statement containing a raise (only `try: import m / except ImportError: raise`)")
            for b in s.body:
                for a in b.names:
                    mods.append(a.name)
            r = s.handlers[0].body[0]
            name = "import_" + "_".join(sanitize(m) for m in mods) + "_ok"
            self.touch(name, "Bool", ("import", ",".join(mods)), f"`import {', '.join(mods)}` succeeds  (line {s.lineno})")
            self.sites.append((r.lineno, exc_name(r), f"import {', '.join(mods)} fails"))
            self.clobber(s)
            return conj([name, self.accepts(rest)])
        if self.interesting(s) or (contains_return(s) and any(self.interesting(x) for x in rest)):
            raise self.err(s, f"`raise` / early `return` inside a {type(s).__name__} statement is outside the vocabulary")
        if isinstance(s, (ast.Assign, ast.AnnAssign)):
            self.assign(s)
        else:
            self.clobber(s)
        return self.accepts(rest)

    def option_test(self, t):
        """`x is None` / `x is not None` on an `int | None` PARAMETER  ->  (name, which branch sees none)"""
        if isinstance(t, ast.Compare) and len(t.ops) == 1 and isinstance(t.ops[0], (ast.Is, ast.IsNot)) \
                and isinstance(t.left, ast.Name) and isinstance(t.comparators[0], ast.Constant) \
                and t.comparators[0].value is None:
            v = self.env.get(t.left.id)
            if v is not None and v.ty == "ON" and getattr(v, "is_param", False):
                return (t.left.id, "none_in_body" if isinstance(t.ops[0], ast.Is) else "some_in_body")
        return None

    def merge_if(self, s):
        """an `if` without raise / return: the names it assigns become conditional values"""
        sel = self.option_test(s.test)
        saved_params = dict(self.params)
        try:
            c, pre = self.cond(s.test)
        except TranslateError:
            self.params = saved_params
            self.clobber(s)
            return
        env0, ver0 = dict(self.env), dict(self.versions)
        branches = []
        for which, block in (("body", s.body), ("orelse", s.orelse)):
            self.env = dict(env0)
            if sel is not None:
                sees_none = (sel[1] == "none_in_body") == (which == "body")
                if not sees_none:
                    self.env[sel[0]] = GV(sel[0] + "_val", "N", atom=True)
            for x in block:
                if isinstance(x, (ast.Assign, ast.AnnAssign)):
                    self.assign(x)
                elif isinstance(x, ast.If) and not contains_return(x):
                    self.merge_if(x)
                elif isinstance(x, ast.Expr) or isinstance(x, ast.Pass):
                    continue
                else:
                    self.clobber(x)
            branches.append(dict(self.env))
        names = list(dict.fromkeys(self.stored_names(s)))
        self.env = dict(env0)
        for name in names:
            a, b = branches[0].get(name), branches[1].get(name)
            merged = None
            if a is not None and b is not None and a.ty in ("N", "Z", "B", "S", "Str") and b.ty in ("N", "Z", "B", "S", "Str"):
                if a.ty != b.ty and {a.ty, b.ty} == {"N", "Z"}:
                    a, b = self.toZ(a), self.toZ(b)
                if a.ty == b.ty:
                    if sel is not None:
                        none_v, some_v = (a, b) if sel[1] == "none_in_body" else (b, a)
                        merged = GV(f"match {sel[0]} with | none => {none_v.lean} | some {sel[0]}_val => {some_v.lean}",
                                    a.ty, pre=tuple(pre) + a.pre + b.pre)
                    else:
                        merged = GV(f"if {c} then {a.lean} else {b.lean}", a.ty, pre=tuple(pre) + a.pre + b.pre)
            if merged is None:
                merged = self.fresh_handle(name.replace("self.", "self_"), s, "assigned under a condition")
            self.env[name] = merged
        if sel is not None and sel[0] not in names:
            self.env[sel[0]] = env0[sel[0]]

    # -- delegation --------------------------------------------------------------
    def delegate(self, callee: FnInfo, call):
        res = self.results.get(callee.qual)
        if res is None:
            raise self.err(call, f"call of {callee.qual} before its guard is translated (recursion?)")
        self.callees.append(callee.qual)
        is_method = isinstance(call.func, ast.Attribute)
        formals = [a for a in res["argnames"]]
        actual = {}
        if len(call.args) > len(formals):
            raise self.err(call, "too many positional arguments")
        for f, a in zip(formals, call.args):
            if isinstance(a, ast.Starred):
                raise self.err(call, "starred argument")
            actual[f] = a
        for kw in call.keywords:
            if kw.arg is None or kw.arg not in formals or kw.arg in actual:
                raise self.err(call, f"keyword {kw.arg} in call of {callee.qual}")
            actual[kw.arg] = kw.value
        parts, pres = [], []
        for pname, (lty, origin, _c) in res["params"].items():
            if origin[0] == "arg":
                formal = origin[1]
                node = actual.get(formal, res["defaults"].get(formal))
                if node is None:
                    raise self.err(call, f"missing argument {formal} in call of {callee.qual}")
                v = self.expr(node)
                what = origin[2] if len(origin) > 2 else None
                if what is None:
                    want = {"Nat": "N", "Bool": "B", "String": "Str", "Option Nat": "ON", "List Nat": "S"}[lty]
                    if v.ty == "N" and want == "ON":
                        v = GV(f"some {v.p()}", "ON", pre=v.pre)
                    if v.ty == "None" and want == "ON":
                        v = GV("none", "ON", atom=True)
                    if v.ty != want:
                        raise self.err(call, f"argument {formal} of {callee.qual} has kind {v.ty}, expected {want}")
                elif what == "shape":
                    v = v.shape if (v.ty == "H" and v.shape is not None) else self.derived(v, "shape", call)
                elif what in ("len", "is_none") or what.startswith("isinstance_"):
                    v = self.derived(v, what, call)
                else:
                    raise self.err(call, f"cannot pass `{what}` of {formal} to {callee.qual}")
                parts.append(v.p())
                pres += list(v.pre)
            elif origin[0] == "self" and is_method:
                v = self.self_attr(origin[1], call)
                if len(origin) > 2:
                    v = self.derived(v, origin[2], call)
                else:
                    self.use(v)
                parts.append(v.p())
            else:
                raise self.err(call, f"parameter {pname} of {callee.qual} ({origin[0]}) cannot be supplied by the caller")
        return conj(pres + [(res["lean_name"] + " " + " ".join(parts)).strip()])

    # -- driver ------------------------------------------------------------------
    def run(self):
        self.lexical = lexical_conditions(self.fi.node)
        self.asserted = []
        body = self.accepts(list(self.fi.node.body))
        n_sites = len(self.fi.raises)
        seen = {l for l, _, _ in self.sites}
        missing = [r.lineno for r in self.fi.raises if r.lineno not in seen]
        if missing:
            raise TranslateError(f"{self.fi.where()}: {self.fi.qual}: raise site(s) at line(s) {missing} not reached by "
                                 f"the translation")
        used = T.tokens(body)
        # canonical parameter order, independent of the order in which the guards read them (so that a swapped
        # variable is not absorbed as a renaming): attributes of self in declaration order, arguments in signature
        # order, then locals / opaque conditions / imports in order of first use
        fields = self.ix.class_fields(self.fi.cls.name) if self.fi.cls is not None else []
        touch = {k: i for i, k in enumerate(self.params)}

        def key(item):
            k, (lty, origin, _c) = item
            if origin[0] == "self" and "." in origin[1]:
                outer, inner = origin[1].split(".", 1)
                ann = self.ix.attr_annotation(self.fi.cls.name, outer)
                ifields = self.ix.class_fields(ann.id) if isinstance(ann, ast.Name) else []
                return (0, fields.index(outer) if outer in fields else len(fields),
                        ifields.index(inner) if inner in ifields else len(ifields), touch[k])
            if origin[0] == "self":
                return (0, fields.index(origin[1]) if origin[1] in fields else len(fields), -1, touch[k])
            if origin[0] == "arg":
                return (1, self.argnames.index(origin[1]) if origin[1] in self.argnames else len(self.argnames), -1,
                        touch[k])
            return (2, 0, -1, touch[k])
        params = dict(sorted(((k, v) for k, v in self.params.items() if k in used), key=key))
        return {"lean_name": self.fi.lean_name, "params": params, "body": body, "sites": sorted(set(self.sites)),
                "n_sites": n_sites, "callees": list(dict.fromkeys(self.callees)), "argnames": self.argnames,
                "defaults": self.defaults}


def lexical_conditions(fn):
    """id(raise node) -> the chain of enclosing `if` tests (documentation only)"""
    out = {}

    def go(stmts, chain):
        for s in stmts:
            if isinstance(s, ast.Raise):
                out[id(s)] = " and ".join(chain) if chain else "reached (unconditional)"
            elif isinstance(s, ast.If):
                t = ast.unparse(s.test)
                go(s.body, chain + [t])
                go(s.orelse, chain + [f"not ({t})"])
            elif isinstance(s, ast.Try):
                go(s.body, chain)
                for h in s.handlers:
                    go(h.body, chain + [f"except {ast.unparse(h.type) if h.type else ''}"])
                go(s.orelse, chain)
                go(s.finalbody, chain)
            elif isinstance(s, (ast.For, ast.While, ast.With)):
                go(s.body, chain + [type(s).__name__])
                go(getattr(s, "orelse", []), chain)
    go(fn.body, [])
    return out


def exc_name(r):
    if r.exc is None:
        return "re-raise"
    return ast.unparse(r.exc.func) if isinstance(r.exc, ast.Call) else ast.unparse(r.exc)


def walk_stmt(s):
    todo = [ch for ch in ast.iter_child_nodes(s)]
    while todo:
        n = todo.pop()
        if isinstance(n, (ast.FunctionDef, ast.AsyncFunctionDef, ast.ClassDef, ast.Lambda)):
            if isinstance(n, (ast.FunctionDef, ast.ClassDef)):
                yield n   # the definition itself (binds a name), not its body
            continue
        yield n
        todo += list(ast.iter_child_nodes(n))


def contains_return(s):
    return any(isinstance(n, ast.Return) for n in [s] + list(walk_stmt(s)))


def is_validator(fi: FnInfo):
    """a function that returns no value: its only observable effect is to raise or not"""
    return not any(isinstance(n, ast.Return) and n.value is not None
                   and not (isinstance(n.value, ast.Constant) and n.value.value is None) for n in walk_own(fi.node))


def resolve_callee(ix: Index, fi: FnInfo, call):
    """the two delegation idioms: `validator(...)` as a statement (a module-level function that returns no value),
    `return self.method(...)` (dispatch to a method of the same class)"""
    f = call.func
    if isinstance(f, ast.Name):
        c = ix.resolve_function(fi.rel, f.id)
        return c if (c is not None and is_validator(c)) else None
    if isinstance(f, ast.Attribute) and isinstance(f.value, ast.Name) and f.value.id == "self" and fi.cls is not None:
        for g in ix.funs:
            if g.cls is fi.cls and g.node.name == f.attr:
                return g
    return None


INTERESTING = set()


def idiom_callees(ix, fi):
    out = []
    for n in walk_own(fi.node):
        if (isinstance(n, ast.Expr) and isinstance(n.value, ast.Call)) or \
                (isinstance(n, ast.Return) and isinstance(n.value, ast.Call) and isinstance(n.value.func, ast.Attribute)):
            c = resolve_callee(ix, fi, n.value)
            if c is not None and c is not fi:
                out.append(c)
    return out


# ----------------------------------------------------------------------------
# the target
# ----------------------------------------------------------------------------
def translate_guards(out_hashes):
    global INTERESTING
    ix = Index(T.REPO)
    by_qual = {}
    for fi in ix.funs:
        if fi.qual in by_qual and (fi.raises or by_qual[fi.qual].raises):
            raise TranslateError(f"two functions named {fi.qual} ({by_qual[fi.qual].where()}, {fi.where()})")
        by_qual.setdefault(fi.qual, fi)
    # functions of interest: lexical raise sites, closed under the two delegation idioms
    INTERESTING = {fi.qual for fi in ix.funs if fi.raises}
    calls = {fi.qual: [c.qual for c in idiom_callees(ix, fi)] for fi in ix.funs}
    changed = True
    while changed:
        changed = False
        for fi in ix.funs:
            if fi.qual not in INTERESTING and any(c in INTERESTING for c in calls[fi.qual]):
                INTERESTING.add(fi.qual)
                changed = True
    # dependency order
    order, state = [], {}

    def visit(q, stack=()):
        if state.get(q) == 2:
            return
        if state.get(q) == 1:
            raise TranslateError(f"recursive guard delegation through {q}")
        state[q] = 1
        for c in calls[q]:
            if c in INTERESTING:
                visit(c, stack + (q,))
        state[q] = 2
        order.append(q)

    for fi in ix.funs:
        if fi.qual in INTERESTING:
            visit(fi.qual)
    results = {}
    lean_names = {}
    for q in order:
        fi = by_qual[q]
        if fi.node.decorator_list and any(ast.unparse(d) not in ("staticmethod", "abstractmethod")
                                          for d in fi.node.decorator_list):
            raise TranslateError(f"{fi.where()}: {q}: decorated function")
        res = GuardTr(ix, fi, results).run()
        if res["lean_name"] in lean_names:
            raise TranslateError(f"Lean name {res['lean_name']} generated twice ({lean_names[res['lean_name']]}, {q})")
        lean_names[res["lean_name"]] = q
        results[q] = res
        out_hashes[f"{fi.rel}::{q}"] = T.src_hash(fi.node, fi.src)
    # emission, in file / source order
    texts = []
    emitted = sorted(results, key=lambda q: (by_qual[q].rel, by_qual[q].node.lineno))
    # dependency-respecting emission order: callees first
    pos = {q: i for i, q in enumerate(order)}
    emitted = sorted(results, key=lambda q: (max([pos[q]] + [pos[c] for c in results[q]["callees"]]) if results[q]["callees"] else -1,
                                             by_qual[q].rel, by_qual[q].node.lineno))
    for q in emitted:
        fi, r = by_qual[q], results[q]
        lines = [f"-- {q}  ({fi.where()}); raise sites: {r['n_sites']}"]
        for ln, exc, cond in r["sites"]:
            lines.append(f"--   line {ln}: {exc} if {cond}"[:200])
        for c in r["callees"]:
            lines.append(f"--   delegates to {c}")
        for pn, (lty, origin, comment) in r["params"].items():
            lines.append(f"--   {pn} : {comment}"[:220])
        binders = " ".join(f"({pn} : {lty})" for pn, (lty, _, _) in r["params"].items())
        head = f"def {r['lean_name']} {binders} : Bool :=".replace("  ", " ")
        texts.append("\n".join(lines) + "\n" + head + "\n  " + r["body"] + "\n")
    q_ = lambda s: json.dumps(s)
    guards = sorted((q, results[q]["n_sites"]) for q in results if results[q]["n_sites"] > 0)
    deleg = sorted((q, results[q]["callees"]) for q in results if results[q]["callees"])
    total = sum(n for _, n in guards)
    # the stepper-protocol classes (define step, step_fourier and __call__): does __call__ reach a guard?
    entry = []
    for name, (rel, c, src) in sorted(ix.classes.items()):
        ms = {m.name for m in c.body if isinstance(m, ast.FunctionDef)}
        if {"step", "step_fourier", "__call__"} <= ms:
            q = f"{name}.__call__"
            entry.append((name, results[q]["n_sites"] if q in results else 0))
    tail = [
        "/-- every function with a `raise` (owner.function, number of raise sites), sorted; pinned by `rfl` in",
        "    `Proofs/GuardsGenEq.lean`: a guard that is removed or added breaks the build -/",
        "def generated_guards : List (String × Nat) :=\n  [" + ",\n   ".join(f"({q_(q)}, {n})" for q, n in guards) + "]",
        "",
        f"/-- total number of raise sites under exponax/ -/\ndef generated_raise_sites : Nat := {total}",
        "",
        "/-- functions whose acceptance is (also) decided by a guarded function they call at statement level -/",
        "def generated_delegations : List (String × List String) :=\n  ["
        + ",\n   ".join(f"({q_(q)}, [{', '.join(q_(c) for c in cs)}])" for q, cs in deleg) + "]",
        "",
        "/-- the classes with the stepper protocol (`step`, `step_fourier`, `__call__`) and the number of raise sites of",
        "    their `__call__` (0: the call is NOT guarded) -/",
        "def stepper_call_guards : List (String × Nat) :=\n  [" + ", ".join(f"({q_(n)}, {k})" for n, k in entry) + "]",
    ]
    header = (f"/- GENERATED by harness/translate_guards.py from exponax/**/*.py (every function containing a `raise`) — do not edit.\n"
              f"   source span hashes: see Generated/hashes_guards.json -/\n"
              f"import ExponaxModel.Generated.SpectralLayout\n"
              f"set_option linter.unusedVariables false\n"
              f"namespace Exponax.Gen.{NS}\n\n")
    return header + "\n".join(texts) + "\n" + "\n".join(tail) + f"\n\nend Exponax.Gen.{NS}\n"


TARGETS = {NAME: translate_guards}


def run(targets=None):
    os.makedirs(T.GEN_DIR, exist_ok=True)
    res, hashes = {}, {}
    for name, fn in TARGETS.items():
        if targets and name not in targets:
            continue
        try:
            text = fn(hashes)
            changed = T.write_if_changed(os.path.join(T.GEN_DIR, name + ".lean"), text)
            res[name] = {"ok": True, "error": None, "changed": changed}
        except (TranslateError, SyntaxError, FileNotFoundError) as e:   # broken obligation
            res[name] = {"ok": False, "error": f"{type(e).__name__}: {e}", "changed": False}
    T.write_if_changed(os.path.join(T.GEN_DIR, "hashes_guards.json"), json.dumps(hashes, indent=1, sort_keys=True) + "\n")
    return res, hashes


if __name__ == "__main__":
    r, h = run(sys.argv[1:] or None)
    print(json.dumps(r, indent=1))
    sys.exit(0 if all(v["ok"] for v in r.values()) else 3)
