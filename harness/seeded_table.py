#!/usr/bin/env python3
"""rewrites the table between the SEEDED-TABLE markers of DESIGN.md from seeded/*/{meta,confirm,detect}.json"""
import glob
import json
import os
import re

VERIF = os.path.dirname(os.path.dirname(os.path.abspath(__file__)))


def load(p):
    try:
        return json.load(open(p))
    except Exception:
        return None


def main():
    rows = ["| id | property | change (one line) | needs | confirmed (suite green, demo fails only with patch) | quick checks run → result | first thing that broke |",
            "|---|---|---|---|---|---|---|"]
    for d in sorted(glob.glob(os.path.join(VERIF, "seeded", "*"))):
        sid = os.path.basename(d)
        meta, conf, det = load(d + "/meta.json"), load(d + "/confirm.json"), load(d + "/detect.json")
        if not meta:
            continue
        what = re.sub(r"\s+", " ", str(meta.get("what", "")))[:230].replace("|", "/")
        needs = re.sub(r"\s+", " ", str(meta.get("needs", "")))[:160].replace("|", "/")
        c = "—" if not conf else ("yes" if conf.get("confirmed") else "NO: " + json.dumps({k: conf.get(k) for k in ("applies", "suite_green")}))
        if det and det.get("checks"):
            parts, first = [], []
            for p, r in det["checks"].items():
                tag = "VIOLATION" if (r["exit"] == 1 and r["violations"]) else ("pass" if r["exit"] == 0 else f"exit {r['exit']}")
                nf = any("no-failing-input-found" in v for v in r["violations"])
                parts.append(f"{p}: {tag}" + (" (no-failing-input-found)" if nf else (" + failing input" if tag == "VIOLATION" else "")))
                m = re.search(r"broken=(\d+) oracle_failures=(\d+)", r.get("summary", ""))
                if m:
                    first.append(f"{p}: broken obligations/correspondence {m.group(1)}, oracle failures {m.group(2)}")
            dcol, fcol = "; ".join(parts), "; ".join(first)
        else:
            dcol, fcol = "not run yet", ""
        rows.append(f"| {sid} | {meta.get('property')} | {what} | {needs} | {c} | {dcol} | {fcol} |")
    table = "\n".join(rows)
    p = os.path.join(VERIF, "DESIGN.md")
    s = open(p).read()
    a, b = "<!-- SEEDED-TABLE-BEGIN -->", "<!-- SEEDED-TABLE-END -->"
    if a in s:
        s = s[:s.index(a) + len(a)] + "\n" + table + "\n" + s[s.index(b):]
        open(p, "w").write(s)
    print(table)


if __name__ == "__main__":
    main()
