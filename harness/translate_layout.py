#!/usr/bin/env python3
"""
Translator for the integer / rational layout helpers of `exponax/_spectral.py`,
`exponax/_utils.py` (`make_grid`, `wrap_bc`) and the dealiasing-mask construction of
`exponax/nonlin_fun/_base.py`:  regenerates `lean/ExponaxModel/Generated/SpectralLayout.lean`.

Every array-valued Python function becomes a Lean definition of ONE ENTRY of the array it
builds (never an array program):

  1-D per-axis array (`fftfreq`, `linspace`, ...)            ↦  `Vec T`  (length + entry function)
  python list / tuple                                        ↦  `List _`
  array with a leading axis over trailing grid axes          ↦  `List T`   at the trailing index `idx`
     (`jnp.stack(jnp.meshgrid(...))`, kind "grid")
  array with a singleton / no leading axis                   ↦  `T`        at the trailing index `idx`
  python `slice(a, b)`                                       ↦  `Option Int × Option Int`
  a function whose `if` chain ends in `raise`                ↦  `Option _` (`none` = raises)

Static scalars live in the tower  Nat ⊂ Int ⊂ Rat ⊂ K:  python ints are `Nat` (parameters, non-negative
literals) or `Int` (after `-`), true division of integers and float literals are exact `Rat`s, values
that depend on a `float` parameter are the generic `K` of `Model/Ops.lean`.

The library primitives (`jnp.fft.fftfreq`, `jnp.round`, `jnp.meshgrid`, `jnp.linspace`, `jnp.pad`,
`itertools.product`, ...) are given per-entry semantics once, in PRELUDE below (their definitions
follow the numpy / jax.numpy documentation; properties that justify them are proved in
`Proofs/SpectralLayoutEq.lean`).  Anything outside the vocabulary raises `T.TranslateError`.
"""
from __future__ import annotations

import ast
import json
import os
import re
import sys

sys.path.insert(0, os.path.dirname(os.path.abspath(__file__)))
import translate as T  # noqa: E402

V = T.V
TranslateError = T.TranslateError

NAME = "SpectralLayout"
IDX = "idx"

# ----------------------------------------------------------------------------
# kinds
# ----------------------------------------------------------------------------
RANK = {"N": 0, "Z": 1, "Q": 2, "K": 3}
SCALAR_TY = {"N": "Nat", "Z": "Int", "Q": "Rat", "K": "K", "B": "Bool", "S": "String"}


_TOK = re.compile(r"[A-Za-z_][A-Za-z_0-9']*")
_LET = re.compile(r"let ([A-Za-z_][A-Za-z_0-9']*) :")


def toks(text):
    return set(_TOK.findall(text))


def indent(entries, n):
    """indent every physical line of every (possibly multi-line) entry"""
    return [" " * n + l for e in entries for l in e.split("\n")]


def is_vec(k):
    return isinstance(k, tuple) and k[0] == "vec"


def is_list(k):
    return isinstance(k, tuple) and k[0] == "list"


def is_grid(k):
    return isinstance(k, tuple) and k[0] == "grid"


def lean_ty(k, atom=False):
    if isinstance(k, str):
        if k in SCALAR_TY:
            return SCALAR_TY[k]
        raise TranslateError(f"no lean type for kind {k}")
    if k[0] == "vec":
        s = f"Vec {lean_ty(k[1], True)}"
    elif k[0] in ("list", "grid"):
        s = f"List {lean_ty(k[1], True)}"
    elif k[0] == "opt":
        s = f"Option {lean_ty(k[1], True)}"
    elif k[0] == "slice":
        s = "Option Int × Option Int"
    elif k[0] == "arr":
        s = f"List Nat → {lean_ty(k[1], True)}"
    else:
        raise TranslateError(f"no lean type for kind {k}")
    return f"({s})" if atom else s


def uses_K(k):
    if k == "K":
        return True
    return isinstance(k, tuple) and any(uses_K(x) for x in k[1:])


class Helper:
    def __init__(self, lean, params, ret, per_entry, used, usesK, has_shape, partial):
        self.lean = lean            # lean name
        self.params = params        # [(python name, kind, default ast | None, kwonly)]
        self.ret = ret              # kind of the result (inside the Option when `partial`)
        self.per_entry = per_entry  # takes the trailing index as last argument
        self.used = used            # classes on K
        self.usesK = usesK
        self.has_shape = has_shape  # a `<lean>_shape` companion exists
        self.partial = partial      # result is wrapped in Option


# ----------------------------------------------------------------------------
# the translator of one function body
# ----------------------------------------------------------------------------
class LT:
    def __init__(self, owner, helpers):
        self.owner = owner
        self.helpers = helpers
        self.env = {}
        self.lines = []
        self.used = set()
        self.usesK = False
        self.per_entry = False
        self.partial = False

    # -- errors / bookkeeping ------------------------------------------------------
    def err(self, msg, node=None):
        where = f" at `{ast.unparse(node)[:70]}`" if node is not None else ""
        return TranslateError(f"{self.owner}: {msg}{where}")

    def use(self, *cls):
        self.used.update(cls)
        self.usesK = True

    def idx(self):
        self.per_entry = True
        return IDX

    # -- casts -----------------------------------------------------------------------
    def cast(self, v, k, node=None):
        if v.ty == k:
            return v
        if v.ty == "N" and k == "Z":
            return V(f"({v.lean} : Int)" if v.atom else f"(({v.lean} : Nat) : Int)", "Z", atom=True)
        if v.ty == "N" and k == "Q":
            return V(f"(({v.lean} : Nat) : Rat)", "Q", atom=True)
        if v.ty == "Z" and k == "Q":
            return V(f"(({v.lean} : Int) : Rat)", "Q", atom=True)
        if v.ty == "N" and k == "K":
            self.use("NatCast")
            return V(f"lit {v.p()}", "K")
        if v.ty == "Z" and k == "K":
            self.use("IntCast")
            return V(f"(IntCast.intCast {v.p()} : K)", "K", atom=True)
        raise self.err(f"cannot convert a value of kind {v.ty} to kind {k}: {v.lean[:60]}", node)

    def join(self, a, b, node=None, at_least=None):
        """common numeric kind"""
        for x in (a, b):
            if x.ty not in RANK:
                raise self.err(f"numeric operation on a value of kind {x.ty}", node)
        r = max(RANK[a.ty], RANK[b.ty], RANK[at_least] if at_least else 0)
        return [k for k, v in RANK.items() if v == r][0]

    # -- scalar arithmetic -------------------------------------------------------------
    def arith(self, op, a, b, node=None):
        if isinstance(op, ast.BitAnd):
            if a.ty == "B" and b.ty == "B":
                return V(f"{a.p()} && {b.p()}", "B")
            raise self.err(f"`&` on kinds {a.ty}, {b.ty}", node)
        if isinstance(op, ast.Div):
            k = self.join(a, b, node, at_least="Q")
            a, b = self.cast(a, k, node), self.cast(b, k, node)
            if k == "K":
                self.use("Div")
            return V(f"{a.p()} / {b.p()}", k)
        if isinstance(op, (ast.FloorDiv, ast.Mod)):
            k = self.join(a, b, node)
            if k == "N":
                return V(f"{a.p()} {'/' if isinstance(op, ast.FloorDiv) else '%'} {b.p()}", "N")
            if k == "Z":
                a, b = self.cast(a, "Z"), self.cast(b, "Z")
                return V(f"Int.{'fdiv' if isinstance(op, ast.FloorDiv) else 'fmod'} {a.p()} {b.p()}", "Z")
            raise self.err(f"`//` or `%` on non-integers ({a.ty}, {b.ty})", node)
        sym, cls = {ast.Add: ("+", "Add"), ast.Sub: ("-", "Sub"), ast.Mult: ("*", "Mul")}.get(type(op), (None, None))
        if sym is None:
            raise self.err(f"operator {type(op).__name__} outside the vocabulary", node)
        k = self.join(a, b, node)
        if k == "N" and sym == "-":
            k = "Z"
        a, b = self.cast(a, k, node), self.cast(b, k, node)
        if k == "K":
            self.use(cls)
        return V(f"{a.p()} {sym} {b.p()}", k)

    def compare(self, op, a, b, node=None):
        if a.ty == "S" and b.ty == "S":
            if isinstance(op, ast.Eq):
                return V(f"{a.p()} == {b.p()}", "B")
            if isinstance(op, ast.NotEq):
                return V(f"{a.p()} != {b.p()}", "B")
            raise self.err("ordering of strings", node)
        if isinstance(a.ty, tuple) and a.ty[0] == "norm":
            if isinstance(op, ast.LtE) and b.ty in ("N", "Z", "Q"):
                return V(f"l2norm_le {a.p()} {self.cast(b, 'Q', node).p()}", "B")
            raise self.err("a norm can only be compared by `<=` with a static rational", node)
        k = self.join(a, b, node)
        if k == "K":
            raise self.err("comparison of values that depend on a float parameter", node)
        a, b = self.cast(a, k, node), self.cast(b, k, node)
        if isinstance(op, ast.Eq):
            return V(f"{a.p()} == {b.p()}", "B")
        if isinstance(op, ast.NotEq):
            return V(f"{a.p()} != {b.p()}", "B")
        sym = {ast.LtE: "≤", ast.Lt: "<", ast.GtE: "≥", ast.Gt: ">"}.get(type(op))
        if sym is None:
            raise self.err("comparison operator outside the vocabulary", node)
        return V(f"decide ({a.p()} {sym} {b.p()})", "B")

    # -- elementwise lifting -------------------------------------------------------------
    def lift(self, f, args, node=None):
        vecs = [a for a in args if is_vec(a.ty)]
        grids = [a for a in args if is_grid(a.ty)]
        for a in args:
            if not (is_vec(a.ty) or is_grid(a.ty) or a.ty in SCALAR_TY
                    or (isinstance(a.ty, tuple) and a.ty[0] == "norm")):
                raise self.err(f"elementwise operation on a value of kind {a.ty}", node)
        if vecs and grids:
            raise self.err("operation mixes a per-axis array and a stacked grid array", node)
        if vecs:
            # an anonymous intermediate array `Vec.mk len (fun i_ => body)` is inlined (β-reduced)
            sc = [(V(a.vbody, a.ty[1]) if getattr(a, "vbody", None) else V(f"{a.p()}.get i_", a.ty[1]))
                  if is_vec(a.ty) else a for a in args]
            r = f(*sc)
            if r.ty not in SCALAR_TY:
                raise self.err(f"elementwise result of kind {r.ty}", node)
            ln = getattr(vecs[0], "vlen", None) or f"{vecs[0].p()}.len"
            out = V(f"Vec.mk {ln} (fun i_ => {r.lean})", ("vec", r.ty))
            out.vlen, out.vbody = ln, r.lean
            return out
        if grids:
            if len(grids) > 1:
                raise self.err("elementwise operation on two stacked grid arrays", node)
            g = grids[0]
            sc = [V("x_", g.ty[1], atom=True) if a is g else a for a in args]
            r = f(*sc)
            out = V(f"List.map (fun x_ => {r.lean}) {g.p()}", ("grid", r.ty))
            out.shape = getattr(g, "shape", None)
            return out
        return f(*args)

    # -- expressions -----------------------------------------------------------------------
    def const(self, c, node=None):
        if isinstance(c, bool):
            return V("true" if c else "false", "B", atom=True)
        if isinstance(c, int):
            if c >= 0:
                return V(str(c), "N", atom=True)
            return V(f"({c} : Int)", "Z", atom=True)
        if isinstance(c, float):
            from fractions import Fraction
            fr = Fraction(c)
            fr2 = Fraction(repr(c))
            if float(fr2) == c:
                fr = fr2
            return V(f"(({fr.numerator} : Int) : Rat) / (({fr.denominator} : Nat) : Rat)", "Q")
        if isinstance(c, complex) and c.real == 0 and c.imag == 1.0:
            self.use("HasI")
            return V("HasI.I", "K", atom=True)
        if isinstance(c, str):
            return V(json.dumps(c, ensure_ascii=False), "S", atom=True)
        if c is None:
            return V("none", ("none",), atom=True)
        raise self.err(f"unsupported constant {c!r}", node)

    def expr(self, n):
        if isinstance(n, ast.Constant):
            return self.const(n.value, n)
        if isinstance(n, ast.Name):
            if n.id in self.env:
                return self.env[n.id]
            raise self.err(f"unbound name {n.id}", n)
        if isinstance(n, (ast.Tuple, ast.List)):
            return self.list_literal(n)
        if isinstance(n, ast.UnaryOp):
            v = self.expr(n.operand)
            if isinstance(n.op, ast.USub):
                def neg(x):
                    if x.ty == "N":
                        return V(f"-{self.cast(x, 'Z').p()}", "Z")
                    if x.ty in ("Z", "Q"):
                        return V(f"-{x.p()}", x.ty)
                    if x.ty == "K":
                        self.use("Neg")
                        return V(f"-{x.p()}", "K")
                    raise self.err(f"unary minus on kind {x.ty}", n)
                return self.lift(neg, [v], n)
            if isinstance(n.op, ast.Not) and v.ty == "B":
                return V(f"!{v.p()}", "B")
            raise self.err("unary operator outside the vocabulary", n)
        if isinstance(n, ast.BoolOp):
            vs = [self.expr(x) for x in n.values]
            if any(v.ty != "B" for v in vs):
                raise self.err("and/or of non-booleans", n)
            sym = " && " if isinstance(n.op, ast.And) else " || "
            return V(sym.join(v.p() for v in vs), "B")
        if isinstance(n, ast.Compare):
            if len(n.ops) != 1:
                raise self.err("chained comparison", n)
            op = n.ops[0]
            a = self.expr(n.left)
            b = self.expr(n.comparators[0])
            if isinstance(op, (ast.Is, ast.IsNot)):
                if b.ty == ("none",) and isinstance(a.ty, tuple) and a.ty[0] == "opt":
                    return V(f"{a.p()}.{'isNone' if isinstance(op, ast.Is) else 'isSome'}", "B")
                raise self.err("`is` is only supported as a test against None of an optional value", n)
            return self.lift(lambda x, y: self.compare(op, x, y, n), [a, b], n)
        if isinstance(n, ast.BinOp):
            return self.binop(n)
        if isinstance(n, ast.Attribute):
            return self.attribute(n)
        if isinstance(n, ast.Subscript):
            return self.subscript(n)
        if isinstance(n, ast.Call):
            return self.call(n)
        if isinstance(n, ast.ListComp):
            return self.listcomp(n)
        raise self.err(f"unsupported expression ({type(n).__name__})", n)

    def list_literal(self, n):
        if any(isinstance(e, ast.Starred) for e in n.elts):
            raise self.err("starred element in a tuple/list literal", n)
        items = [self.expr(e) for e in n.elts]
        if not items:
            raise self.err("empty tuple/list literal (element kind unknown)", n)
        if all(i.ty in RANK for i in items):
            k = "N"
            for i in items:
                k = self.join(V("", k), i, n)
            items = [self.cast(i, k, n) for i in items]
        k = items[0].ty
        if any(i.ty != k for i in items):
            raise self.err(f"tuple/list literal of mixed kinds {[i.ty for i in items]}", n)
        if isinstance(k, tuple) and k[0] in ("norm", "none", "mesh"):
            raise self.err(f"tuple/list literal of kind {k}", n)
        return V("[" + ", ".join(i.lean for i in items) + "]", ("list", k), atom=True, items=items)

    def binop(self, n):
        a = self.expr(n.left)
        b = self.expr(n.right)
        op = n.op
        if is_list(a.ty) or is_list(b.ty):
            if isinstance(op, ast.Add) and a.ty == b.ty:
                return V(f"{a.p()} ++ {b.p()}", a.ty)
            if isinstance(op, ast.Mult) and is_list(a.ty) and b.ty in ("N", "Z"):
                cnt = b.p() if b.ty == "N" else f"(Int.toNat {b.p()})"
                if a.items is not None and len(a.items) == 1:
                    return V(f"List.replicate {cnt} {a.items[0].p()}", a.ty)
                return V(f"List.flatten (List.replicate {cnt} {a.p()})", a.ty)
            raise self.err(f"list operation ({a.ty} {type(op).__name__} {b.ty}) outside the vocabulary", n)
        return self.lift(lambda x, y: self.arith(op, x, y, n), [a, b], n)

    def attribute(self, n):
        s = ast.unparse(n)
        if s == "jnp.pi":
            self.use("HasPi")
            return V("HasPi.pi", "K", atom=True)
        if n.attr == "shape" and isinstance(n.value, ast.Name) and (n.value.id + "_shape") in self.env:
            return self.env[n.value.id + "_shape"]
        raise self.err("attribute outside the vocabulary", n)

    def subscript(self, n):
        v = self.expr(n.value)
        s = ast.unparse(n.slice)
        if s == "::-1" and is_list(v.ty):
            return V(f"List.reverse {v.p()}", v.ty)
        if s in ("(jnp.newaxis, ...)", "(None, ...)") and v.ty in SCALAR_TY:
            # new singleton leading axis: the entry at a trailing index is unchanged
            return v
        raise self.err(f"indexing outside the vocabulary on a value of kind {v.ty}", n)

    def kwargs(self, n, allowed):
        kw = {}
        for k in n.keywords:
            if k.arg is None or k.arg not in allowed:
                raise self.err(f"unexpected keyword {k.arg}", n)
            kw[k.arg] = k.value
        return kw

    def static_eq(self, node, text):
        return node is not None and ast.unparse(node) == text

    def call(self, n):
        fn = ast.unparse(n.func)
        A = n.args
        if fn == "jnp.round":
            if len(A) != 1 or n.keywords:
                raise self.err("jnp.round with decimals", n)

            def rnd(x):
                if x.ty == "Q":
                    return V(f"jnp_round {x.p()}", "Z")
                if x.ty in ("N", "Z"):
                    return x
                raise self.err(f"jnp.round of kind {x.ty}", n)
            return self.lift(rnd, [self.expr(A[0])], n)
        if fn == "jnp.abs":
            if len(A) != 1 or n.keywords:
                raise self.err("jnp.abs arguments", n)

            def ab(x):
                if x.ty == "Z":
                    return V(f"((Int.natAbs {x.p()} : Nat) : Int)", "Z", atom=True)
                if x.ty == "N":
                    return x
                raise self.err(f"jnp.abs of kind {x.ty}", n)
            return self.lift(ab, [self.expr(A[0])], n)
        if fn in ("jnp.fft.rfftfreq", "jnp.fft.fftfreq"):
            if len(A) != 2 or n.keywords:
                raise self.err(f"{fn} must be called as (n, d)", n)
            m = self.expr(A[0])
            d = self.expr(A[1])
            if m.ty != "N" or d.ty not in ("N", "Z", "Q"):
                raise self.err(f"{fn}: n must be a static natural and d a static rational ({m.ty}, {d.ty})", n)
            lean_fn = {"jnp.fft.rfftfreq": "jnp_rfftfreq", "jnp.fft.fftfreq": "jnp_fftfreq"}[fn]
            return V(f"{lean_fn} {m.p()} {self.cast(d, 'Q').p()}", ("vec", "Q"))
        if fn == "jnp.where":
            if len(A) != 3 or n.keywords:
                raise self.err("jnp.where must have three positional arguments", n)

            def wh(c, x, y):
                if c.ty != "B":
                    raise self.err("jnp.where condition is not boolean", n)
                k = self.join(x, y, n)
                x, y = self.cast(x, k, n), self.cast(y, k, n)
                return V(f"if {c.lean} then {x.lean} else {y.lean}", k)
            return self.lift(wh, [self.expr(a) for a in A], n)
        if fn == "jnp.linspace":
            kw = self.kwargs(n, ("endpoint",))
            if len(A) != 3:
                raise self.err("jnp.linspace must be called as (start, stop, num, endpoint=…)", n)
            a, b, m = (self.expr(x) for x in A)
            e = self.expr(kw["endpoint"]) if "endpoint" in kw else V("true", "B", atom=True)
            if m.ty != "N" or e.ty != "B":
                raise self.err("jnp.linspace: num must be a static natural, endpoint a static bool", n)
            self.use("Add", "Sub", "Mul", "Div", "NatCast")
            return V(f"jnp_linspace {self.cast(a, 'K', n).p()} {self.cast(b, 'K', n).p()} {m.p()} {e.p()}",
                     ("vec", "K"))
        if fn == "jnp.meshgrid":
            kw = self.kwargs(n, ("indexing",))
            if len(A) != 1 or not isinstance(A[0], ast.Starred):
                raise self.err("jnp.meshgrid must be called as (*list, indexing=…)", n)
            lst = self.expr(A[0].value)
            ix = self.expr(kw["indexing"]) if "indexing" in kw else V('"xy"', "S", atom=True)
            if not (is_list(lst.ty) and is_vec(lst.ty[1])) or ix.ty != "S":
                raise self.err("jnp.meshgrid of something that is not a list of per-axis arrays", n)
            return V("<meshgrid>", ("mesh", lst.ty[1][1]), items=[lst, ix])
        if fn == "jnp.stack":
            if len(A) != 1 or n.keywords:
                raise self.err("jnp.stack with an axis", n)
            m = self.expr(A[0])
            if not (isinstance(m.ty, tuple) and m.ty[0] == "mesh"):
                raise self.err("jnp.stack of something that is not a jnp.meshgrid", n)
            lst, ix = m.items
            out = V(f"stack_meshgrid {lst.p()} {ix.p()} {self.idx()}", ("grid", m.ty[1]))
            out.shape = f"List.length {lst.p()} :: meshgrid_shape {lst.p()} {ix.p()}"
            return out
        if fn == "jnp.prod":
            kw = self.kwargs(n, ("axis", "keepdims"))
            if len(A) != 1 or not self.static_eq(kw.get("axis"), "0") or not self.static_eq(kw.get("keepdims"), "True"):
                raise self.err("jnp.prod must be (x, axis=0, keepdims=True)", n)
            g = self.expr(A[0])
            if not is_grid(g.ty) or g.ty[1] not in ("N", "Z", "Q", "K"):
                raise self.err("jnp.prod over axis 0 of something that is not a stacked grid array", n)
            if g.ty[1] == "K":
                self.use("Mul", "One")
            out = V(f"prod_axis0 {g.p()}", g.ty[1])
            sh = getattr(g, "shape", None)
            out.shape = f"1 :: List.tail ({sh})" if sh else None
            return out
        if fn == "jnp.linalg.norm":
            kw = self.kwargs(n, ("axis",))
            if len(A) != 1 or not self.static_eq(kw.get("axis"), "0"):
                raise self.err("jnp.linalg.norm must be (x, axis=0)", n)
            g = self.expr(A[0])
            if g.ty != ("grid", "Z"):
                raise self.err("jnp.linalg.norm of something that is not an integer stacked grid array", n)
            return V(g.lean, ("norm",), atom=g.atom)
        if fn == "jnp.ones":
            kw = self.kwargs(n, ("dtype",))
            if len(A) == 1 and self.static_eq(kw.get("dtype"), "bool") \
                    and ast.unparse(A[0]) == "(1, *wavenumber_shape(num_spatial_dims, num_points))":
                return V("true", "B", atom=True)
            raise self.err("jnp.ones outside the vocabulary", n)
        if fn == "jnp.pad":
            kw = self.kwargs(n, ("mode",))
            if len(A) != 2 or not self.static_eq(kw.get("mode"), "'wrap'") or not isinstance(A[0], ast.Name):
                raise self.err("jnp.pad must be (array, config, mode='wrap')", n)
            u = self.expr(A[0])
            cfg = self.expr(A[1])
            sh = self.env.get(A[0].id + "_shape")
            if not (isinstance(u.ty, tuple) and u.ty[0] == "arr") or cfg.ty != ("list", ("list", "N")) or sh is None:
                raise self.err("jnp.pad arguments outside the vocabulary", n)
            out = V(f"jnp_pad_wrap {sh.p()} {cfg.p()} {u.p()}", u.ty)
            out.shape = f"jnp_pad_shape {sh.p()} {cfg.p()}"
            return out
        if fn in ("tuple", "list") and len(A) == 1 and not n.keywords:
            v = self.expr(A[0])
            if is_list(v.ty):
                return v
            raise self.err(f"{fn}() of a value of kind {v.ty}", n)
        if fn == "range" and not n.keywords and len(A) in (1, 2):
            vs = [self.cast(self.expr(a), "Z", n) for a in A]
            if len(vs) == 1:
                vs = [V("(0 : Int)", "Z", atom=True)] + vs
            return V(f"py_range {vs[0].p()} {vs[1].p()}", ("list", "Z"))
        if fn == "len" and len(A) == 1 and not n.keywords:
            v = self.expr(A[0])
            if is_list(v.ty):
                return V(f"List.length {v.p()}", "N")
            raise self.err("len() of a non-list", n)
        if fn == "reversed" and len(A) == 1 and not n.keywords:
            v = self.expr(A[0])
            if is_list(v.ty):
                return V(f"List.reverse {v.p()}", v.ty)
            raise self.err("reversed() of a non-list", n)
        if fn == "product" and len(A) == 1 and isinstance(A[0], ast.Starred) and not n.keywords:
            v = self.expr(A[0].value)
            if is_list(v.ty) and is_list(v.ty[1]):
                return V(f"itertools_product {v.p()}", v.ty)
            raise self.err("product(*x) of something that is not a list of lists", n)
        if fn == "slice" and not n.keywords and len(A) in (1, 2):
            parts = [self.expr(a) for a in A]
            if len(parts) == 1:
                parts = [V("none", ("none",), atom=True)] + parts   # slice(stop)
            out = []
            for p in parts:
                if p.ty == ("none",):
                    out.append("(none : Option Int)")
                elif p.ty in ("N", "Z"):
                    out.append(f"some {self.cast(p, 'Z').p()}")
                else:
                    raise self.err("slice bound that is neither None nor a static integer", n)
            return V(f"({out[0]}, {out[1]})", ("slice",), atom=True)
        if fn in self.helpers:
            return self.helper_call(fn, n)
        raise self.err("call outside the vocabulary", n)

    def helper_call(self, fn, n):
        h = self.helpers[fn]
        argv = {}
        if len(n.args) > len(h.params):
            raise self.err("too many arguments", n)
        for i, a in enumerate(n.args):
            if isinstance(a, ast.Starred):
                raise self.err("starred argument", n)
            if h.params[i][3]:
                raise self.err(f"keyword-only parameter {h.params[i][0]} passed positionally", n)
            argv[h.params[i][0]] = self.expr(a)
        for kw in n.keywords:
            if kw.arg not in [p[0] for p in h.params] or kw.arg in argv:
                raise self.err(f"bad keyword {kw.arg}", n)
            argv[kw.arg] = self.expr(kw.value)
        parts = []
        for pn, kind, default, _ in h.params:
            if pn in argv:
                a = argv[pn]
            elif default is not None:
                a = self.expr(default)
            else:
                raise self.err(f"missing argument {pn}", n)
            if kind in RANK and a.ty in RANK and RANK[a.ty] <= RANK[kind]:
                a = self.cast(a, kind, n)
            if a.ty != kind:
                raise self.err(f"argument {pn} has kind {a.ty}, expected {kind}", n)
            parts.append(a.p())
        if h.usesK:
            self.use(*h.used)
        if h.partial:
            raise self.err(f"call of {fn}, which may raise", n)
        shape = f"{h.lean}_shape " + " ".join(parts) if h.has_shape else None
        if h.per_entry:
            parts.append(self.idx())
        out = V(f"{h.lean} " + " ".join(parts), h.ret)
        out.shape = shape
        return out

    def listcomp(self, n):
        if len(n.generators) != 1 or n.generators[0].ifs or n.generators[0].is_async \
                or not isinstance(n.generators[0].target, ast.Name):
            raise self.err("comprehension outside the vocabulary", n)
        g = n.generators[0]
        src = self.expr(g.iter)
        if not is_list(src.ty):
            raise self.err("comprehension over a non-list", n)
        name = g.target.id
        saved = dict(self.env)
        self.env[name] = V(name, src.ty[1], atom=True, items=None)
        body = self.expr(n.elt)
        self.env = saved
        if isinstance(body.ty, tuple) and body.ty[0] in ("norm", "none", "mesh"):
            raise self.err("comprehension element outside the vocabulary", n)
        return V(f"List.map (fun {name} => {body.lean}) {src.p()}", ("list", body.ty))

    # -- statements ------------------------------------------------------------------------
    def bind(self, name, v, node=None):
        if isinstance(v.ty, tuple) and v.ty[0] in ("norm", "none", "mesh"):
            raise self.err(f"cannot bind {name} to a value of kind {v.ty}", node)
        self.lines.append(f"let {name} : {lean_ty(v.ty)} := {v.lean}")
        nv = V(name, v.ty, atom=True)
        nv.shape = getattr(v, "shape", None)
        self.env[name] = nv

    def simple_stmt(self, s):
        """assignment-like statements; returns True if handled"""
        if isinstance(s, ast.Expr) and isinstance(s.value, ast.Constant) and isinstance(s.value.value, str):
            return True
        if isinstance(s, ast.Assign):
            if len(s.targets) != 1:
                raise self.err("multiple assignment targets", s)
            t = s.targets[0]
            v = self.expr(s.value)
            if isinstance(t, ast.Name):
                self.bind(t.id, v, s)
                return True
            if isinstance(t, ast.Tuple) and is_list(v.ty):
                stars = [i for i, e in enumerate(t.elts) if isinstance(e, ast.Starred)]
                if len(stars) != 1 or stars[0] != len(t.elts) - 1:
                    raise self.err("tuple target must be `a, …, *rest`", s)
                src = V(v.lean, v.ty, atom=v.atom)
                for i, e in enumerate(t.elts[:-1]):
                    if not isinstance(e, ast.Name):
                        raise self.err("nested target", s)
                    if e.id != "_":
                        if v.ty[1] != "N":
                            raise self.err("positional unpacking of a list of non-naturals", s)
                        self.bind(e.id, V(f"List.getD {src.p()} {i} 0", v.ty[1]), s)
                rest = t.elts[-1].value
                if not isinstance(rest, ast.Name):
                    raise self.err("nested starred target", s)
                self.bind(rest.id, V(f"List.drop {len(t.elts) - 1} {src.p()}", v.ty), s)
                return True
            raise self.err("assignment target outside the vocabulary", s)
        if isinstance(s, ast.AugAssign):
            if not isinstance(s.target, ast.Name):
                raise self.err("augmented assignment target", s)
            e = ast.BinOp(left=ast.Name(id=s.target.id, ctx=ast.Load()), op=s.op, right=s.value)
            ast.copy_location(e, s)
            ast.fix_missing_locations(e)
            self.bind(s.target.id, self.expr(e), s)
            return True
        return False

    @staticmethod
    def assigned(stmts):
        out = []
        for s in stmts:
            names = []
            if isinstance(s, ast.Assign):
                for t in s.targets:
                    for e in ast.walk(t):
                        if isinstance(e, ast.Name):
                            names.append(e.id)
            elif isinstance(s, ast.AugAssign) and isinstance(s.target, ast.Name):
                names.append(s.target.id)
            for x in names:
                if x not in out and x != "_":
                    out.append(x)
        return out

    def sub_block(self, stmts, results):
        """translate assignment-only statements in a nested scope; gives the let lines followed by the
        tuple of `results` (names), and the kinds of the results"""
        saved_lines, saved_env = self.lines, dict(self.env)
        self.lines = []
        try:
            for s in stmts:
                if self.simple_stmt(s):
                    continue
                if isinstance(s, ast.For):
                    self.for_loop(s)
                elif isinstance(s, ast.If) and not any(isinstance(x, (ast.Return, ast.Raise)) for x in ast.walk(s)):
                    self.branch_assign(s)
                else:
                    raise self.err("only assignments, for loops and assigning ifs are supported inside a "
                                   "branch / loop body", s)
            kinds = []
            for r in results:
                if r not in self.env:
                    raise self.err(f"{r} is not defined on every path")
                kinds.append(self.env[r])
            return self.lines, kinds
        finally:
            self.lines, self.env = saved_lines, saved_env

    def cond(self, t):
        v = self.expr(t)
        if v.ty != "B":
            raise self.err("condition is not a static boolean", t)
        return v

    def branch_assign(self, s):
        """`if c: <assignments> [else: <assignments>]` → one `let x' := if c then … else …` per variable
        (all computed from the values before the `if`), then `let x := x'`"""
        c = self.cond(s.test)
        a1, a2 = self.assigned(s.body), self.assigned(s.orelse)
        names = a1 + [x for x in a2 if x not in a1]
        if not names:
            raise self.err("`if` without effect", s)
        for x in names:
            if (x not in a1 or x not in a2) and x not in self.env:
                raise self.err(f"{x} is assigned on one path of `if {ast.unparse(s.test)}` only")
        news = []
        for x in names:
            tl, tk = self.sub_block(s.body, [x])
            el, ek = self.sub_block(s.orelse, [x])
            if tk[0].ty != ek[0].ty:
                raise self.err(f"{x} has kinds {tk[0].ty} / {ek[0].ty} on the two paths of `if {ast.unparse(s.test)}`")
            self.lines.append("\n".join([f"let {x}' : {lean_ty(tk[0].ty)} := if {c.lean} then ("]
                                        + indent(tl + [x + ")"], 4) + ["  else ("] + indent(el + [x + ")"], 4)))
            nv = V(x + "'", tk[0].ty, atom=True)
            s1, s2 = getattr(tk[0], "shape", None), getattr(ek[0], "shape", None)
            nv.shape = s1 if s1 == s2 else None
            news.append((x, nv))
        for x, nv in news:
            self.bind(x, nv, s)

    def for_loop(self, s):
        if s.orelse or not isinstance(s.target, ast.Name):
            raise self.err("for loop outside the vocabulary", s)
        it = self.expr(s.iter)
        if not (is_grid(it.ty) or is_list(it.ty)):
            raise self.err("for loop over something that is neither a list nor the leading axis of a stacked array", s)
        carried = [x for x in self.assigned(s.body) if x in self.env]
        if len(carried) != 1 or self.assigned(s.body) != carried:
            raise self.err("for loop must update exactly one previously defined variable", s)
        x = carried[0]
        v0 = self.env[x]
        saved = dict(self.env)
        self.env[s.target.id] = V(s.target.id, it.ty[1], atom=True)
        lines, kinds = self.sub_block(s.body, [x])
        self.env = saved
        if kinds[0].ty != v0.ty:
            raise self.err(f"loop variable {x} changes kind ({v0.ty} → {kinds[0].ty})", s)
        self.lines.append("\n".join([f"let {x} : {lean_ty(v0.ty)} := List.foldl (fun {x} {s.target.id} => ("]
                                    + indent(lines + [x + "))"], 4) + [f"  {v0.p()} {it.p()}"]))
        self.env[x] = V(x, v0.ty, atom=True)

    def ret(self, v, node):
        if isinstance(v.ty, tuple) and v.ty[0] in ("norm", "none", "mesh"):
            raise self.err(f"cannot return a value of kind {v.ty}", node)
        return v

    def block(self, stmts):
        """statement list ending in return / raise → (lines of a Lean term, V of the result or None for raise)"""
        saved = self.lines
        self.lines = []
        try:
            for i, s in enumerate(stmts):
                if self.simple_stmt(s):
                    continue
                if isinstance(s, ast.Return):
                    if s.value is None or i != len(stmts) - 1:
                        raise self.err("bare return / statements after return", s)
                    v = self.ret(self.expr(s.value), s)
                    return self.lines + [f"some ({v.lean})" if self.partial else v.lean], v
                if isinstance(s, ast.Raise):
                    if not self.partial or i != len(stmts) - 1:
                        raise self.err("raise outside a final else branch", s)
                    return self.lines + ["none"], None
                if isinstance(s, ast.For):
                    self.for_loop(s)
                    continue
                if isinstance(s, ast.If):
                    def ends(b):
                        return bool(b) and isinstance(b[-1], (ast.Return, ast.Raise)) or \
                            (len(b) == 1 and isinstance(b[0], ast.If) and ends(b[0].body) and ends(b[0].orelse))
                    if ends(s.body):
                        rest = s.orelse if s.orelse else stmts[i + 1:]
                        if s.orelse and i != len(stmts) - 1:
                            raise self.err("statements after a returning if/else", s)
                        c = self.cond(s.test)
                        env0 = dict(self.env)
                        tl, tv = self.block(s.body)
                        self.env = dict(env0)
                        el, ev = self.block(rest)
                        self.env = env0
                        if tv is not None and ev is not None and tv.ty != ev.ty:
                            raise self.err(f"branches return different kinds ({tv.ty} / {ev.ty})", s)
                        rv = tv if tv is not None else ev
                        if rv is None:
                            raise self.err("both branches raise", s)
                        if tv is not None and ev is not None and getattr(tv, "shape", None) != getattr(ev, "shape", None):
                            rv = V(rv.lean, rv.ty)
                        return self.lines + ["\n".join([f"if {c.lean} then"] + indent(tl, 2) + ["else"] + indent(el, 2))], rv
                    if ends(s.orelse):
                        raise self.err("only the else branch returns", s)
                    self.branch_assign(s)
                    continue
                raise self.err(f"unsupported statement {type(s).__name__}", s)
            raise self.err("block does not end in return")
        finally:
            self.lines = saved


# ----------------------------------------------------------------------------
# signatures
# ----------------------------------------------------------------------------
def ann_kind(owner, name, ann, overrides):
    if (owner, name) in overrides:
        return overrides[(owner, name)]
    if ann is None:
        raise TranslateError(f"{owner}: parameter {name} has no annotation")
    s = ast.unparse(ann)
    if s == "int":
        return "N"
    if s == "float":
        return "K"
    if s == "bool":
        return "B"
    if s == "str":
        return "S"
    if isinstance(ann, ast.Subscript) and ast.unparse(ann.value) == "Literal":
        elts = ann.slice.elts if isinstance(ann.slice, ast.Tuple) else [ann.slice]
        vals = [e.value for e in elts if isinstance(e, ast.Constant)]
        if len(vals) == len(elts) and all(isinstance(v, int) and not isinstance(v, bool) and v >= 0 for v in vals):
            return "N"
        if len(vals) == len(elts) and all(isinstance(v, str) for v in vals):
            return "S"
    raise TranslateError(f"{owner}: annotation `{s}` of parameter {name} is outside the vocabulary")


def signature(fn, overrides):
    if fn.args.vararg or fn.args.kwarg or fn.args.posonlyargs or fn.decorator_list:
        raise TranslateError(f"{fn.name}: unsupported signature")
    pos = list(fn.args.args)
    pd = [None] * (len(pos) - len(fn.args.defaults)) + list(fn.args.defaults)
    plist = [(a.arg, ann_kind(fn.name, a.arg, a.annotation, overrides), d, False) for a, d in zip(pos, pd)]
    plist += [(a.arg, ann_kind(fn.name, a.arg, a.annotation, overrides), d, True)
              for a, d in zip(fn.args.kwonlyargs, fn.args.kw_defaults)]
    for pn, k, d, _ in plist:
        if d is not None and not isinstance(d, ast.Constant):
            raise TranslateError(f"{fn.name}: default of {pn} is not a literal")
    return plist


def contains_raise(fn):
    return any(isinstance(x, ast.Raise) for x in ast.walk(fn))


def inst_binders(used):
    return " ".join(f"[{c} K]" for c in T.CLASS_ORDER if c in used)


def emit(name, binders, tr, lines, ret_ty, comments, force_idx=None):
    kb = ("{K : Type} " + inst_binders(tr.used) + " ") if tr.usesK else ""
    per_entry = tr.per_entry if force_idx is None else force_idx
    idxb = f" ({IDX} : List Nat)" if per_entry else ""
    head = " ".join(f"def {name} {kb}{binders}{idxb} : {ret_ty} :=".split())
    return "".join(f"-- {c}\n" for c in comments) + head + "\n" + "\n".join(indent(lines, 2)) + "\n"


def translate_function(fn, src, relpath, helpers, overrides, out_hashes, extra_params=(), lean_name=None):
    """one python function → text of its Lean definition(s); registers it in `helpers`"""
    out_hashes[f"{relpath}::{fn.name}"] = T.src_hash(fn, src)
    plist = signature(fn, overrides)
    tr = LT(fn.name, helpers)
    tr.partial = contains_raise(fn)
    binders = []
    for pn, k, d, _ in plist:
        tr.env[pn] = V(pn, k, atom=True)
        if uses_K(k):
            tr.usesK = True
        binders.append(f"({pn} : {lean_ty(k)})")
        for xn, xk in extra_params:
            if xn == pn + "_shape":
                tr.env[xn] = V(xn, xk, atom=True)
                binders.append(f"({xn} : {lean_ty(xk)})")
    lines, rv = tr.block(fn.body)
    if rv is None:
        raise TranslateError(f"{fn.name}: every path raises")
    lname = lean_name or fn.name
    rt = lean_ty(rv.ty)
    if tr.partial:
        rt = f"Option {lean_ty(rv.ty, True)}"
    comments = [f"{fn.name}  (exponax/{relpath})"
                + (", one entry: `idx` is the index into the trailing (grid) axes" if tr.per_entry else "")]
    dfl = ", ".join(f"{pn}={ast.unparse(d)}" for pn, _, d, _ in plist if d is not None)
    if dfl:
        comments.append("defaults: " + dfl)
    if tr.partial:
        comments.append("`none`: the implementation raises")
    text = emit(lname, " ".join(binders), tr, lines, rt, comments)
    shape = getattr(rv, "shape", None)
    if shape is not None and not tr.partial:
        # the shape companion shares the let-chain; the trailing index does not occur in shapes
        sl, dropped = [], {IDX}
        for l in lines[:-1]:
            m = _LET.match(l)
            if m is None or (toks(l.split(":=", 1)[1]) & dropped):
                if m is None:
                    sl = None
                    break
                dropped.add(m.group(1))
            else:
                dropped.discard(m.group(1))
                sl.append(l)
        if sl is not None and (toks(shape) & dropped):
            sl = None
        if sl is not None:
            text += "\n" + emit(lname + "_shape", " ".join(binders), tr, sl + [shape], "List Nat",
                                [f"shape of the array {fn.name} returns"], force_idx=False)
        else:
            shape = None
    helpers[fn.name] = Helper(lname, plist, rv.ty, tr.per_entry, set(tr.used), tr.usesK,
                              shape is not None and not tr.partial, tr.partial)
    return text


# ----------------------------------------------------------------------------
# the prelude: per-entry semantics of the library primitives
# ----------------------------------------------------------------------------
PRELUDE = r'''/-! ## semantics of the library primitives (numpy / jax.numpy / itertools), per entry -/

/-- a 1-D array: its length and its entry function -/
structure Vec (T : Type) where
  len : Nat
  get : Nat → T

/-- `jnp.fft.rfftfreq(n, d)`: `arange(0, n//2+1) / (d*n)` -/
def jnp_rfftfreq (n : Nat) (d : Rat) : Vec Rat :=
  ⟨n / 2 + 1, fun i => ((i : Nat) : Rat) / (d * ((n : Nat) : Rat))⟩

/-- `jnp.fft.fftfreq(n, d)`: entries `0 … (n-1)//2`, then `-(n//2) … -1`, all divided by `d*n` -/
def jnp_fftfreq (n : Nat) (d : Rat) : Vec Rat :=
  ⟨n, fun i =>
    let n1 : Nat := (n - 1) / 2 + 1
    let k : Int := if i < n1 then (i : Int) else -((n / 2 : Nat) : Int) + ((i : Int) - (n1 : Int))
    (k : Rat) / (d * ((n : Nat) : Rat))⟩

/-- `jnp.round` (round half to even) of an exact rational -/
def jnp_round (q : Rat) : Int :=
  let f := q.floor
  let r := q - (f : Rat)
  if r < (1 : Rat) / 2 then f else if (1 : Rat) / 2 < r then f + 1 else if f % 2 = 0 then f else f + 1

/-- `jnp.linspace(start, stop, num, endpoint)`: `start + j * ((stop - start) / div)`,
    `div = num - 1` with the end point, `num` without -/
def jnp_linspace {K : Type} [Add K] [Sub K] [Mul K] [Div K] [NatCast K]
    (start stop : K) (num : Nat) (endpoint : Bool) : Vec K :=
  ⟨num, fun j => start + lit j * ((stop - start) / lit (if endpoint then num - 1 else num))⟩

/-- the input array that varies along output axis `a` of `meshgrid` (`"xy"` swaps the first two axes
    when there are at least two inputs; every other string is treated like `"ij"`, for which numpy raises
    unless it is `"ij"`) -/
def meshgrid_axis (n : Nat) (indexing : String) (a : Nat) : Nat :=
  if indexing == "xy" && decide (2 ≤ n) then (if a == 0 then 1 else if a == 1 then 0 else a) else a

/-- `jnp.stack(jnp.meshgrid(*xs, indexing=indexing))[:, idx]`: one entry per input array -/
def stack_meshgrid {T : Type} (xs : List (Vec T)) (indexing : String) (idx : List Nat) : List T :=
  xs.mapIdx (fun d x => x.get (idx.getD (meshgrid_axis xs.length indexing d) 0))

/-- shape of each array of `jnp.meshgrid(*xs, indexing=indexing)` -/
def meshgrid_shape {T : Type} (xs : List (Vec T)) (indexing : String) : List Nat :=
  (List.range xs.length).map (fun a => (xs.map Vec.len).getD (meshgrid_axis xs.length indexing a) 0)

/-- `jnp.prod(x, axis=0)` at one trailing index -/
def prod_axis0 {T : Type} [Mul T] [One T] (l : List T) : T := l.foldl (· * ·) 1

/-- exact decision of `jnp.linalg.norm(k, axis=0) <= c`, i.e. `sqrt(Σ kᵢ²) ≤ c`, for integer `kᵢ`
    and rational `c` (validated against `Real.sqrt` in `Proofs/SpectralLayoutEq.lean`) -/
def l2norm_le (ks : List Int) (c : Rat) : Bool :=
  decide (0 ≤ c) && decide ((((ks.map (fun k => k * k)).foldl (· + ·) 0 : Int) : Rat) ≤ c * c)

/-- Python `range(start, stop)` -/
def py_range (start stop : Int) : List Int :=
  (List.range (stop - start).toNat).map (fun (i : Nat) => start + (i : Int))

/-- `itertools.product(*xs)`: lexicographic, right-most factor fastest -/
def itertools_product {T : Type} : List (List T) → List (List T)
  | [] => [[]]
  | x :: xs => x.flatMap (fun a => (itertools_product xs).map (fun p => a :: p))

/-- source index of `jnp.pad(·, mode="wrap")` along an axis of length `n` padded by `before` in front -/
def wrap_index (n before i : Nat) : Nat := Int.toNat (Int.emod ((i : Int) - (before : Int)) (n : Int))

/-- `jnp.pad(u, cfg, mode="wrap")[idx]`, `u` of the given shape, `cfg = ((before, after), …)`;
    here `idx` is the FULL index (all axes of `u`) -/
def jnp_pad_wrap {T : Type} (shape : List Nat) (cfg : List (List Nat)) (u : List Nat → T) (idx : List Nat) : T :=
  u (idx.mapIdx (fun a i => wrap_index (shape.getD a 0) ((cfg.getD a []).getD 0 0) i))

/-- shape of `jnp.pad(u, cfg)` -/
def jnp_pad_shape (shape : List Nat) (cfg : List (List Nat)) : List Nat :=
  shape.mapIdx (fun a n => (cfg.getD a []).getD 0 0 + n + (cfg.getD a []).getD 1 0)

'''

HEADER = """/- GENERATED by harness/translate_layout.py from {src} — do not edit.
   source span hashes: see Generated/hashes_{ns}.json -/
import ExponaxModel.Model.Ops
import ExponaxModel.Generated.Misc
set_option linter.unusedVariables false
namespace Exponax.Gen.{ns}

"""

# ----------------------------------------------------------------------------
# targets
# ----------------------------------------------------------------------------
# functions of exponax/_spectral.py that are translated here, in dependency order; every other
# top-level function of the file is listed in `untranslated_functions` (pinned by a `rfl` theorem)
SPECTRAL = [
    "build_wavenumbers", "build_scaled_wavenumbers", "build_derivative_operator",
    "space_indices", "spatial_shape", "wavenumber_shape",
    "low_pass_filter_mask", "oddball_filter_mask",
    "_build_scaling_array", "build_scaling_array", "get_modes_slices",
]
UTILS = ["make_grid", "wrap_bc"]

OVERRIDES = {
    # annotated `int`, but `BaseNonlinearFun` passes the (float) dealiasing cut-off: an exact rational
    ("low_pass_filter_mask", "cutoff"): "Q",
    # the array argument of wrap_bc: its entry function (its shape is the extra parameter `u_shape`)
    ("wrap_bc", "u"): ("arr", "K"),
}


def top_functions(tree):
    return [n for n in tree.body if isinstance(n, ast.FunctionDef)]


def translate_layout(out_hashes):
    texts = []
    helpers = {}
    qs = lambda xs: "[" + ", ".join('"' + x + '"' for x in xs) + "]"

    # ---- exponax/_spectral.py --------------------------------------------------------------
    path = os.path.join(T.REPO, "exponax/_spectral.py")
    src = open(path).read()
    tree = ast.parse(src)
    fns = {f.name: f for f in top_functions(tree)}
    if len(fns) != len(top_functions(tree)):
        raise TranslateError("_spectral.py: a function is defined twice")
    for name in SPECTRAL:
        if name not in fns:
            raise TranslateError(f"_spectral.py: function {name} not found")
        texts.append(translate_function(fns[name], src, "_spectral.py", helpers, OVERRIDES, out_hashes))
    spectral_rest = sorted(n for n in fns if n not in SPECTRAL)

    # ---- exponax/_utils.py --------------------------------------------------------------------
    path = os.path.join(T.REPO, "exponax/_utils.py")
    usrc = open(path).read()
    utree = ast.parse(usrc)
    ufns = {f.name: f for f in top_functions(utree)}
    for name in UTILS:
        if name not in ufns:
            raise TranslateError(f"_utils.py: function {name} not found")
        extra = [("u_shape", ("list", "N"))] if name == "wrap_bc" else []
        texts.append(translate_function(ufns[name], usrc, "_utils.py", helpers, OVERRIDES, out_hashes,
                                        extra_params=extra))
    utils_rest = sorted(n for n in ufns if n not in UTILS)

    # ---- the dealiasing mask of BaseNonlinearFun.__init__ ------------------------------------------
    path = os.path.join(T.REPO, "exponax/nonlin_fun/_base.py")
    bsrc = open(path).read()
    btree = ast.parse(bsrc)
    init = T.find_func(T.find_class(btree, "BaseNonlinearFun").body, "__init__")
    out_hashes["nonlin_fun/_base.py::BaseNonlinearFun.__init__"] = T.src_hash(init, bsrc)
    ifs = [s for s in init.body if isinstance(s, ast.If)]
    if len(ifs) != 1 or ast.unparse(ifs[0].test) != "dealiasing_fraction is None" \
            or [ast.unparse(s) for s in ifs[0].body] != ["self.dealiasing_mask = None"]:
        raise TranslateError("BaseNonlinearFun.__init__: unexpected structure of the dealiasing branch")
    mask_assigns = [s for s in ast.walk(init) if isinstance(s, ast.Assign)
                    and ast.unparse(s.targets[0]) == "self.dealiasing_mask"]
    if len(mask_assigns) != 2:
        raise TranslateError("BaseNonlinearFun.__init__: dealiasing_mask must be assigned exactly twice")
    imports = [ast.unparse(s) for s in btree.body if isinstance(s, ast.ImportFrom)]
    if not any(s.startswith("from .._spectral import") and "low_pass_filter_mask" in s for s in imports):
        raise TranslateError("nonlin_fun/_base.py: low_pass_filter_mask is not imported from .._spectral")
    tr = LT("BaseNonlinearFun.__init__", helpers)
    for pn, k in (("num_spatial_dims", "N"), ("num_points", "N"), ("dealiasing_fraction", "Q")):
        tr.env[pn] = V(pn, k, atom=True)
    call = None
    others = []
    for s in ifs[0].orelse:
        if isinstance(s, ast.Assign) and ast.unparse(s.targets[0]) == "self.dealiasing_mask":
            call = s.value
        else:
            others.append(s)
    if not (isinstance(call, ast.Call) and ast.unparse(call.func) == "low_pass_filter_mask"):
        raise TranslateError("BaseNonlinearFun.__init__: the dealiasing mask is not a low_pass_filter_mask call")
    kws = {k.arg: k.value for k in call.keywords}
    if "cutoff" not in kws:
        raise TranslateError("BaseNonlinearFun.__init__: low_pass_filter_mask is called without cutoff=")
    # the cut-off arithmetic (the statements before the call and the `cutoff=` expression) is the
    # definition `Exponax.Gen.Misc.dealias_cutoff`, regenerated by translate.py from the same span;
    # here it is re-translated only to check that it stays inside the vocabulary and is rational
    chk = LT("BaseNonlinearFun.__init__", helpers)
    chk.env = dict(tr.env)
    for s in others:
        if not chk.simple_stmt(s):
            raise TranslateError(f"BaseNonlinearFun.__init__: unsupported statement {ast.unparse(s)[:60]}")
    cv = chk.expr(kws["cutoff"])
    if cv.ty != "Q":
        raise TranslateError(f"BaseNonlinearFun.__init__: the dealiasing cut-off has kind {cv.ty}, expected a rational")
    own_cutoff = chk.lines + [cv.lean]

    cut = V("Exponax.Gen.Misc.dealias_cutoff (K := Rat) num_points dealiasing_fraction", "Q")
    # the call itself, with `cutoff=` bound to that definition (positional arguments, further keywords and
    # the defaults of low_pass_filter_mask are translated as usual)
    call2 = ast.Call(func=call.func, args=call.args,
                     keywords=[ast.keyword(arg=k.arg, value=(ast.Name(id="cutoff__misc", ctx=ast.Load())
                                                              if k.arg == "cutoff" else k.value))
                               for k in call.keywords])
    ast.fix_missing_locations(call2)
    tr.env["cutoff__misc"] = cut
    mv = tr.expr(call2)
    if mv.ty != "B" or not tr.per_entry:
        raise TranslateError("BaseNonlinearFun.__init__: the dealiasing mask is not a boolean array")
    ctr = LT("dealias_cutoff", helpers)
    texts.append(emit("dealias_cutoff_layout", "(num_points : Nat) (dealiasing_fraction : Rat)", ctr,
                      own_cutoff, "Rat",
                      ["the `cutoff=` argument of the dealiasing mask (exponax/nonlin_fun/_base.py, "
                       "BaseNonlinearFun.__init__, else branch), in exact rational arithmetic;",
                       "`Proofs/SpectralLayoutEq.lean` proves it equal to `Exponax.Gen.Misc.dealias_cutoff (K := Rat)`"]))
    texts.append(emit("dealiasing_mask",
                      "(num_spatial_dims : Nat) (num_points : Nat) (dealiasing_fraction : Option Rat)", tr,
                      ["match dealiasing_fraction with",
                       "| none => none",
                       f"| some dealiasing_fraction => some ({mv.lean})"],
                      "Option Bool",
                      ["BaseNonlinearFun.__init__  (exponax/nonlin_fun/_base.py): self.dealiasing_mask, one entry",
                       "`none`: no mask (dealiasing_fraction is None)"]))

    generated = [h.lean for h in helpers.values()] + ["dealias_cutoff_layout", "dealiasing_mask"]
    tail = ("/-- the translated functions; `Proofs/SpectralLayoutEq.lean` pins this list -/\n"
            f"def generated_functions : List String :=\n  {qs(generated)}\n\n"
            "/-- the definitions that have a `_shape` companion -/\n"
            f"def generated_shapes : List String :=\n  {qs([h.lean for h in helpers.values() if h.has_shape])}\n\n"
            "/-- the other top-level functions of exponax/_spectral.py (not layout helpers; pinned as well, so a\n"
            "    new function shows up as a broken `rfl`) -/\n"
            f"def untranslated_spectral_functions : List String :=\n  {qs(spectral_rest)}\n\n"
            "/-- the other top-level functions of exponax/_utils.py -/\n"
            f"def untranslated_utils_functions : List String :=\n  {qs(utils_rest)}\n")
    return (HEADER.format(src="exponax/_spectral.py, exponax/_utils.py, exponax/nonlin_fun/_base.py", ns=NAME)
            + PRELUDE + "/-! ## translated functions -/\n\n" + "\n".join(texts) + "\n" + tail
            + f"\nend Exponax.Gen.{NAME}\n")


TARGETS = {
    NAME: translate_layout,
}


def run(targets=None):
    os.makedirs(T.GEN_DIR, exist_ok=True)
    res = {}
    for name, fn in TARGETS.items():
        if targets and name not in targets:
            continue
        hashes = {}
        try:
            text = fn(hashes)
            changed = T.write_if_changed(os.path.join(T.GEN_DIR, name + ".lean"), text)
            T.write_if_changed(os.path.join(T.GEN_DIR, f"hashes_{name}.json"),
                               json.dumps(hashes, indent=1, sort_keys=True) + "\n")
            res[name] = {"ok": True, "error": None, "changed": changed}
        except (TranslateError, SyntaxError, FileNotFoundError) as e:  # broken obligation
            res[name] = {"ok": False, "error": f"{type(e).__name__}: {e}", "changed": False}
    return res


if __name__ == "__main__":
    r = run(sys.argv[1:] or None)
    print(json.dumps(r, indent=1))
    sys.exit(0 if all(v["ok"] for v in r.values()) else 3)
