#!/usr/bin/env python3
"""
Evaluate a seeded change (seeded/<id>/{patch.diff,demo.py,meta.json}).

  seeded_eval.py confirm <id>   scratch worktree: patch applies, baseline suite still green, demo FAILs with the
                                patch and PASSes without; writes seeded/<id>/confirm.json and removes the worktree
  seeded_eval.py detect <id> [Cxx ...]
                                applies the patch to /repo, runs the quick checks of the given properties (default:
                                the property named in meta.json), reverts /repo (git checkout -- .), writes
                                seeded/<id>/detect.json
"""
import json
import os
import re
import subprocess
import sys
import time

VERIF = os.path.dirname(os.path.dirname(os.path.abspath(__file__)))
PY = "/venv/bin/python"
KNOWN_FAIL = "tests/test_nonlinear_funs.py::TestGradientNormAdditional::test_2d"


def sh(cmd, cwd=None, env=None, timeout=3600):
    p = subprocess.run(cmd, shell=True, cwd=cwd, env=env, capture_output=True, text=True, timeout=timeout)
    return p.returncode, p.stdout + p.stderr


def confirm(sid):
    d = os.path.join(VERIF, "seeded", sid)
    wt = f"/tmp/seedwt_{sid}"
    sh(f"git -C /repo worktree remove --force {wt}")
    rc, out = sh(f"git -C /repo worktree add -q {wt} HEAD")
    res = {"id": sid, "time": time.strftime("%Y-%m-%d %H:%M:%S")}
    try:
        # the scratch worktree is a pristine checkout of HEAD: run the demonstration there first (must PASS) …
        env = dict(os.environ, PYTHONPATH=wt, JAX_PLATFORMS="cpu")
        rc2, o2 = sh(f"{PY} {d}/demo.py", cwd="/tmp", env=env, timeout=1800)
        res["demo_without_patch"] = {"rc": rc2, "tail": o2.strip().splitlines()[-3:]}
        rc, out = sh(f"git apply {d}/patch.diff", cwd=wt)
        res["applies"] = rc == 0
        if rc != 0:
            res["apply_error"] = out[-500:]
            return res
        rc, out = sh(f"{PY} -m pytest -q -p no:cacheprovider --timeout=900 -rf 2>&1 | tail -25", cwd=wt, timeout=5400)
        res["suite_tail"] = out.strip().splitlines()[-3:]
        m = re.search(r"(\d+) failed", out)
        failed = int(m.group(1)) if m else 0
        mp = re.search(r"(\d+) passed", out)
        res["passed"] = int(mp.group(1)) if mp else 0
        res["failed"] = failed
        res["suite_green"] = (failed == 0) or (failed == 1 and "TestGradientNormAdditional::test_2d" in out)
        # … then with the change applied (must FAIL)
        rc1, o1 = sh(f"{PY} {d}/demo.py", cwd="/tmp", env=env, timeout=1800)
        res["demo_with_patch"] = {"rc": rc1, "tail": o1.strip().splitlines()[-3:]}
        res["confirmed"] = bool(res["suite_green"] and rc1 != 0 and rc2 == 0)
    finally:
        sh(f"git -C /repo worktree remove --force {wt}")
        json.dump(res, open(os.path.join(d, "confirm.json"), "w"), indent=1)
    return res


def detect(sid, props):
    d = os.path.join(VERIF, "seeded", sid)
    meta = json.load(open(os.path.join(d, "meta.json")))
    if not props:
        props = [meta["property"]]
    rc, out = sh("git -C /repo status --porcelain")
    if out.strip():
        print("refusing: /repo has local changes:", out)
        sys.exit(2)
    res = {"id": sid, "checks": {}}
    rc, out = sh(f"git -C /repo apply {d}/patch.diff")
    if rc != 0:
        res["apply_error"] = out[-400:]
        json.dump(res, open(os.path.join(d, "detect.json"), "w"), indent=1)
        return res
    try:
        for p in props:
            t = time.time()
            rc, out = sh(f"{PY} harness/run_check.py {p} --tier quick", cwd=VERIF, timeout=3600)
            viol = [l for l in out.splitlines() if l.startswith("VIOLATION")]
            summ = [l for l in out.splitlines() if l.startswith(f"[{p}]")]
            res["checks"][p] = {"exit": rc, "violations": viol[:6], "summary": summ[-1] if summ else "", "wall_s": round(time.time() - t, 1)}
            print(p, "exit", rc, viol[:2], flush=True)
    finally:
        sh("git -C /repo checkout -- .")
        sh("python3 harness/translate.py", cwd=VERIF)   # the regenerated Lean files follow the restored source again
        rc, out = sh("git -C /repo status --porcelain")
        res["repo_clean_after"] = not out.strip()
        # evidence/replays written during a seeded run do not describe the unchanged tree
        sh("git checkout -- evidence", cwd=VERIF)
    res["detected_by"] = [p for p, r in res["checks"].items() if r["exit"] == 1 and r["violations"]]
    json.dump(res, open(os.path.join(d, "detect.json"), "w"), indent=1)
    return res


def pdetect(sid, props):
    """detection without touching /repo or /verif (so that several can run side by side): a scratch worktree of /repo
    with the patch applied, a scratch copy of /verif (lake build output included), the registered quick command run in
    the copy with EXPONAX_REPO / PYTHONPATH pointing at the worktree.  Both are removed afterwards."""
    d = os.path.join(VERIF, "seeded", sid)
    meta = json.load(open(os.path.join(d, "meta.json")))
    if not props:
        props = [meta["property"]]
    wt, vc = f"/tmp/dwt_{sid}", f"/tmp/vcopy_{sid}"
    sh(f"git -C /repo worktree remove --force {wt}; rm -rf {vc}")
    res = {"id": sid, "checks": {}, "method": "scratch worktree + scratch copy of /verif (EXPONAX_REPO, PYTHONPATH)"}
    try:
        rc, out = sh(f"git -C /repo worktree add -q {wt} HEAD && git -C {wt} apply {d}/patch.diff")
        if rc != 0:
            res["apply_error"] = out[-400:]
            return res
        sh(f"rsync -a --exclude .git --exclude seeded --exclude replays --exclude .work {VERIF}/ {vc}/")
        env = dict(os.environ, EXPONAX_REPO=wt, PYTHONPATH=wt, JAX_PLATFORMS="cpu")
        for p in props:
            t = time.time()
            rc, out = sh(f"{PY} harness/run_check.py {p} --tier quick", cwd=vc, env=env, timeout=3600)
            viol = [l for l in out.splitlines() if l.startswith("VIOLATION")]
            summ = [l for l in out.splitlines() if l.startswith(f"[{p}]")]
            whats = []
            for l in viol[:6]:
                m = re.search(r"replay=(\S+)", l)
                if m and os.path.exists(os.path.join(vc, m.group(1))):
                    pay = json.load(open(os.path.join(vc, m.group(1))))
                    whats.append({"kind": pay.get("kind"), "key": pay.get("key"), "history": pay.get("history"),
                                  "what": str(pay.get("what"))[:300], "broken": len(pay.get("broken_obligations", pay.get("no_longer_checks", [])))})
            res["checks"][p] = {"exit": rc, "violations": viol[:6], "replays": whats, "summary": summ[-1] if summ else out[-300:],
                                "wall_s": round(time.time() - t, 1)}
            print(sid, p, "exit", rc, viol[:2], flush=True)
    finally:
        sh(f"git -C /repo worktree remove --force {wt}; rm -rf {vc}")
        res["detected_by"] = [p for p, r in res["checks"].items() if r["exit"] == 1 and r["violations"]]
        res["with_failing_input"] = [p for p, r in res["checks"].items()
                                     if any(w.get("kind") == "failing-input" for w in r.get("replays", []))]
        json.dump(res, open(os.path.join(d, "detect.json"), "w"), indent=1)
    return res


if __name__ == "__main__":
    mode, sid = sys.argv[1], sys.argv[2]
    r = confirm(sid) if mode == "confirm" else (pdetect(sid, sys.argv[3:]) if mode == "pdetect" else detect(sid, sys.argv[3:]))
    print(json.dumps(r, indent=1)[:3000])
