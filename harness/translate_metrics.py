#!/usr/bin/env python3
"""
Translator (array level): regenerates

    lean/ExponaxModel/Generated/GenPrelude.lean   (static: interpretation of jnp / jax.lax / _spectral externals)
    lean/ExponaxModel/Generated/MetricsGen.lean   exponax/metrics/{_spatial,_fourier,_derivative,_correlation}.py
    lean/ExponaxModel/Generated/ICGen.lean        exponax/ic/{_base_ic,_clamping,_scaled,_truncated_fourier_series}.py
    lean/ExponaxModel/Generated/LoopsGen.lean     exponax/_utils.py (rollout, repeat, stack_sub_trajectories),
                                                  exponax/_repeated_stepper.py

from the *current* Python source (module `ast`, the package is never imported).  It reuses the helpers of
`translate.py` (`import translate as T`) and follows its conventions: one Lean definition per Python function,
polymorphic over the operation-only classes of `Model/Ops.lean`, Mathlib-free, `TranslateError` for anything
outside the vocabulary (a broken proof obligation — never an approximation).

Representation
  array without channel axis (`Float[Array, "... N"]`, `"1 ... N"`)  ↦ `Array K`, flat in C order; the shape
        `(N,)*D` is carried by two leading parameters `(D N : Nat)` of the definition
  array with channel axis (`"C ... N"`)                                ↦ `List (Array K)`
  per-channel values (result of `jax.vmap`)                            ↦ `List K`
  `X | None`                                                           ↦ `Option X`
  `Literal[...]` strings                                               ↦ `String`
  a Python function that can `raise`                                   ↦ result type `Option _` (`none` = raised)

Vocabulary (everything else raises TranslateError)
  elementwise + - * / ** abs < & invert where zeros_like on arrays     ↦ `tab size (fun j => …)` (per index);
        a boolean entry `b` as a number is `bif b then 1 else 0`, `jnp.where(c, x, y)` is `bif c then x else y`
  broadcasting array ∘ scalar, array ∘ list of arrays, list ∘ list      ↦ `List.map` / `List.zipWith`
  `x ** n` (static int n) ↦ `npow`;  real `x ** y` ↦ `HasRpow.rpow`;  complex `z ** y` ↦ `HasCpow.cpow`
  `jnp.sum` over an array ↦ `sumRange`;  over per-channel values ↦ `sumList`
  `jnp.mean/std/max/min/linalg.norm/dot` ↦ `jnp_*` of GenPrelude;  `jax.vmap(f)(xs…)` ↦ `List.map/zipWith`
  `fft/ifft/low_pass_filter_mask/build_derivative_operator/build_scaling_array` ↦ `ext_*` of GenPrelude
  `x.flatten().at[0].set(v).reshape(x.shape)` ↦ `Array.setIfInBounds`
  `if x is None: …`, `if x is not None: … else: …` ↦ `match`;  `if c: … elif …: … else: …` ↦ if-then-else on the
  names that are used afterwards;  `if c: raise …` ↦ `if c then none else …`;  an `Option` value used as an
  array ↦ `.bind` (Python raises there too)
  jax.lax.scan / jtu.tree_map(lambda …) / jnp.repeat / expand_dims / concatenate / dynamic_slice_in_dim / arange
  on the leading (time) axis of an abstract pytree ↦ `lax_scan`, `List.replicate`, `::`, `++`, … (LoopsGen)
"""
from __future__ import annotations

import ast
import hashlib
import json
import os
import sys

sys.path.insert(0, os.path.dirname(os.path.abspath(__file__)))
import translate as T  # noqa: E402

V = T.V
TranslateError = T.TranslateError

BASE = ["Add", "Sub", "Mul", "Div", "Neg", "Zero", "One", "NatCast", "IntCast"]
CLASS_ORDER = T.CLASS_ORDER + ["HasRpow", "HasCpow", "HasLtB", "HasIsZero"]


def inst_binders(used):
    return " ".join(f"[{c} K]" for c in CLASS_ORDER if c in used)


# ----------------------------------------------------------------------------
# values
# ----------------------------------------------------------------------------
class MV(V):
    """translated value.  Additional kinds (`ty`):
       "S" string, "NONE" the literal None, ("O", k) optional, ("A", "K"|"B") flat array, ("C", k) list over the
       leading (channel / derivative / time) axis, "G" abstract state (pytree), "LAM" lambda, "SHAPE" x.shape,
       "KEY" PRNG key, "U" unit"""

    def __init__(self, lean, ty, atom=False, items=None, size=None, at=None, meta=None, cx=False,
                 fallible=False, heavy=False):
        super().__init__(lean, ty, atom, items)
        self.size = size      # Lean text of the number of entries (arrays)
        self.at = at          # index text -> Lean text of the entry (arrays)
        self.meta = meta      # {"space": "grid"|"modes", "D": text, "N": text}
        self.cx = cx          # complex valued
        self.fallible = fallible
        self.heavy = heavy    # a reduction: hoisted into a `let` before it is used inside an elementwise closure


def is_arr(v):
    return isinstance(v.ty, tuple) and v.ty[0] == "A"


def is_list(v):
    return isinstance(v.ty, tuple) and v.ty[0] == "C"


def is_opt(v):
    return isinstance(v.ty, tuple) and v.ty[0] == "O"


def P(text):
    """parenthesise a Lean term for use as an operand / argument"""
    t = text.strip()
    if " " not in t and "\n" not in t:
        return t
    if t.startswith("(") and t.endswith(")"):
        depth = 0
        for i, ch in enumerate(t):
            depth += ch == "("
            depth -= ch == ")"
            if depth == 0 and i != len(t) - 1:
                break
        else:
            return t
    return f"({t})"


def dflt(ek):
    return "0" if ek == "K" else "false"


def arr_named(name, ek="K", meta=None, cx=False):
    return MV(name, ("A", ek), atom=True, size=f"{name}.size",
              at=lambda i, n=name, d=dflt(ek): f"{n}.getD {i} {d}", meta=meta, cx=cx)


def lean_ty(ty):
    if ty == "K":
        return "K"
    if ty == "N":
        return "Nat"
    if ty == "Z":
        return "Int"
    if ty == "B":
        return "Bool"
    if ty == "S":
        return "String"
    if ty == "G":
        return "S"
    if ty == "G2":
        return "A"
    if ty == "U":
        return "Unit"
    if isinstance(ty, tuple):
        if ty[0] == "A":
            return "Array K" if ty[1] == "K" else "Array Bool"
        if ty[0] == "C":
            return f"List {P(lean_ty(ty[1]))}"
        if ty[0] == "O":
            return f"Option {P(lean_ty(ty[1]))}"
        if ty[0] == "T":
            return " × ".join(["K"] * ty[1])
        if ty[0] == "FN":
            return " → ".join(P(lean_ty(t)) for t in ty[1]) + " → " + P(lean_ty(ty[2]))
    raise TranslateError(f"no Lean type for kind {ty}")


def loaded_names(stmts):
    out = set()
    for s in stmts:
        for n in ast.walk(s):
            if isinstance(n, ast.Name) and isinstance(n.ctx, ast.Load):
                out.add(n.id)
    return out


def assigned_names(stmts):
    """names assigned anywhere inside the statements (not inside nested function definitions)"""
    out = []

    def visit(ss):
        for s in ss:
            if isinstance(s, ast.Assign):
                for t in s.targets:
                    for n in ast.walk(t):
                        if isinstance(n, ast.Name) and n.id not in out and n.id != "_":
                            out.append(n.id)
            elif isinstance(s, ast.If):
                visit(s.body)
                visit(s.orelse)
    visit(stmts)
    return out


def is_docstring(s):
    return isinstance(s, ast.Expr) and isinstance(s.value, ast.Constant) and isinstance(s.value.value, str)


def is_raise_block(stmts):
    return len(stmts) == 1 and isinstance(stmts[0], ast.Raise)


def raise_name(s):
    exc = s.exc
    if exc is None:
        return "?"
    return ast.unparse(exc.func) if isinstance(exc, ast.Call) else ast.unparse(exc)


def indent(lines, n):
    return [" " * n + l for l in lines]


def split_lines(text):
    return text.split("\n")


# ----------------------------------------------------------------------------
# external functions (exponax/_spectral.py): signature pins
# ----------------------------------------------------------------------------
EXTERNAL_SIGNATURES = {
    "fft": "field, *, num_spatial_dims=None",
    "ifft": "field_hat, *, num_spatial_dims=None, num_points=None",
    "low_pass_filter_mask": "num_spatial_dims, num_points, *, cutoff, axis_separate=True, indexing='ij'",
    "build_derivative_operator": "num_spatial_dims, domain_extent, num_points, *, indexing='ij'",
    "build_scaling_array": "num_spatial_dims, num_points, *, mode, indexing='ij'",
}


def check_externals(out_hashes, names):
    path = os.path.join(T.REPO, "exponax/_spectral.py")
    src = open(path).read()
    tree = ast.parse(src)
    for name in names:
        fn = T.find_func(tree.body, name)
        out_hashes[f"_spectral.py::{name} (external, interpreted by GenPrelude.ext_{name})"] = T.src_hash(fn, src)
        a = fn.args
        sig = ast.unparse(ast.arguments(
            posonlyargs=[ast.arg(arg=x.arg) for x in a.posonlyargs], args=[ast.arg(arg=x.arg) for x in a.args],
            vararg=a.vararg, kwonlyargs=[ast.arg(arg=x.arg) for x in a.kwonlyargs], kw_defaults=a.kw_defaults,
            kwarg=a.kwarg, defaults=a.defaults))
        if sig != EXTERNAL_SIGNATURES[name]:
            raise TranslateError(f"_spectral.{name}: signature ({sig}) differs from the one GenPrelude.ext_{name} "
                                 f"interprets ({EXTERNAL_SIGNATURES[name]})")


# ----------------------------------------------------------------------------
# the translator of one function body
# ----------------------------------------------------------------------------
class Helper:
    def __init__(self, lean_name, params, ret, fallible, used, shaped):
        self.lean_name = lean_name
        self.params = params      # [(python name, kind, default ast | None, keyword-only?)]
        self.ret = ret            # kind
        self.fallible = fallible
        self.used = used
        self.shaped = shaped      # takes the leading (D N : Nat) shape parameters


class ArrTr(T.FunTr):
    def __init__(self, owner, helpers, self_attrs=None, inputs=None):
        super().__init__(None, {}, self_attrs=self_attrs if self_attrs is not None else {}, helpers={})
        self.owner = owner
        self.fn_helpers = helpers       # python name -> Helper
        self.inputs = inputs or {}      # unparsed callee -> (parameter name, kind, meta) : values that are inputs
        self.input_params = []          # (name, kind) in order of first use
        self.guards = []
        self.notes = []
        self.fallible = False           # of the current block
        self.tmp = 0
        self.poisoned = {}
        self.attr_params = []           # self.<attr> parameters in order of first use

    # -- small helpers ---------------------------------------------------------
    def err(self, msg):
        return TranslateError(f"{self.owner}: {msg}")

    def fresh(self, base="t"):
        self.tmp += 1
        return f"{base}{self.tmp}"

    def lam_name(self, base):
        if base not in self.env and base not in self.params:
            return base
        return self.fresh(base)

    def emit(self, text):
        self.lines.extend(split_lines(text))

    def kind_of(self, name):
        k = self.env[name]
        return k.ty if isinstance(k, V) else k

    def val(self, v):
        """Lean text of a value (arrays are materialised)"""
        if is_arr(v) and v.lean is None:
            i = "h" if (v.meta or {}).get("space") == "modes" else "j"
            return f"tab {P(v.size)} (fun {i} => {v.at(i)})"
        return v.lean

    def pv(self, v):
        return P(self.val(v))

    def hoist(self, v):
        if getattr(v, "heavy", False):
            name = self.fresh("t")
            self.emit(f"let {name} := {v.lean}")
            return MV(name, v.ty, atom=True, cx=getattr(v, "cx", False))
        return v

    def named(self, v, base="t"):
        """make sure an array / list value is a Lean variable"""
        if v.lean is not None and v.atom and " " not in v.lean:
            return v
        name = self.fresh(base)
        self.emit(f"let {name} := {self.val(v)}")
        if is_arr(v):
            return arr_named(name, v.ty[1], v.meta, getattr(v, "cx", False))
        return MV(name, v.ty, atom=True, meta=getattr(v, "meta", None), cx=getattr(v, "cx", False))

    def force(self, v):
        """an optional value used where the value itself is needed: Python raises on None, so this is a `.bind`"""
        if is_opt(v):
            if not (v.atom and v.lean in self.env):
                raise self.err(f"optional value used as a value: {v.lean}")
            name = v.lean
            self.emit(f"{name}.bind fun {name} =>")
            self.fallible = True
            self.set_env(name, v.ty[1], getattr(v, "meta", None))
            return self.expr(ast.Name(id=name, ctx=ast.Load()))
        return v

    def set_env(self, name, kind, meta=None, cx=False):
        self.poisoned.pop(name, None)
        if isinstance(kind, tuple) and kind[0] == "A":
            self.env[name] = arr_named(name, kind[1], meta, cx)
        elif isinstance(kind, tuple) and kind[0] in ("C", "O"):
            self.env[name] = MV(name, kind, atom=True, meta=meta, cx=cx)
        else:
            self.env[name] = kind

    def toK(self, v):
        if v.ty in ("K", "N", "Z"):
            r = super().toK(v)
            return r
        raise self.err(f"a value of kind {v.ty} is used as a scalar: {v.lean}")

    def shape_of(self, v):
        m = getattr(v, "meta", None)
        if not m:
            raise self.err(f"the shape of {v.lean} is not known")
        return m["D"], m["N"]

    # -- expressions -----------------------------------------------------------
    def expr(self, n):
        if isinstance(n, ast.Constant):
            if n.value is None:
                return MV("none", "NONE", atom=True)
            if isinstance(n.value, str):
                return MV(json.dumps(n.value, ensure_ascii=False), "S", atom=True)
            v = self.const(n.value)
            r = MV(v.lean, v.ty, v.atom)
            r.cx = isinstance(n.value, complex)
            return r
        if isinstance(n, ast.Name):
            if n.id in self.poisoned:
                raise self.err(f"{n.id} is used after {self.poisoned[n.id]}")
            if n.id not in self.env:
                raise self.err(f"unbound name {n.id}")
            k = self.env[n.id]
            if isinstance(k, V):
                return k
            return MV(n.id, k, atom=True)
        if isinstance(n, ast.Lambda):
            return MV("<lambda>", "LAM", items=[n])
        if isinstance(n, ast.Compare):
            return self.compare(n)
        if isinstance(n, ast.UnaryOp):
            v = self.expr(n.operand)
            if isinstance(n.op, ast.USub):
                if v.ty == "N":
                    return MV(f"-({v.lean} : Int)", "Z")
                if v.ty == "Z":
                    return MV(f"-{v.p()}", "Z")
                self.use("Neg")
                if v.ty == "K":
                    return MV(f"-{v.p()}", "K", cx=getattr(v, "cx", False))
                if is_arr(v) and v.ty[1] == "K":
                    return MV(None, v.ty, size=v.size, at=lambda i, v=v: f"-{P(v.at(i))}", meta=v.meta, cx=v.cx)
            raise self.err(f"unsupported unary operation {ast.unparse(n)[:60]}")
        if isinstance(n, ast.BinOp):
            a = self.expr(n.left)
            b = self.expr(n.right)
            return self.bin(n.op, a, b, n)
        if isinstance(n, ast.Attribute):
            return self.attribute(n)
        if isinstance(n, ast.Subscript):
            return self.subscript(n)
        if isinstance(n, ast.Call):
            return self.call(n)
        if isinstance(n, (ast.Tuple, ast.List)):
            items = [self.expr(e) for e in n.elts]
            if items and all(i.ty in ("K", "N", "Z") for i in items):
                ks = [self.toK(i) for i in items]
                return MV("(" + ", ".join(k.lean for k in ks) + ")", ("T", len(ks)), atom=True, items=ks)
            return MV("<tuple>", "TUP", items=items)
        raise self.err(f"unsupported expression {ast.unparse(n)[:80]}")

    def attribute(self, n):
        if isinstance(n.value, ast.Name) and n.value.id == "self":
            if n.attr not in self.self_attrs:
                raise self.err(f"unknown attribute self.{n.attr}")
            k = self.self_attrs[n.attr]
            if k is None:
                raise self.err(f"self.{n.attr} has an annotation outside the vocabulary")
            if n.attr not in [a for a, _ in self.attr_params]:
                self.attr_params.append((n.attr, k))
            return MV(n.attr, k, atom=True)
        if isinstance(n.value, ast.Name) and n.value.id == "jnp" and n.attr == "pi":
            self.use("HasPi")
            return MV("HasPi.pi", "K", atom=True)
        if isinstance(n.value, ast.Name) and n.value.id == "jnp" and n.attr == "newaxis":
            return MV("none", "NONE", atom=True)
        base = self.expr(n.value)
        if n.attr == "ndim":
            if is_arr(base) and base.meta and base.meta.get("space") == "grid":
                return MV(base.meta["D"], "N", atom=True)
            if is_list(base) and base.meta:
                return MV(f"{base.meta['D']} + 1", "N")
        if n.attr == "shape" and is_arr(base):
            return MV("<shape>", "SHAPE", items=[base])
        raise self.err(f"unsupported attribute {ast.unparse(n)[:60]}")

    def subscript(self, n):
        idx = n.slice
        v = self.expr(n.value)
        if v.ty == "SHAPE":
            a = v.items[0]
            if isinstance(idx, ast.UnaryOp) and isinstance(idx.op, ast.USub) and ast.unparse(idx) == "-1" and a.meta:
                return MV(a.meta["N"], "N", atom=True)
            raise self.err(f"unsupported shape entry {ast.unparse(n)[:60]}")
        if isinstance(idx, ast.Constant) and idx.value is None and is_arr(v):
            a = self.named(v)
            return MV(f"[{a.lean}]", ("C", a.ty), atom=True, meta=a.meta, cx=a.cx)
        if isinstance(idx, ast.Constant) and isinstance(idx.value, int) and isinstance(v.ty, tuple) and v.ty[0] == "T":
            k = v.ty[1]
            i = idx.value + (k if idx.value < 0 else 0)
            if v.items is not None:
                return v.items[i]
            proj = ".2" * i + (".1" if i < k - 1 else "")
            return MV(f"{v.p()}{proj}", "K", atom=True)
        raise self.err(f"unsupported subscript {ast.unparse(n)[:60]}")

    # -- arithmetic ------------------------------------------------------------
    def scalar_op(self, op, x, y, kx, ky, cx):
        """Lean text of `x op y` for element texts x, y of kinds kx, ky ∈ K N Z B"""
        if isinstance(op, ast.BitAnd) and kx == "B" and ky == "B":
            return f"{P(x)} && {P(y)}", "B"
        if isinstance(op, ast.Mult) and {kx, ky} == {"K", "B"}:
            self.use("Mul", "Zero", "One")
            if kx == "B":
                return f"(bif {x} then 1 else 0) * {P(y)}", "K"
            return f"{P(x)} * (bif {y} then 1 else 0)", "K"
        if kx == "B" or ky == "B":
            raise self.err("unsupported operation on booleans")
        if isinstance(op, ast.Pow):
            if ky == "N":
                if kx in ("N", "Z"):
                    return f"{P(x)} ^ {P(y)}", kx
                self.use("Mul", "One")
                return f"npow {P(x)} {P(y)}", "K"
            if ky == "K":
                xk = self.toK(V(x, kx, atom=" " not in x)).lean if kx != "K" else x
                if cx:
                    self.use("HasCpow")
                    return f"HasCpow.cpow {P(xk)} {P(y)}", "K"
                self.use("HasRpow")
                return f"HasRpow.rpow {P(xk)} {P(y)}", "K"
            raise self.err("unsupported exponent")
        ints = ("N", "Z")
        if kx in ints and ky in ints and not isinstance(op, ast.Div):
            node = ast.BinOp(left=ast.Name(id="__x", ctx=ast.Load()), op=op, right=ast.Name(id="__y", ctx=ast.Load()))
            saved = dict(self.env)
            self.env["__x"] = V(x, kx, atom=" " not in x)
            self.env["__y"] = V(y, ky, atom=" " not in y)
            try:
                r = T.FunTr.binop(self, node)
            finally:
                self.env = saved
            return r.lean, r.ty
        xk = self.toK(V(x, kx, atom=" " not in x)).lean if kx != "K" else x
        yk = self.toK(V(y, ky, atom=" " not in y)).lean if ky != "K" else y
        sym, cls = {ast.Add: ("+", "Add"), ast.Sub: ("-", "Sub"), ast.Mult: ("*", "Mul"),
                    ast.Div: ("/", "Div")}.get(type(op), (None, None))
        if sym is None:
            raise self.err(f"unsupported operator {type(op).__name__}")
        self.use(cls)
        return f"{P(xk)} {sym} {P(yk)}", "K"

    def binop(self, n):
        return self.bin(n.op, self.expr(n.left), self.expr(n.right), n)

    def bin(self, op, a, b, node=None):
        where = ast.unparse(node)[:70] if node is not None else ""
        a, b = self.force(a), self.force(b)
        cx = bool(getattr(a, "cx", False) or getattr(b, "cx", False))
        if is_list(a) and is_list(b):
            x, y = self.lam_name("a"), self.lam_name("b")
            r = self.bin(op, self.inner(a, x), self.inner(b, y), node)
            return MV(f"List.zipWith (fun ({x} : {lean_ty(a.ty[1])}) ({y} : {lean_ty(b.ty[1])}) => {self.val(r)}) {a.p()} {b.p()}", ("C", r.ty),
                      meta=a.meta or b.meta, cx=cx)
        if is_list(a) or is_list(b):
            lst, other = (a, b) if is_list(a) else (b, a)
            if not (other.ty in ("K", "N", "Z") or is_arr(other)):
                raise self.err(f"unsupported broadcast ({a.ty} with {b.ty}): {where}")
            other = self.hoist(other)
            if is_arr(other):
                other = self.named(other)
            x = self.lam_name("a")
            r = self.bin(op, self.inner(lst, x), other, node) if is_list(a) else self.bin(op, other, self.inner(lst, x), node)
            return MV(f"List.map (fun ({x} : {lean_ty(lst.ty[1])}) => {self.val(r)}) {lst.p()}", ("C", r.ty), meta=lst.meta or getattr(other, "meta", None), cx=cx)
        if is_arr(a) or is_arr(b):
            a, b = self.hoist(a), self.hoist(b)
            for o in (a, b):
                if not (is_arr(o) or o.ty in ("K", "N", "Z")):
                    raise self.err(f"unsupported array operation ({a.ty} with {b.ty}): {where}")
            first = a if is_arr(a) else b
            ka = a.ty[1] if is_arr(a) else a.ty
            kb = b.ty[1] if is_arr(b) else b.ty
            # probe the kind once
            _, rk = self.scalar_op(op, "x", "y", ka, kb, getattr(a, "cx", False))

            def at(i, a=a, b=b, ka=ka, kb=kb, op=op):
                x = a.at(i) if is_arr(a) else a.lean
                y = b.at(i) if is_arr(b) else b.lean
                return self.scalar_op(op, x, y, ka, kb, getattr(a, "cx", False))[0]
            if is_arr(a) and is_arr(b) and a.size != b.size:
                self.note(f"`{where}`: both operands are assumed to have the same shape")
            return MV(None, ("A", "B" if rk == "B" else "K"), size=first.size, at=at,
                      meta=first.meta or getattr(b, "meta", None), cx=cx)
        if a.ty in ("K", "N", "Z", "B") and b.ty in ("K", "N", "Z", "B"):
            text, k = self.scalar_op(op, a.lean, b.lean, a.ty, b.ty, getattr(a, "cx", False))
            return MV(text, k, cx=cx)
        raise self.err(f"unsupported operands ({a.ty} {type(op).__name__} {b.ty}): {where}")

    def note(self, text):
        if text not in self.notes:
            self.notes.append(text)

    def inner(self, lst, name):
        k = lst.ty[1]
        if isinstance(k, tuple) and k[0] == "A":
            return arr_named(name, k[1], lst.meta, getattr(lst, "cx", False))
        return MV(name, k, atom=True, meta=getattr(lst, "meta", None), cx=getattr(lst, "cx", False))

    def compare(self, n):
        if len(n.ops) != 1:
            raise self.err("chained comparison")
        a, b = self.expr(n.left), self.expr(n.comparators[0])
        op = n.ops[0]
        if isinstance(op, ast.Lt) and (is_arr(a) or is_arr(b)):
            a, b = self.hoist(a), self.hoist(b)
            self.use("HasLtB")
            first = a if is_arr(a) else b

            def at(i, a=a, b=b):
                x = a.at(i) if is_arr(a) else self.toK(a).lean
                y = b.at(i) if is_arr(b) else self.toK(b).lean
                return f"HasLtB.ltb {P(x)} {P(y)}"
            return MV(None, ("A", "B"), size=first.size, at=at, meta=first.meta)
        return self.bool_expr(n)

    # -- conditions --------------------------------------------------------------
    def cond(self, t):
        """Lean text of a decidable proposition"""
        if isinstance(t, ast.UnaryOp) and isinstance(t.op, ast.Not):
            return f"¬ ({self.cond(t.operand)})"
        if isinstance(t, ast.BoolOp):
            sym = " ∨ " if isinstance(t.op, ast.Or) else " ∧ "
            return sym.join(f"({self.cond(v)})" for v in t.values)
        if isinstance(t, ast.Compare) and len(t.ops) == 1:
            op = t.ops[0]
            right = t.comparators[0]
            if isinstance(op, (ast.Is, ast.IsNot)) and isinstance(right, ast.Constant) and right.value is None:
                v = self.expr(t.left)
                if v.ty == "NONE":
                    return "True" if isinstance(op, ast.Is) else "False"
                if not is_opt(v):
                    raise self.err(f"`{ast.unparse(t)}` on a value that is not optional ({v.ty})")
                return f"{v.p()}.isNone = true" if isinstance(op, ast.Is) else f"{v.p()}.isSome = true"
            a, b = self.expr(t.left), self.expr(right)
            if isinstance(op, (ast.Eq, ast.NotEq)):
                sym = "=" if isinstance(op, ast.Eq) else "≠"
                if a.ty == "S" and b.ty == "S":
                    return f"{a.p()} {sym} {b.p()}"
                if a.ty in ("N", "Z") and b.ty in ("N", "Z"):
                    if a.ty != b.ty:
                        a, b = self.toZ(a), self.toZ(b)
                    return f"{a.p()} {sym} {b.p()}"
                if isinstance(a.ty, tuple) and a.ty[0] == "T" and isinstance(b.ty, tuple) and b.ty == a.ty \
                        and b.items is not None and all(it.lean in ("lit 0",) for it in b.items):
                    # tuple == (0.0, 0.0, …): every component `== 0`
                    self.use("HasIsZero")
                    comps = []
                    for i in range(a.ty[1]):
                        proj = ".2" * i + (".1" if i < a.ty[1] - 1 else "")
                        comps.append(f"HasIsZero.isZero {a.p()}{proj}")
                    text = "(" + " && ".join(comps) + ") = true"
                    return text if isinstance(op, ast.Eq) else f"¬ ({text})"
            if isinstance(op, (ast.Gt, ast.Lt, ast.GtE, ast.LtE)) and a.ty in ("N", "Z") and b.ty in ("N", "Z"):
                if a.ty != b.ty:
                    a, b = self.toZ(a), self.toZ(b)
                sym = {ast.Gt: ">", ast.Lt: "<", ast.GtE: "≥", ast.LtE: "≤"}[type(op)]
                return f"{a.p()} {sym} {b.p()}"
            raise self.err(f"unsupported comparison {ast.unparse(t)[:60]}")
        v = self.expr(t)
        if v.ty == "B":
            return f"{v.p()} = true"
        raise self.err(f"unsupported condition {ast.unparse(t)[:60]}")

    def bool_expr(self, t):
        """a condition used as a value (Bool)"""
        return MV(f"decide ({self.cond(t)})", "B")

    # -- calls ---------------------------------------------------------------------
    def kwargs(self, n, allowed, npos=None):
        kw = {}
        for k in n.keywords:
            if k.arg is None or k.arg not in allowed:
                raise self.err(f"unexpected keyword {k.arg} in {ast.unparse(n)[:60]}")
            kw[k.arg] = k.value
        if npos is not None and len(n.args) != npos:
            raise self.err(f"{ast.unparse(n.func)} expects {npos} positional argument(s): {ast.unparse(n)[:60]}")
        return kw

    def static_nat(self, v, what):
        if v.ty != "N":
            raise self.err(f"{what} must be a static natural number, got {v.ty}: {v.lean}")
        return v

    def arr_arg(self, node, what):
        v = self.force(self.expr(node))
        if not is_arr(v):
            raise self.err(f"{what}: expected an array, got {v.ty}")
        return v

    def call(self, n):
        fn = ast.unparse(n.func)
        # ---- values that are inputs of the translated function (random draws, inner generators) ----
        if fn in self.inputs:
            pname, kind, meta = self.inputs[fn]
            if pname not in [p for p, _ in self.input_params]:
                self.input_params.append((pname, kind))
                self.set_env(pname, kind, meta)
            return self.expr(ast.Name(id=pname, ctx=ast.Load()))
        # ---- elementwise ------------------------------------------------------------
        if fn == "jnp.abs":
            self.kwargs(n, (), 1)
            v = self.force(self.expr(n.args[0]))
            self.use("HasAbs")
            if is_arr(v) and v.ty[1] == "K":
                return MV(None, v.ty, size=v.size, at=lambda i, v=v: f"HasAbs.abs {P(v.at(i))}", meta=v.meta)
            if is_list(v):
                raise self.err("jnp.abs of a list of arrays")
            return MV(f"HasAbs.abs {self.toK(v).p()}", "K")
        if fn == "jnp.zeros_like":
            self.kwargs(n, (), 1)
            v = self.arr_arg(n.args[0], fn)
            self.use("Zero")
            return MV(None, ("A", "K"), size=v.size, at=lambda i: "0", meta=v.meta, cx=v.cx)
        if fn == "jnp.invert":
            self.kwargs(n, (), 1)
            v = self.arr_arg(n.args[0], fn)
            if v.ty[1] != "B":
                raise self.err("jnp.invert of a non-boolean array")
            return MV(None, v.ty, size=v.size, at=lambda i, v=v: f"!{P(v.at(i))}", meta=v.meta)
        if fn == "jnp.where":
            self.kwargs(n, (), 3)
            c = self.arr_arg(n.args[0], fn)
            a, b = self.hoist(self.expr(n.args[1])), self.hoist(self.expr(n.args[2]))
            if c.ty[1] != "B":
                raise self.err("jnp.where: the condition is not a boolean array")
            for o in (a, b):
                if not ((is_arr(o) and o.ty[1] == "K") or o.ty in ("K", "N", "Z")):
                    raise self.err(f"jnp.where: unsupported operand of kind {o.ty}")

            def at(i, c=c, a=a, b=b):
                x = a.at(i) if is_arr(a) else self.toK(a).lean
                y = b.at(i) if is_arr(b) else self.toK(b).lean
                return f"bif {c.at(i)} then {x} else {y}"
            return MV(None, ("A", "K"), size=c.size, at=at, meta=c.meta,
                      cx=bool(getattr(a, "cx", False) or getattr(b, "cx", False)))
        # ---- reductions ---------------------------------------------------------------
        if fn == "jnp.sum":
            self.kwargs(n, (), 1)
            v = self.force(self.expr(n.args[0]))
            self.use("Add", "Zero")
            if is_arr(v) and v.ty[1] == "K":
                i = "h" if (v.meta or {}).get("space") == "modes" else "j"
                return MV(f"sumRange {P(v.size)} (fun {i} => {v.at(i)})", "K", heavy=True, cx=v.cx)
            if is_list(v) and v.ty[1] == "K":
                return MV(f"sumList {v.p()}", "K", heavy=True)
            raise self.err(f"jnp.sum of a value of kind {v.ty}")
        if fn in ("jnp.mean", "jnp.std", "jnp.max", "jnp.min", "jnp.linalg.norm"):
            self.kwargs(n, (), 1)
            v = self.force(self.expr(n.args[0]))
            if is_list(v) and v.ty[1] == "K" and fn == "jnp.mean":
                self.used.update(BASE)
                return MV(f"jnp_mean_list {v.p()}", "K", heavy=True)
            if not (is_arr(v) and v.ty[1] == "K"):
                raise self.err(f"{fn} of a value of kind {v.ty}")
            if v.cx:
                raise self.err(f"{fn} of a complex array is outside the vocabulary")
            a = self.named(v)
            self.used.update(BASE)
            extra = {"jnp.std": "HasSqrt", "jnp.linalg.norm": "HasSqrt", "jnp.max": "HasLtB", "jnp.min": "HasLtB"}
            if fn in extra:
                self.use(extra[fn])
            return MV(f"{fn.replace('.', '_')} {a.lean}", "K", heavy=True)
        if fn == "jnp.dot":
            self.kwargs(n, (), 2)
            a, b = self.arr_arg(n.args[0], fn), self.arr_arg(n.args[1], fn)
            self.use("Add", "Zero", "Mul")
            if a.size != b.size:
                self.note(f"`{ast.unparse(n)[:70]}`: both operands are assumed to have the same length")
            return MV(f"sumRange {P(a.size)} (fun j => {P(a.at('j'))} * {P(b.at('j'))})", "K", heavy=True)
        # ---- methods of arrays ------------------------------------------------------------
        if isinstance(n.func, ast.Attribute) and n.func.attr == "flatten" and not n.args and not n.keywords:
            v = self.force(self.expr(n.func.value))
            if is_arr(v):
                return v     # arrays are stored flat in C order
            raise self.err(f"flatten of a value of kind {v.ty}")
        if isinstance(n.func, ast.Attribute) and n.func.attr == "reshape" and len(n.args) == 1 and not n.keywords:
            v = self.force(self.expr(n.func.value))
            s = self.expr(n.args[0])
            if is_arr(v) and s.ty == "SHAPE":
                src = s.items[0]
                if v.size != src.size:
                    self.note(f"`{ast.unparse(n)[:70]}`: the target shape is assumed to have the size of the array")
                r = MV(v.lean, v.ty, atom=v.atom, size=v.size, at=v.at, meta=src.meta, cx=v.cx)
                return r
            raise self.err(f"unsupported reshape {ast.unparse(n)[:60]}")
        if isinstance(n.func, ast.Attribute) and n.func.attr == "set" and isinstance(n.func.value, ast.Subscript) \
                and isinstance(n.func.value.value, ast.Attribute) and n.func.value.value.attr == "at":
            # x.at[i].set(v)
            self.kwargs(n, (), 1)
            base = self.arr_arg(n.func.value.value.value, "at[].set")
            i = self.static_nat(self.expr(n.func.value.slice), "index of .at[]")
            v = self.toK(self.expr(n.args[0]))
            a = self.named(base)
            text = f"{a.lean}.setIfInBounds {i.p()} {v.p()}"
            return MV(text, a.ty, size=a.size, at=lambda j, t=text: f"({t}).getD {j} 0", meta=a.meta, cx=a.cx)
        # ---- exponax/_spectral.py --------------------------------------------------------------
        if fn == "fft":
            kw = self.kwargs(n, ("num_spatial_dims",), 1)
            v = self.arr_arg(n.args[0], fn)
            if "num_spatial_dims" not in kw:
                raise self.err("fft without num_spatial_dims (inferred from a channel axis) is outside the vocabulary")
            d = self.static_nat(self.expr(kw["num_spatial_dims"]), "num_spatial_dims")
            D0, N0 = self.shape_of(v)
            if d.lean != D0:
                self.note(f"`{ast.unparse(n)[:70]}`: the transform is over all axes, i.e. {d.lean} = {D0} is assumed")
            a = self.named(v)
            self.used.update(BASE + ["HasExp", "HasI", "HasPi"])
            self.externals.add("fft")
            return MV(f"ext_fft {d.p()} {P(N0)} {a.lean}", ("A", "K"), meta={"space": "modes", "D": d.lean, "N": N0}, cx=True)
        if fn == "ifft":
            kw = self.kwargs(n, ("num_spatial_dims", "num_points"), 1)
            v = self.arr_arg(n.args[0], fn)
            if set(kw) != {"num_spatial_dims", "num_points"}:
                raise self.err("ifft needs num_spatial_dims and num_points")
            d = self.static_nat(self.expr(kw["num_spatial_dims"]), "num_spatial_dims")
            m = self.static_nat(self.expr(kw["num_points"]), "num_points")
            a = self.named(v)
            self.used.update(BASE + ["HasExp", "HasI", "HasPi", "HasRe"])
            self.externals.add("ifft")
            return MV(f"ext_ifft {d.p()} {m.p()} {a.lean}", ("A", "K"), meta={"space": "grid", "D": d.lean, "N": m.lean})
        if fn == "low_pass_filter_mask":
            kw = self.kwargs(n, ("cutoff", "axis_separate"), 2)
            d = self.static_nat(self.expr(n.args[0]), "num_spatial_dims")
            m = self.static_nat(self.expr(n.args[1]), "num_points")
            if "cutoff" not in kw:
                raise self.err("low_pass_filter_mask without cutoff")
            c = self.expr(kw["cutoff"])
            if c.ty not in ("N", "Z"):
                raise self.err(f"low_pass_filter_mask: the cutoff must be a static integer, got {c.ty}")
            c = self.toZ(c)
            sep = "true"
            if "axis_separate" in kw:
                s = self.expr(kw["axis_separate"])
                if s.ty != "B":
                    raise self.err("axis_separate must be a boolean")
                sep = s.lean
            self.externals.add("low_pass_filter_mask")
            return MV(f"ext_low_pass_filter_mask {d.p()} {m.p()} {c.p()} {sep}", ("A", "B"),
                      meta={"space": "modes", "D": d.lean, "N": m.lean})
        if fn == "build_derivative_operator":
            self.kwargs(n, (), 3)
            d = self.static_nat(self.expr(n.args[0]), "num_spatial_dims")
            L = self.toK(self.expr(n.args[1]))
            m = self.static_nat(self.expr(n.args[2]), "num_points")
            self.used.update(BASE + ["HasI", "HasPi"])
            self.externals.add("build_derivative_operator")
            return MV(f"ext_build_derivative_operator {d.p()} {L.p()} {m.p()}", ("C", ("A", "K")),
                      meta={"space": "modes", "D": d.lean, "N": m.lean}, cx=True)
        if fn == "build_scaling_array":
            kw = self.kwargs(n, ("mode",), 2)
            d = self.static_nat(self.expr(n.args[0]), "num_spatial_dims")
            m = self.static_nat(self.expr(n.args[1]), "num_points")
            if "mode" not in kw:
                raise self.err("build_scaling_array without mode")
            md = self.expr(kw["mode"])
            if md.ty != "S":
                raise self.err("build_scaling_array: mode must be a string")
            self.used.update(BASE)
            self.externals.add("build_scaling_array")
            return MV(f"ext_build_scaling_array {d.p()} {m.p()} {md.lean}", ("A", "K"),
                      meta={"space": "modes", "D": d.lean, "N": m.lean})
        # ---- jax.vmap(f)(xs…) --------------------------------------------------------------------
        if isinstance(n.func, ast.Call) and ast.unparse(n.func.func) == "jax.vmap":
            if n.keywords or n.func.keywords or len(n.func.args) != 1:
                raise self.err(f"unsupported jax.vmap form {ast.unparse(n)[:60]}")
            return self.vmap(n.func.args[0], n.args)
        # ---- translated functions of the same package ----------------------------------------------
        if fn in self.fn_helpers:
            return self.helper_call(fn, n.args, n.keywords, n)
        if fn in self.local_funcs:
            f = self.local_funcs[fn]
            if n.keywords or len(n.args) != len(f.args.args):
                raise self.err(f"unsupported call of the local function {fn}")
            return self.inline(f.args, f.body, [self.expr(a) for a in n.args])
        r = self.call_extra(n, fn)
        if r is not None:
            return r
        raise self.err(f"call outside the vocabulary: {ast.unparse(n)[:80]}")

    def call_extra(self, n, fn):
        return None

    externals = None

    def helper_call(self, fn, args, keywords, node=None, argv=None):
        h = self.fn_helpers[fn]
        argv = dict(argv or {})
        if len(args) > len(h.params):
            raise self.err(f"too many arguments in the call of {fn}")
        for i, a in enumerate(args):
            if h.params[i][3]:
                raise self.err(f"keyword-only argument passed positionally in the call of {fn}")
            argv[h.params[i][0]] = self.expr(a) if isinstance(a, ast.AST) else a
        for kw in keywords:
            if kw.arg not in [p[0] for p in h.params] or kw.arg in argv:
                raise self.err(f"bad keyword {kw.arg} in the call of {fn}")
            argv[kw.arg] = self.expr(kw.value)
        parts = []
        shape = None
        for pn, pk, default, _ in h.params:
            if pn in argv:
                a = argv[pn]
            elif default is not None:
                a = self.expr(default)
            else:
                raise self.err(f"missing argument {pn} in the call of {fn}")
            a = self.coerce(a, pk, f"argument {pn} of {fn}")
            if (is_arr(a) or is_list(a) or is_opt(a)) and getattr(a, "meta", None) and shape is None:
                shape = (a.meta["D"], a.meta["N"])
            parts.append(self.pv(a))
        self.used.update(h.used)
        lead = ""
        if h.shaped:
            if shape is None:
                raise self.err(f"the shape of the array arguments of {fn} is not known")
            lead = f"{P(shape[0])} {P(shape[1])} "
        text = f"{h.lean_name} {lead}" + " ".join(parts)
        v = MV(text.strip(), h.ret, fallible=h.fallible)
        if is_arr(v) or is_list(v):
            v.meta = {"space": "grid", "D": shape[0], "N": shape[1]} if shape else None
        if h.fallible:
            # hoisted: `(call).bind fun t =>`
            v.pending = True
        return v

    def coerce(self, a, pk, what):
        """argument of kind a.ty passed for a parameter of kind pk"""
        if a.ty == pk:
            return a
        if pk == "K" and a.ty in ("N", "Z"):
            return self.toK(a)
        if isinstance(pk, tuple) and pk[0] == "O":
            if a.ty == "NONE":
                return MV("none", pk, atom=True)
            inner = self.coerce(a, pk[1], what)
            r = MV(f"some {self.pv(inner)}", pk, meta=getattr(inner, "meta", None))
            return r
        if is_opt(a) and a.ty[1] == pk:
            return self.force(a)
        raise self.err(f"{what} has kind {a.ty}, expected {pk}")

    def settle(self, v, base="t", exact=False):
        """a fallible call used as a value: bind it first"""
        if getattr(v, "pending", False):
            name = base if exact else self.fresh(base)
            self.emit(f"({v.lean}).bind fun {name} =>")
            self.fallible = True
            r = MV(name, v.ty, atom=True, meta=getattr(v, "meta", None))
            if is_arr(v):
                r = arr_named(name, v.ty[1], v.meta)
            return r
        return v

    def inline(self, args, body, argvals, names=None):
        """body of a lambda / local function applied to values: returns the result value; the `let`s of the body
        are emitted into the current block"""
        names = names or [a.arg for a in args.args]
        if len(names) != len(argvals):
            raise self.err("arity mismatch in the application of a local function")
        saved = dict(self.env)
        try:
            for nm, v in zip(names, argvals):
                if v.ty in ("K", "N", "Z", "B", "S") and not v.atom:
                    self.emit(f"let {nm} := {v.lean}")
                    self.env[nm] = v.ty
                else:
                    self.env[nm] = v
            if isinstance(body, list):
                res = None
                for i, s in enumerate(body):
                    if is_docstring(s):
                        continue
                    if isinstance(s, ast.Return):
                        if i != len(body) - 1:
                            raise self.err("statements after return")
                        res = self.expr(s.value)
                        break
                    self.stmt_in_block(s, body[i + 1:], set())
                if res is None:
                    raise self.err("local function without return")
            else:
                res = self.expr(body)
            res = self.settle(res)
            if is_arr(res) and res.lean is None:
                res = self.named(res)
            return res
        finally:
            self.env = saved

    def vmap(self, fnode, argnodes):
        args = [self.force(self.expr(a)) for a in argnodes]
        for a in args:
            if not is_list(a):
                raise self.err(f"jax.vmap over a value of kind {a.ty}")
        # parameter names
        if isinstance(fnode, ast.Lambda):
            names = [a.arg for a in fnode.args.args]
            body = fnode.body
        elif isinstance(fnode, ast.Name) and fnode.id in self.local_funcs:
            f = self.local_funcs[fnode.id]
            names = [a.arg for a in f.args.args]
            body = f.body
        elif isinstance(fnode, ast.Name) and fnode.id in self.fn_helpers:
            h = self.fn_helpers[fnode.id]
            names = [self.lam_name(x) for x in ("a", "b", "c")[:len(args)]]
            body = ast.Call(func=fnode, args=[ast.Name(id=x, ctx=ast.Load()) for x in names], keywords=[])
        else:
            raise self.err(f"jax.vmap of {ast.unparse(fnode)[:60]}")
        if len(names) != len(args) or len(args) not in (1, 2):
            raise self.err("jax.vmap: unsupported arity")
        inner = [self.inner(a, nm) for a, nm in zip(args, names)]
        saved_lines, saved_f = self.lines, self.fallible
        self.lines, self.fallible = [], False
        try:
            res = self.inline(None, body, inner, names=names)
            lines, fall = self.lines, self.fallible
        finally:
            self.lines, self.fallible = saved_lines, saved_f
        if fall:
            raise self.err("jax.vmap of a function that can raise is outside the vocabulary")
        rtext = self.val(res)
        binder = " ".join(f"({nm} : {lean_ty(a.ty[1])})" for nm, a in zip(names, args))
        comb = "List.map" if len(args) == 1 else "List.zipWith"
        if lines:
            text = f"{comb} (fun {binder} =>\n" + "\n".join(indent(lines + [rtext + ")"], 4))
        else:
            text = f"{comb} (fun {binder} => {rtext})"
        text += " " + " ".join(a.p() for a in args)
        return MV(text, ("C", res.ty), meta=getattr(res, "meta", None) if is_arr(res) else args[0].meta)

    # -- statements ----------------------------------------------------------------------
    def bind(self, name, v):
        v = self.settle(v, name, exact=True)
        if getattr(v, "pending", False):
            raise self.err("internal: pending value")
        if v.ty in ("NONE", "LAM", "SHAPE", "TUP", "KEY"):
            if v.ty == "SHAPE":
                self.env[name] = v
                return
            raise self.err(f"cannot bind {name} to a value of kind {v.ty}")
        text = self.val(v)
        if not (v.atom and text == name):
            self.emit(f"let {name} : {lean_ty(v.ty)} := {text}")
        self.set_env(name, v.ty, getattr(v, "meta", None), getattr(v, "cx", False))

    def stmt_in_block(self, s, rest, live_after):
        """translate one non-returning statement into the current block"""
        if is_docstring(s):
            return
        if isinstance(s, ast.FunctionDef):
            self.local_funcs[s.name] = s
            return
        if isinstance(s, ast.Assign):
            if len(s.targets) != 1:
                raise self.err("multiple assignment targets")
            t = s.targets[0]
            if self.assign_extra(s, t):
                return
            if not isinstance(t, ast.Name):
                raise self.err(f"unsupported assignment target {ast.unparse(t)[:40]}")
            self.bind(t.id, self.expr(s.value))
            return
        if isinstance(s, ast.If):
            self.if_stmt(s, loaded_names(rest) | live_after)
            return
        raise self.err(f"unsupported statement {type(s).__name__}: {ast.unparse(s)[:60]}")

    def assign_extra(self, s, t):
        return False

    def none_test(self, test):
        """`x is None` / `x is not None` on an optional variable → (name, is_none)"""
        if isinstance(test, ast.Compare) and len(test.ops) == 1 and isinstance(test.ops[0], (ast.Is, ast.IsNot)) \
                and isinstance(test.comparators[0], ast.Constant) and test.comparators[0].value is None \
                and isinstance(test.left, ast.Name) and test.left.id in self.env:
            k = self.kind_of(test.left.id)
            if isinstance(k, tuple) and k[0] == "O":
                return test.left.id, isinstance(test.ops[0], ast.Is)
        return None

    def branch_block(self, stmts, live):
        """translate a branch; returns (lines, fallible, env after, raises)"""
        saved_lines, saved_f = self.lines, self.fallible
        self.lines, self.fallible = [], False
        try:
            raises = False
            for i, s in enumerate(stmts):
                if isinstance(s, ast.Raise):
                    if i != len(stmts) - 1:
                        raise self.err("statements after raise")
                    self.pending_raise = raise_name(s)
                    raises = True
                    self.fallible = True
                    break
                if isinstance(s, ast.Return):
                    raise self.err("return inside a branch that also assigns")
                self.stmt_in_block(s, stmts[i + 1:], live)
            return self.lines, self.fallible, self.env, raises
        finally:
            self.lines, self.fallible = saved_lines, saved_f

    def if_stmt(self, s, live):
        # guard: `if c: raise …`
        if is_raise_block(s.body) and not s.orelse:
            c = self.cond(s.test)
            self.guards.append(f"raise {raise_name(s.body[0])} if {ast.unparse(s.test)}")
            self.emit(f"if {c} then none else")
            self.fallible = True
            return
        # chain of (test, body)
        chain, cur = [], s
        while True:
            chain.append((cur.test, cur.body))
            if len(cur.orelse) == 1 and isinstance(cur.orelse[0], ast.If):
                cur = cur.orelse[0]
                continue
            final = cur.orelse
            break
        env0 = dict(self.env)
        pois0 = dict(self.poisoned)
        nt = self.none_test(chain[0][0]) if len(chain) == 1 else None
        branches = []   # (header, lines, fallible, env, raises)
        if nt is not None:
            name, is_none = nt
            kind = self.kind_of(name)
            meta = getattr(self.env[name], "meta", None) if isinstance(self.env[name], V) else None
            none_body, some_body = (chain[0][1], final) if is_none else (final, chain[0][1])
            # `none` branch
            self.env = dict(env0)
            self.env[name] = MV("none", "NONE", atom=True)
            bn = self.branch_block(none_body, live)
            if bn[3]:
                self.guards.append(f"raise {self.pending_raise} if {name} is None")
            self.env, self.poisoned = dict(env0), dict(pois0)
            self.set_env(name, kind[1], meta)
            bs = self.branch_block(some_body, live)
            if bs[3]:
                self.guards.append(f"raise {self.pending_raise} if {name} is not None")
            branches = [("none", bn), ("some", bs)]
        else:
            for test, body in chain:
                self.env, self.poisoned = dict(env0), dict(pois0)
                c = self.cond(test)
                b = self.branch_block(body, live)
                if b[3]:
                    self.guards.append(f"raise {self.pending_raise} if {ast.unparse(test)}")
                branches.append((c, b))
            self.env, self.poisoned = dict(env0), dict(pois0)
            b = self.branch_block(final, live)
            if b[3]:
                self.guards.append(f"raise {self.pending_raise} if none of the tests of "
                                   f"`if {ast.unparse(chain[0][0])[:40]} …` holds")
            branches.append((None, b))
        self.env, self.poisoned = dict(env0), dict(pois0)
        # names to merge
        assigned = []
        for _, body in chain:
            for x in assigned_names(body):
                if x not in assigned:
                    assigned.append(x)
        for x in assigned_names(final):
            if x not in assigned:
                assigned.append(x)
        merged = []
        kinds = {}
        for x in assigned:
            ks = []
            ok = True
            for hdr, (lines, fall, env, raises) in branches:
                if raises:
                    continue
                if x not in env or x in self.poisoned:
                    ok = False
                    break
                k = env[x]
                kk = k.ty if isinstance(k, V) else k
                if kk == "NONE":
                    ok = False
                    break
                ks.append((kk, getattr(k, "meta", None) if isinstance(k, V) else None,
                           getattr(k, "cx", False) if isinstance(k, V) else False))
            if ok and ks and all(k[0] == ks[0][0] for k in ks):
                if x in live:
                    merged.append(x)
                    kinds[x] = ks[0]
            else:
                if x in self.env:
                    del self.env[x]
                self.poisoned[x] = f"`if {ast.unparse(chain[0][0])[:50]}` (not assigned with one kind on every path)"
        fall = any(b[1][1] for b in branches)
        if not merged:
            if not fall:
                return      # no effect that is used afterwards
            tup = "()"
        else:
            tup = merged[0] if len(merged) == 1 else "(" + ", ".join(merged) + ")"
        res = f"some {P(tup)}" if fall else tup
        out = []
        if nt is not None:
            name = nt[0]
            out.append(f"match {name} with")
            for hdr, (lines, f, env, raises) in branches:
                pat = "| none =>" if hdr == "none" else f"| some {name} =>"
                body = lines + (["none"] if raises else [res])
                if len(body) == 1:
                    out.append(f"  {pat} {body[0]}")
                else:
                    out.append(f"  {pat}")
                    out += indent(body, 4)
        else:
            first = True
            for hdr, (lines, f, env, raises) in branches:
                body = lines + (["none"] if raises else [res])
                if hdr is not None:
                    out.append(("if " if first else "else if ") + hdr + " then")
                    out[-1] = ("  " if not first else "") + out[-1]
                else:
                    out.append("  else")
                out += indent(body, 4)
                first = False
        pat = tup if merged else "_"
        if fall:
            out[0] = "(" + out[0]
            out[-1] = out[-1] + f").bind fun {pat} =>"
            self.fallible = True
        else:
            out[0] = f"let {pat} := " + out[0]
        self.lines += out
        for x in merged:
            k, meta, cx = kinds[x]
            self.set_env(x, k, meta, cx)

    def body(self, stmts):
        """translate a function body that ends in `return`; gives (lines, result value, fallible)"""
        self.lines, self.fallible = [], False
        res = None
        for i, s in enumerate(stmts):
            if isinstance(s, ast.Return):
                if i != len(stmts) - 1:
                    raise self.err("statements after return")
                if s.value is None:
                    raise self.err("bare return")
                res = self.expr(s.value)
                if getattr(res, "pending", False):
                    # `return f(...)` of a function that can raise: its result is the result
                    self.fallible = True
                    return self.lines, res, True, True
                break
            self.stmt_in_block(s, stmts[i + 1:], set())
        if res is None:
            raise self.err("the function does not end in return")
        return self.lines, res, self.fallible, False


# ----------------------------------------------------------------------------
# annotations → kinds
# ----------------------------------------------------------------------------
def ann_kind(ann, owner, pname):
    """kind (and meta marker) of a parameter from its annotation"""
    s = ast.unparse(ann) if ann is not None else ""
    if isinstance(ann, ast.BinOp) and isinstance(ann.op, ast.BitOr):
        parts = []
        cur = ann
        while isinstance(cur, ast.BinOp) and isinstance(cur.op, ast.BitOr):
            parts.insert(0, cur.right)
            cur = cur.left
        parts.insert(0, cur)
        nones = [p for p in parts if isinstance(p, ast.Constant) and p.value is None]
        rest = [p for p in parts if not (isinstance(p, ast.Constant) and p.value is None)]
        if len(nones) == 1 and len(rest) == 1:
            return ("O", ann_kind(rest[0], owner, pname))
        raise TranslateError(f"{owner}: unsupported annotation {s} of {pname}")
    if s == "float":
        return "K"
    if s == "int":
        return "N"
    if s == "bool":
        return "B"
    if s == "tuple[float, float]":
        return ("T", 2)
    if isinstance(ann, ast.Subscript) and ast.unparse(ann.value) == "Literal":
        return "S"
    if isinstance(ann, ast.Subscript) and ast.unparse(ann.value) in ("Float",) \
            and isinstance(ann.slice, ast.Tuple) and len(ann.slice.elts) == 2 \
            and isinstance(ann.slice.elts[1], ast.Constant) and isinstance(ann.slice.elts[1].value, str):
        shape = ann.slice.elts[1].value.split()
        if shape == ["...", "N"] or shape == ["1", "...", "N"]:
            return ("A", "K")
        if shape == ["C", "...", "N"]:
            return ("C", ("A", "K"))
    raise TranslateError(f"{owner}: unsupported annotation {s!r} of parameter {pname}")


def fn_params(fn, owner):
    if fn.args.vararg or fn.args.kwarg or fn.args.posonlyargs:
        raise TranslateError(f"{owner}: unsupported signature")
    out = []
    pos = [a for a in fn.args.args if a.arg != "self"]
    npos = len(pos)
    defaults = [None] * (npos - len(fn.args.defaults)) + list(fn.args.defaults)
    for a, d in zip(pos, defaults):
        out.append((a.arg, a.annotation, d, False))
    for a, d in zip(fn.args.kwonlyargs, fn.args.kw_defaults):
        out.append((a.arg, a.annotation, d, True))
    return out


def render_def(name, tr, params, lines, res, fallible, direct, comments, type_params="{K : Type}",
               used_extra=()):
    ret_kind = res.ty
    if fallible and not direct:
        final = f"some {tr.pv(res)}"
    else:
        final = tr.val(res)
    ret = lean_ty(ret_kind)
    if fallible:
        ret = f"Option {P(ret)}"
    binders = " ".join(f"({pn} : {lean_ty(pk)})" for pn, pk in params)
    used = set(tr.used) | set(used_extra)
    inst = inst_binders(used)
    head = " ".join(f"def {name} {type_params} {inst} {binders} : {ret} :=".split())
    body = indent(lines + split_lines(final), 2)
    return "".join(f"-- {c}\n" for c in comments) + head + "\n" + "\n".join(body) + "\n", used


def translate_function(fn, src, rel, helpers, out_hashes, lean_name=None, self_attrs=None, inputs=None,
                       skip=None, owner=None, extra_kinds=None, cls=ArrTr):
    """translate one module-level function / method with the general translator and register it as a helper"""
    owner = owner or fn.name
    lean_name = lean_name or fn.name
    out_hashes[f"{rel}::{owner}"] = T.src_hash(fn, src)
    tr = cls(owner, helpers, self_attrs=self_attrs, inputs=inputs)
    tr.externals = set()
    plist = []
    shaped = False
    for pn, ann, d, kwonly in fn_params(fn, owner):
        if skip and pn in skip:
            continue
        k = (extra_kinds or {}).get(pn) or ann_kind(ann, owner, pn)
        plist.append((pn, k, d, kwonly))
        base = k[1] if isinstance(k, tuple) and k[0] == "O" else k
        meta = None
        if isinstance(base, tuple) and base[0] in ("A", "C") and base != ("C", "K"):
            shaped = True
            meta = {"space": "grid", "D": "D", "N": "N"}
        tr.set_env(pn, k, meta)
    stmts = [s for s in fn.body if not is_docstring(s)]
    lines, res, fallible, direct = tr.body(stmts)
    final_probe = (res.lean or "") if not is_arr(res) else tr.val(res)
    shaped = shaped and bool(T.tokens("\n".join(lines) + "\n" + final_probe) & {"D", "N"})
    params = []
    if shaped:
        params += [("D", "N"), ("N", "N")]
    params += [(a, k) for a, k in tr.attr_params]
    params += [(pn, pk) for pn, pk, _, _ in plist]
    params += [(pn, pk) for pn, pk in tr.input_params]
    comments = [f"{owner}  (exponax/{rel})"]
    if shaped:
        comments.append("array arguments: flat (C order), every channel of shape (N,)*D")
    if tr.attr_params:
        comments.append("attributes: " + " ".join(f"self.{a}" for a, _ in tr.attr_params))
    if tr.input_params:
        comments.append("inputs (random draws / inner generators): " + " ".join(p for p, _ in tr.input_params))
    defaults = [f"{pn}={ast.unparse(d)}" for pn, _, d, _ in plist if d is not None]
    if defaults:
        comments.append("defaults: " + ", ".join(defaults))
    comments += [f"guard (→ none): {g}" for g in tr.guards]
    comments += [f"shape assumption (not modelled): {g}" for g in tr.notes]
    extra = {"Zero"} if ".getD " in "\n".join(lines) + final_probe else set()
    text, used = render_def(lean_name, tr, params, lines, res, fallible, direct, comments, used_extra=extra)
    helpers[fn.name] = Helper(lean_name, plist, res.ty, fallible, used, shaped)
    helpers[fn.name].attr_params = list(tr.attr_params)
    helpers[fn.name].input_params = list(tr.input_params)
    return text, tr


def q(x):
    return '"' + x + '"'


HEADER = """/- GENERATED by harness/translate_metrics.py from {src} — do not edit.
   source span hashes: see Generated/hashes_metrics.json -/
import ExponaxModel.Generated.GenPrelude
set_option linter.unusedVariables false
namespace Exponax.Gen.{ns}
open Exponax.Layout Exponax.Transform Exponax.Gen.Prelude

"""


def lean_ident(name):
    return ("priv" + name) if name.startswith("_") else name


# ----------------------------------------------------------------------------
# MetricsGen
# ----------------------------------------------------------------------------
METRIC_FILES = ["metrics/_spatial.py", "metrics/_fourier.py", "metrics/_derivative.py", "metrics/_correlation.py"]


def translate_metrics(out_hashes):
    texts = []
    helpers = {}
    generated = []
    externals = set()
    for rel in METRIC_FILES:
        path = os.path.join(T.REPO, "exponax", rel)
        src = open(path).read()
        tree = ast.parse(src)
        for node in tree.body:
            if isinstance(node, (ast.Import, ast.ImportFrom)) or is_docstring(node):
                continue
            if isinstance(node, ast.FunctionDef):
                if node.decorator_list:
                    raise TranslateError(f"{rel}::{node.name}: decorated function")
                if node.name in helpers:
                    raise TranslateError(f"{rel}::{node.name}: defined twice")
                text, tr = translate_function(node, src, rel, helpers, out_hashes, lean_name=lean_ident(node.name))
                externals |= tr.externals
                texts.append(text)
                generated.append(node.name)
                continue
            raise TranslateError(f"{rel}: unsupported module-level statement {type(node).__name__}: "
                                 f"{ast.unparse(node)[:60]}")
    check_externals(out_hashes, sorted(externals))
    tail = ("/-- every function of exponax/metrics/{_spatial,_fourier,_derivative,_correlation}.py (sorted);\n"
            "    `Proofs/MetricsGenEq.lean` pins this list, so a new metric without a theorem breaks the build -/\n"
            "def generated_metrics : List String :=\n  [" + ", ".join(q(n) for n in sorted(generated)) + "]\n")
    return HEADER.format(src=", ".join("exponax/" + r for r in METRIC_FILES), ns="MetricsGen") \
        + "\n".join(texts) + "\n" + tail + "\nend Exponax.Gen.MetricsGen\n"


# ----------------------------------------------------------------------------
# ICGen
# ----------------------------------------------------------------------------
def class_attr_kinds(cls, owner):
    out = {}
    for m in cls.body:
        if isinstance(m, ast.AnnAssign) and isinstance(m.target, ast.Name):
            s = ast.unparse(m.annotation)
            if s == "float":
                out[m.target.id] = "K"
            elif s == "int":
                out[m.target.id] = "N"
            elif s == "bool":
                out[m.target.id] = "B"
            elif s in ("tuple[float, float]", "tuple[int, int]"):
                out[m.target.id] = ("T", 2)
            else:
                out[m.target.id] = None
    return out


class ICTr(ArrTr):
    """`__call__` of an initial-condition generator: PRNG keys are not modelled, the random draws (and the
    result of an inner generator) are inputs"""

    def assign_extra(self, s, t):
        val = s.value
        # PRNG plumbing:  a, b = jr.split(key)
        if isinstance(val, ast.Call) and ast.unparse(val.func) == "jr.split":
            names = [e.id for e in t.elts] if isinstance(t, ast.Tuple) else [t.id]
            for nm in names:
                self.env[nm] = "KEY"
            return True
        # a random draw:  x = jr.<dist>(...)[0]  → input x
        calls = [c for c in ast.walk(val) if isinstance(c, ast.Call) and ast.unparse(c.func).startswith("jr.")]
        if calls and isinstance(t, ast.Name):
            if not (isinstance(val, ast.Subscript) and isinstance(val.value, ast.Call)
                    and ast.unparse(val.value.func) == "jr.uniform" and ast.unparse(val.slice) == "0"):
                raise self.err(f"unsupported random draw {ast.unparse(val)[:60]}")
            kw = {k.arg: k.value for k in val.value.keywords}
            if ast.unparse(kw.get("shape", ast.Constant(None))) != "(1,)":
                raise self.err("random draw that is not one scalar")
            self.input_params.append((t.id, "K"))
            self.set_env(t.id, "K")
            lo = ast.unparse(kw["minval"]) if "minval" in kw else "0"
            hi = ast.unparse(kw["maxval"]) if "maxval" in kw else "1"
            self.draws.append(f"{t.id} ~ uniform({lo}, {hi})")
            return True
        return False

    draws = None


def translate_ic(out_hashes):
    texts = []
    helpers = {}
    generated = []
    externals = set()

    def load(rel):
        path = os.path.join(T.REPO, "exponax", rel)
        src = open(path).read()
        return src, ast.parse(src)

    # normalize_ic
    rel = "ic/_base_ic.py"
    src, tree = load(rel)
    fn = T.find_func(tree.body, "normalize_ic")
    text, tr = translate_function(fn, src, rel, helpers, out_hashes)
    texts.append(text)
    generated.append("normalize_ic")

    def method(rel, cname, mname, inputs, lean_name, skip, extra_env=None):
        src, tree = load(rel)
        cls = T.find_class(tree, cname)
        fn = T.find_func(cls.body, mname)
        attrs = class_attr_kinds(cls, cname)
        # inherited fields of BaseRandomICGenerator
        bsrc, btree = load("ic/_base_ic.py")
        for b in cls.bases:
            bn = ast.unparse(b)
            for c in btree.body:
                if isinstance(c, ast.ClassDef) and c.name == bn:
                    for k, v in class_attr_kinds(c, bn).items():
                        attrs.setdefault(k, v)
        fields = "\n".join(ast.get_source_segment(src, m) or "" for m in cls.body if isinstance(m, ast.AnnAssign))
        out_hashes[f"{rel}::{cname}.fields"] = hashlib.sha256(fields.encode()).hexdigest()[:16]
        owner = f"{cname}.{mname}"

        class Tr(ICTr):
            pass
        Tr.draws = []
        text, tr = translate_function(fn, src, rel, dict(helpers), out_hashes, lean_name=lean_name,
                                      self_attrs=attrs, inputs=inputs, skip=skip, owner=owner,
                                      extra_kinds=extra_env, cls=Tr)
        if Tr.draws:
            text = "".join(f"-- random draw (input): {d}\n" for d in Tr.draws) + text
        externals.update(tr.externals)
        texts.append(text)
        generated.append(owner)

    grid = {"space": "grid", "D": "num_spatial_dims", "N": "num_points"}
    method("ic/_clamping.py", "ClampingICGenerator", "__call__",
           {"self.ic_gen": ("ic", ("A", "K"), None)}, "ClampingICGenerator_call", {"key", "num_points"})
    method("ic/_scaled.py", "ScaledIC", "__call__",
           {"self.ic": ("ic", ("A", "K"), None)}, "ScaledIC_call", {"x"})
    method("ic/_scaled.py", "ScaledICGenerator", "__call__",
           {"self.ic_gen": ("ic", ("A", "K"), None)}, "ScaledICGenerator_call", {"key", "num_points"})
    method("ic/_truncated_fourier_series.py", "RandomTruncatedFourierSeries", "__call__",
           {"self.white_noise": ("noise", ("A", "K"), grid)}, "RandomTruncatedFourierSeries_call", {"key"},
           extra_env={"num_points": "N"})
    check_externals(out_hashes, sorted(externals))
    tail = ("/-- the translated functions / methods of exponax/ic (in translation order); `Proofs/ICGenEq.lean` pins this list -/\n"
            "def generated_ic : List String :=\n  [" + ", ".join(q(n) for n in generated) + "]\n")
    return HEADER.format(src="exponax/ic/{_base_ic,_clamping,_scaled,_truncated_fourier_series}.py", ns="ICGen") \
        + "\n".join(texts) + "\n" + tail + "\nend Exponax.Gen.ICGen\n"



# ----------------------------------------------------------------------------
# LoopsGen
# ----------------------------------------------------------------------------
class LoopTr(ArrTr):
    """`rollout`, `repeat`, `stack_sub_trajectories`, `RepeatedStepper`: code on the leading (time) axis of an
    abstract pytree.  A pytree is ONE leaf (the harness applies the functions leaf-wise): a state is a value of
    an abstract type `S` (kind "G"), an auxiliary input of type `A` (kind "G2"), a trajectory is a `List S`.
    Boolean keyword flags that change the TYPE of the result / of an argument (`takes_aux`, `constant_aux`) are
    static: one definition per value."""

    def __init__(self, owner, helpers, flags=None, **kw):
        super().__init__(owner, helpers, **kw)
        self.flags = flags or {}
        self.closures = {}

    def static_flag(self, test):
        if isinstance(test, ast.Name) and test.id in self.flags:
            return self.flags[test.id]
        return None

    # -- expressions ---------------------------------------------------------------
    def expr(self, n):
        if isinstance(n, ast.ListComp):
            # [leaf.shape[0] for leaf in jtu.tree_leaves(t)]
            if len(n.generators) == 1 and not n.generators[0].ifs and isinstance(n.generators[0].target, ast.Name) \
                    and isinstance(n.generators[0].iter, ast.Call) \
                    and ast.unparse(n.generators[0].iter.func) == "jtu.tree_leaves" \
                    and len(n.generators[0].iter.args) == 1:
                t = self.expr(n.generators[0].iter.args[0])
                leaf = n.generators[0].target.id
                if not is_list(t):
                    raise self.err("tree_leaves of a value without a leading axis")
                if ast.unparse(n.elt) != f"{leaf}.shape[0]":
                    raise self.err(f"unsupported comprehension {ast.unparse(n)[:60]}")
                return MV(f"List.map (fun ({leaf} : {lean_ty(t.ty)}) => {leaf}.length) [{t.lean}]", ("C", "N"))
            raise self.err(f"unsupported comprehension {ast.unparse(n)[:60]}")
        return super().expr(n)

    def subscript(self, n):
        v = self.expr(n.value)
        if v.ty == ("C", "N") and isinstance(n.slice, ast.Constant) and isinstance(n.slice.value, int) \
                and n.slice.value >= 0:
            return MV(f"{v.p()}.getD {n.slice.value} 0", "N")
        return super().subscript(n)

    def axis0(self, n, npos):
        kw = self.kwargs(n, ("axis",), npos)
        if "axis" not in kw or ast.unparse(kw["axis"]) != "0":
            raise self.err(f"only axis=0 is in the vocabulary: {ast.unparse(n)[:60]}")

    def call_extra(self, n, fn):
        if fn in self.env and isinstance(self.kind_of(fn), tuple) and self.kind_of(fn)[0] == "FN":
            k = self.kind_of(fn)
            if n.keywords or len(n.args) != len(k[1]):
                raise self.err(f"unsupported call of {fn}")
            args = [self.expr(a) for a in n.args]
            for a, want in zip(args, k[1]):
                if a.ty != want:
                    raise self.err(f"argument of {fn} has kind {a.ty}, expected {want}")
            return MV(f"{fn} " + " ".join(a.p() for a in args), k[2])
        if fn == "jnp.expand_dims":
            self.axis0(n, 1)
            v = self.expr(n.args[0])
            if v.ty not in ("G", "G2"):
                raise self.err(f"expand_dims of a value of kind {v.ty}")
            return MV(f"[{v.lean}]", ("C", v.ty), atom=True)
        if fn == "jnp.repeat":
            self.axis0(n, 2)
            v = self.expr(n.args[0])
            k = self.static_nat(self.expr(n.args[1]), "number of repetitions")
            if not is_list(v):
                raise self.err("jnp.repeat along axis 0 of a value without a leading axis")
            return MV(f"List.flatMap (fun a => List.replicate {k.p()} a) {v.p()}", v.ty)
        if fn == "jnp.concatenate":
            self.axis0(n, 1)
            if not isinstance(n.args[0], (ast.List, ast.Tuple)) or len(n.args[0].elts) != 2:
                raise self.err("only the concatenation of two values is in the vocabulary")
            a, b = self.expr(n.args[0].elts[0]), self.expr(n.args[0].elts[1])
            if not (is_list(a) and a.ty == b.ty):
                raise self.err(f"concatenate of values of kinds {a.ty}, {b.ty}")
            return MV(f"{a.p()} ++ {b.p()}", a.ty)
        if fn == "jax.lax.dynamic_slice_in_dim":
            kw = self.kwargs(n, ("start_index", "slice_size", "axis"), 1)
            if set(kw) != {"start_index", "slice_size", "axis"} or ast.unparse(kw["axis"]) != "0":
                raise self.err(f"unsupported dynamic_slice_in_dim {ast.unparse(n)[:60]}")
            v = self.expr(n.args[0])
            i = self.static_nat(self.expr(kw["start_index"]), "start_index")
            sz = self.static_nat(self.expr(kw["slice_size"]), "slice_size")
            if not is_list(v):
                raise self.err("dynamic_slice_in_dim of a value without a leading axis")
            return MV(f"dynamic_slice_in_dim {v.p()} {i.p()} {sz.p()}", v.ty)
        if fn == "jtu.tree_map":
            if n.keywords or len(n.args) < 2 or not isinstance(n.args[0], ast.Lambda):
                raise self.err(f"unsupported tree_map {ast.unparse(n)[:60]}")
            lam = n.args[0]
            vals = [self.expr(a) for a in n.args[1:]]
            return self.inline(lam.args, lam.body, vals)
        if fn == "jnp.arange":
            self.kwargs(n, (), 1)
            v = self.expr(n.args[0])
            if v.ty == "N":
                return MV(f"List.range {v.p()}", ("C", "N"))
            if v.ty == "Z":
                return MV(f"List.range (Int.toNat {v.p()})", ("C", "N"))
            raise self.err("arange of a non-integer")
        if fn == "len" and len(n.args) == 1 and isinstance(n.args[0], ast.Call) \
                and ast.unparse(n.args[0].func) == "set" and len(n.args[0].args) == 1:
            v = self.expr(n.args[0].args[0])
            if v.ty != ("C", "N"):
                raise self.err("len(set(...)) of a non-integer list")
            return MV(f"{v.p()}.eraseDups.length", "N")
        # f(outer args)(inner args) for a translated closure-returning function
        if isinstance(n.func, ast.Call) and ast.unparse(n.func.func) in self.closures:
            return self.closure_call(ast.unparse(n.func.func), n.func, n)
        return None

    def closure_call(self, name, outer, inner):
        spec = self.closures[name]      # {"flags": [...], "variants": {flagtuple: Helper}}
        flags = dict(spec["defaults"])
        kws = []
        for kw in outer.keywords:
            if kw.arg in flags:
                if not (isinstance(kw.value, ast.Constant) and isinstance(kw.value.value, bool)):
                    raise self.err(f"the flag {kw.arg} of {name} must be a literal")
                flags[kw.arg] = kw.value.value
            else:
                kws.append(kw)
        key = spec["key"](flags)
        if key not in spec["variants"]:
            raise self.err(f"no variant of {name} for {flags}")
        h = spec["variants"][key]
        saved = self.fn_helpers
        self.fn_helpers = dict(saved)
        self.fn_helpers["__closure"] = h
        try:
            if inner.keywords:
                raise self.err("keyword arguments in the application of a closure")
            vals = [self.fn_value(a) for a in outer.args] + [self.expr(a) for a in inner.args]
            return self.helper_call("__closure", vals, kws)
        finally:
            self.fn_helpers = saved

    def fn_value(self, node):
        """an argument that may be a function (a method of an attribute: an input function)"""
        key = ast.unparse(node)
        if key in self.inputs:
            pname, kind, meta = self.inputs[key]
            if pname not in [p for p, _ in self.input_params]:
                self.input_params.append((pname, kind))
                self.env[pname] = kind
            return MV(pname, kind, atom=True)
        return self.expr(node)

    # -- statements ------------------------------------------------------------------
    def scan_lambda(self, fname, ckind, xkind):
        f = self.local_funcs.get(fname)
        if f is None:
            raise self.err(f"scan: {fname} is not a local function")
        names = [a.arg for a in f.args.args]
        if len(names) != 2:
            raise self.err("scan: the body must take (carry, x)")
        ren = {"_": "c_" if names[0] == "_" else "x_"}
        lean_names = [ren["_"] if nm == "_" else nm for nm in names]
        saved_env, saved_lines, saved_f = dict(self.env), self.lines, self.fallible
        self.lines, self.fallible = [], False
        try:
            for nm, ln, k in zip(names, lean_names, (ckind, xkind)):
                self.env[nm] = MV(ln, k, atom=True) if k not in ("K", "N", "Z", "B") or ln != nm else k
            res = None
            body = [s for s in f.body if not is_docstring(s)]
            for i, s in enumerate(body):
                if isinstance(s, ast.Return):
                    if i != len(body) - 1 or not (isinstance(s.value, ast.Tuple) and len(s.value.elts) == 2):
                        raise self.err("scan: the body must end in `return (carry, y)`")
                    c = self.expr(s.value.elts[0])
                    y = self.expr(s.value.elts[1])
                    if y.ty == "NONE":
                        y = MV("()", "U", atom=True)
                    if c.ty == "NONE":
                        c = MV("()", "U", atom=True)
                    res = (c, y)
                    break
                self.stmt_in_block(s, body[i + 1:], set())
            if res is None:
                raise self.err("scan: the body does not return")
            if self.fallible:
                raise self.err("scan: a body that can raise is outside the vocabulary")
            lines = self.lines
        finally:
            self.env, self.lines, self.fallible = saved_env, saved_lines, saved_f
        c, y = res
        if c.ty != ckind:
            raise self.err(f"scan: the carry changes its kind ({ckind} → {c.ty})")
        binder = f"({lean_names[0]} : {lean_ty(ckind)}) ({lean_names[1]} : {lean_ty(xkind)})"
        tail = f"({c.lean}, {y.lean})"
        if lines:
            text = f"(fun {binder} =>\n" + "\n".join(indent(lines + [tail + ")"], 4))
        else:
            text = f"(fun {binder} => {tail})"
        return text, y.ty

    def assign_extra(self, s, t):
        val = s.value
        if isinstance(val, ast.Call) and ast.unparse(val.func) == "jax.lax.scan":
            if not (isinstance(t, ast.Tuple) and len(t.elts) == 2 and all(isinstance(e, ast.Name) for e in t.elts)):
                raise self.err("scan: the result must be unpacked into (carry, ys)")
            kw = self.kwargs(val, ("length",), 3)
            if not isinstance(val.args[0], ast.Name):
                raise self.err("scan: the body must be a local function")
            init = self.expr(val.args[1])
            if init.ty == "NONE":
                init = MV("()", "U", atom=True)
            xs = self.expr(val.args[2])
            length = self.static_nat(self.expr(kw["length"]), "length") if "length" in kw else None
            if xs.ty == "NONE":
                if length is None:
                    raise self.err("scan without xs and without length")
                xs = MV(f"List.replicate {length.p()} ()", ("C", "U"))
                length = None       # the length is the length of xs by construction
            if not is_list(xs):
                raise self.err(f"scan over a value without a leading axis ({xs.ty})")
            lam, ykind = self.scan_lambda(val.args[0].id, init.ty, xs.ty[1])
            r = self.fresh("r")
            if length is None:
                self.emit(f"let {r} := lax_scan {lam} {init.p()} {xs.p()}")
            else:
                self.emit(f"(lax_scan_length {lam} {init.p()} {xs.p()} {length.p()}).bind fun {r} =>")
                self.guards.append(f"raise ValueError if the leading axis of {ast.unparse(val.args[2])} is not {length.lean} "
                                   f"(jax.lax.scan, length=)")
                self.fallible = True
            for e, proj, k in ((t.elts[0], "1", init.ty), (t.elts[1], "2", ("C", ykind))):
                if e.id != "_":
                    self.emit(f"let {e.id} := {r}.{proj}")
                    self.set_env(e.id, k)
            return True
        return False

    def fn_body(self, stmts):
        """statements ending in `return` (or in an if/else whose branches return); static flags are resolved.
        returns (lines, result text, kind, fallible)"""
        saved_lines, saved_f = self.lines, self.fallible
        self.lines, self.fallible = [], False
        try:
            stmts = [s for s in stmts if not is_docstring(s)]
            i = 0
            while i < len(stmts):
                s = stmts[i]
                rest = stmts[i + 1:]
                if isinstance(s, ast.If) and self.static_flag(s.test) is not None:
                    chosen = s.body if self.static_flag(s.test) else s.orelse
                    stmts = stmts[:i] + list(chosen) + rest
                    continue
                if isinstance(s, ast.Return):
                    if rest:
                        raise self.err("statements after return")
                    v = self.settle(self.expr(s.value))
                    text = self.val(v)
                    if self.fallible:
                        text = f"some {P(text)}"
                    return self.lines + split_lines(text), v.ty, self.fallible
                if isinstance(s, ast.If) and s.body and s.orelse and isinstance(s.body[-1], ast.Return) \
                        and isinstance(s.orelse[-1], ast.Return):
                    if rest:
                        raise self.err("statements after a returning if/else")
                    c = self.cond(s.test)
                    env0 = dict(self.env)
                    tl, tk, tf = self.fn_body(s.body)
                    self.env = dict(env0)
                    el, ek, ef = self.fn_body(s.orelse)
                    self.env = env0
                    if tk != ek:
                        raise self.err(f"the branches return different kinds ({tk} / {ek})")
                    if tf != ef or tf:
                        raise self.err("a returning branch that can raise is outside the vocabulary")
                    out = self.lines + [f"if {c} then"] + indent(tl, 2) + ["else"] + indent(el, 2)
                    if self.fallible:
                        out = self.lines + [f"some (if {c} then"] + indent(tl, 4) + ["  else"] + indent(el[:-1] + [el[-1] + ")"], 4)
                    return out, tk, self.fallible
                self.stmt_in_block(s, rest, set())
                i += 1
            raise self.err("the function does not end in return")
        finally:
            self.lines, self.fallible = saved_lines, saved_f


def render_loop_def(name, tr, tparams, params, lines, kind, fallible, comments):
    ret = lean_ty(kind)
    if fallible:
        ret = f"Option {P(ret)}"
    binders = " ".join(f"({pn} : {lean_ty(pk)})" for pn, pk in params)
    head = " ".join(f"def {name} {tparams} {inst_binders(tr.used)} {binders} : {ret} :=".split())
    return "".join(f"-- {c}\n" for c in comments) + head + "\n" + "\n".join(indent(lines, 2)) + "\n"


def translate_loops(out_hashes):
    texts = []
    generated = []
    rel = "_utils.py"
    src = open(os.path.join(T.REPO, "exponax", rel)).read()
    tree = ast.parse(src)
    closures = {}

    def closure_fn(pyname, variants):
        """a function `f(stepper_fn, n, *, flags…)` that returns a local closure"""
        fn = T.find_func(tree.body, pyname)
        out_hashes[f"{rel}::{pyname}"] = T.src_hash(fn, src)
        params = fn_params(fn, pyname)
        names = [p[0] for p in params]
        if names[:2] != ["stepper_fn", "n"]:
            raise TranslateError(f"{pyname}: unexpected positional parameters {names[:2]}")
        flagnames = names[2:]
        defaults = {}
        for pn, ann, d, kwonly in params[2:]:
            if not (kwonly and ast.unparse(ann) == "bool" and isinstance(d, ast.Constant) and isinstance(d.value, bool)):
                raise TranslateError(f"{pyname}: {pn} is not a keyword-only boolean flag with a literal default")
            defaults[pn] = d.value
        spec = {"defaults": defaults, "variants": {}, "key": None}
        static = [f for f in ("takes_aux", "constant_aux") if f in flagnames]
        dynamic = [f for f in flagnames if f not in static]

        def key(flags):
            if "takes_aux" in flags and not flags["takes_aux"]:
                return ("noaux",)
            return ("aux", "constant" if flags.get("constant_aux", True) else "sequence")
        spec["key"] = key
        for suffix, flags, auxkind in variants:
            owner = f"{pyname}[{', '.join(f'{k}={v}' for k, v in flags.items())}]"
            tr = LoopTr(owner, {}, flags=flags)
            tr.externals = set()
            fnk = ("FN", ["G"] + (["G2"] if flags.get("takes_aux") else []), "G")
            tr.env["stepper_fn"] = fnk
            tr.env["n"] = "N"
            for f in dynamic:
                tr.env[f] = "B"
            # the outer body: local definitions and `return <closure>` under the static flags
            stmts = [s for s in fn.body if not is_docstring(s)]
            i = 0
            closure = None
            while i < len(stmts):
                s = stmts[i]
                if isinstance(s, ast.If) and tr.static_flag(s.test) is not None:
                    stmts = stmts[:i] + list(s.body if tr.static_flag(s.test) else s.orelse) + stmts[i + 1:]
                    continue
                if isinstance(s, ast.FunctionDef):
                    tr.local_funcs[s.name] = s
                elif isinstance(s, ast.Return) and isinstance(s.value, ast.Name) and s.value.id in tr.local_funcs:
                    closure = tr.local_funcs[s.value.id]
                else:
                    raise TranslateError(f"{owner}: unsupported statement {ast.unparse(s)[:60]}")
                i += 1
            if closure is None:
                raise TranslateError(f"{owner}: no closure is returned")
            cparams = [a.arg for a in closure.args.args]
            want = ["u_0"] + (["aux"] if flags.get("takes_aux") else [])
            if cparams != want:
                raise TranslateError(f"{owner}: the closure takes {cparams}, expected {want}")
            tr.env["u_0"] = "G"
            if auxkind:
                tr.set_env("aux", auxkind)
            lines, kind, fallible = tr.fn_body(closure.body)
            lname = f"{pyname}_{suffix}"
            plist = [("stepper_fn", fnk), ("n", "N")] + [(f, "B") for f in dynamic] + [("u_0", "G")] \
                + ([("aux", auxkind)] if auxkind else [])
            tparams = "{S A : Type}" if auxkind else "{S : Type}"
            comments = [f"{owner}  (exponax/{rel}): the closure `{closure.name}` applied to its arguments"]
            comments += [f"guard (→ none): {g}" for g in tr.guards]
            texts.append(render_loop_def(lname, tr, tparams, plist, lines, kind, fallible, comments))
            generated.append(lname)
            h = Helper(lname, [(pn, pk, None, False) for pn, pk in plist[:2]]
                       + [(f, "B", ast.Constant(defaults[f]), True) for f in dynamic]
                       + [(pn, pk, None, False) for pn, pk in plist[2 + len(dynamic):]], kind, fallible, set(), False)
            spec["variants"][key(flags)] = h
        closures[pyname] = spec

    closure_fn("rollout", [("noaux", {"takes_aux": False}, None),
                           ("aux_constant", {"takes_aux": True, "constant_aux": True}, "G2"),
                           ("aux_sequence", {"takes_aux": True, "constant_aux": False}, ("C", "G2"))])
    closure_fn("repeat", [("noaux", {"takes_aux": False}, None),
                          ("aux_constant", {"takes_aux": True, "constant_aux": True}, "G2"),
                          ("aux_sequence", {"takes_aux": True, "constant_aux": False}, ("C", "G2"))])

    # stack_sub_trajectories
    fn = T.find_func(tree.body, "stack_sub_trajectories")
    out_hashes[f"{rel}::stack_sub_trajectories"] = T.src_hash(fn, src)
    if [p[0] for p in fn_params(fn, fn.name)] != ["trj", "sub_len"]:
        raise TranslateError("stack_sub_trajectories: unexpected parameters")
    tr = LoopTr("stack_sub_trajectories", {})
    tr.externals = set()
    tr.set_env("trj", ("C", "G"))
    tr.env["sub_len"] = "N"
    lines, kind, fallible = tr.fn_body(fn.body)
    comments = ["stack_sub_trajectories  (exponax/_utils.py); the pytree `trj` is one leaf with the time axis first"]
    comments += [f"guard (→ none): {g}" for g in tr.guards]
    texts.append(render_loop_def("stack_sub_trajectories", tr, "{S : Type}", [("trj", ("C", "G")), ("sub_len", "N")],
                                 lines, kind, fallible, comments))
    generated.append("stack_sub_trajectories")

    # RepeatedStepper
    rel2 = "_repeated_stepper.py"
    src2 = open(os.path.join(T.REPO, "exponax", rel2)).read()
    tree2 = ast.parse(src2)
    cls = T.find_class(tree2, "RepeatedStepper")
    attrs = class_attr_kinds(cls, "RepeatedStepper")
    fields = "\n".join(ast.get_source_segment(src2, m) or "" for m in cls.body if isinstance(m, ast.AnnAssign))
    out_hashes[f"{rel2}::RepeatedStepper.fields"] = hashlib.sha256(fields.encode()).hexdigest()[:16]
    # step_fourier
    fn = T.find_func(cls.body, "step_fourier")
    out_hashes[f"{rel2}::RepeatedStepper.step_fourier"] = T.src_hash(fn, src2)
    tr = LoopTr("RepeatedStepper.step_fourier", {}, self_attrs=attrs,
                inputs={"self.stepper.step_fourier": ("step_fourier", ("FN", ["G"], "G"), None)})
    tr.externals = set()
    tr.closures = closures
    if [a.arg for a in fn.args.args] != ["self", "u_hat"]:
        raise TranslateError("RepeatedStepper.step_fourier: unexpected parameters")
    tr.env["u_hat"] = "G"
    lines, kind, fallible = tr.fn_body(fn.body)
    plist = [(a, k) for a, k in tr.attr_params] + [(pn, pk) for pn, pk in tr.input_params] + [("u_hat", "G")]
    comments = ["RepeatedStepper.step_fourier  (exponax/_repeated_stepper.py); `self.stepper.step_fourier` is an input"]
    texts.append(render_loop_def("RepeatedStepper_step_fourier", tr, "{S : Type}", plist, lines, kind, fallible, comments))
    generated.append("RepeatedStepper_step_fourier")
    # dt of __init__
    init = T.find_func(cls.body, "__init__")
    out_hashes[f"{rel2}::RepeatedStepper.__init__"] = T.src_hash(init, src2)
    dts = [s for s in init.body if isinstance(s, ast.Assign) and ast.unparse(s.targets[0]) == "self.dt"]
    if len(dts) != 1:
        raise TranslateError("RepeatedStepper.__init__: self.dt is not assigned exactly once")
    tr = ArrTr("RepeatedStepper.__init__", {})
    tr.env["num_sub_steps"] = "N"

    class StepperDt(ast.NodeTransformer):
        def visit_Attribute(self, node):
            if ast.unparse(node) == "stepper.dt":
                return ast.Name(id="dt", ctx=ast.Load())
            return self.generic_visit(node)
    tr.env["dt"] = "K"
    tr.lines = []
    v = tr.toK(tr.expr(StepperDt().visit(dts[0].value)))
    texts.append("-- RepeatedStepper.__init__  (exponax/_repeated_stepper.py): self.dt, with dt = stepper.dt\n"
                 + " ".join(f"def RepeatedStepper_dt {{K : Type}} {inst_binders(tr.used)} (dt : K) (num_sub_steps : Nat) : K :=".split())
                 + f"\n  {v.lean}\n")
    generated.append("RepeatedStepper_dt")
    tail = ("/-- the regenerated definitions (in translation order); `Proofs/LoopsGenEq.lean` pins this list -/\n"
            "def generated_loops : List String :=\n  [" + ", ".join(q(n) for n in generated) + "]\n")
    return HEADER.format(src="exponax/_utils.py (rollout, repeat, stack_sub_trajectories), exponax/_repeated_stepper.py",
                         ns="LoopsGen") + "\n".join(texts) + "\n" + tail + "\nend Exponax.Gen.LoopsGen\n"


# ----------------------------------------------------------------------------
# targets
# ----------------------------------------------------------------------------
PRELUDE = '''/- GENERATED by harness/translate_metrics.py (static text) — do not edit.
   Interpretation of the `jnp` / `jax.lax` primitives and of the `exponax/_spectral.py` functions that the
   regenerated definitions of MetricsGen / ICGen / LoopsGen call.  The `_spectral` functions are NOT translated
   here (they are the boundary of this translator): they are interpreted by their counterparts of
   `Model/Layout.lean`, `Model/Transform.lean`; the translator checks their signatures (names, defaults) and
   records their source hashes.  Mathlib-free. -/
import ExponaxModel.Model.Ops
import ExponaxModel.Model.Layout
import ExponaxModel.Model.Transform
set_option linter.unusedVariables false
namespace Exponax.Gen.Prelude
open Exponax.Layout Exponax.Transform

/-- `z ** w` for a complex base and a real exponent (`jnp.power` on a complex array): principal branch,
    `0 ** w = 0` for `w ≠ 0`, `0 ** 0 = 1` -/
class HasCpow (K : Type) where cpow : K → K → K

section
variable {K : Type} [Add K] [Sub K] [Mul K] [Div K] [Neg K] [Zero K] [One K] [NatCast K] [IntCast K]

/-! ### `exponax/_spectral.py` (interpreted, not translated) -/

/-- `fft(field, num_spatial_dims=D)` of one channel of shape `(N,)*D` (flat, C order) -/
def ext_fft [HasExp K] [HasI K] [HasPi K] (D N : Nat) (field : Array K) : Array K := rfftnM D N field

/-- `ifft(field_hat, num_spatial_dims=D, num_points=N)` of one channel -/
def ext_ifft [HasExp K] [HasI K] [HasPi K] [HasRe K] (D N : Nat) (field_hat : Array K) : Array K :=
  irfftnM D N field_hat

/-- `low_pass_filter_mask(D, N, cutoff=c, axis_separate=b)` (one channel, flat over the stored modes) -/
def ext_low_pass_filter_mask (D N : Nat) (cutoff : Int) (axis_separate : Bool) : Array Bool :=
  tab (numModes D N) (fun h =>
    if axis_separate then lowPassSep (wnFlat D N h) cutoff 1 else lowPassSphere (wnFlat D N h) cutoff)

/-- `build_derivative_operator(D, L, N)`: `1j * (2π/L) * k_d`, one array per axis `d` -/
def ext_build_derivative_operator [HasI K] [HasPi K] (D : Nat) (L : K) (N : Nat) : List (Array K) :=
  (List.range D).map (fun d => tab (numModes D N) (fun h =>
    HasI.I * ((lit 2 * HasPi.pi / L) * (IntCast.intCast ((wnFlat D N h).getD d 0) : K))))

/-- the `mode` strings of `build_scaling_array` as the codes of `Layout.scaling` -/
def scaling_mode_code (mode : String) : Nat :=
  if mode = "norm_compensation" then 0 else if mode = "reconstruction" then 1 else 2

/-- `build_scaling_array(D, N, mode=…)` (one channel, flat over the stored modes) -/
def ext_build_scaling_array (D N : Nat) (mode : String) : Array K :=
  tab (numModes D N) (fun h => scaling D N (scaling_mode_code mode) (unflatten (wavenumberShape D N) h))

/-! ### `jnp` reductions of a flat real array -/

/-- `jnp.mean(x)` -/
def jnp_mean (x : Array K) : K := sumRange x.size (fun j => x.getD j 0) / lit x.size

/-- `jnp.std(x)` of a real array (population standard deviation: `sqrt(mean((x - mean(x))²))`) -/
def jnp_std [HasSqrt K] (x : Array K) : K :=
  let m := jnp_mean x
  HasSqrt.sqrt (sumRange x.size (fun j => (x.getD j 0 - m) * (x.getD j 0 - m)) / lit x.size)

/-- `jnp.max(x)` -/
def jnp_max [HasLtB K] (x : Array K) : K :=
  x.toList.foldl (fun acc a => if HasLtB.ltb acc a then a else acc) (x.getD 0 0)

/-- `jnp.min(x)` -/
def jnp_min [HasLtB K] (x : Array K) : K :=
  x.toList.foldl (fun acc a => if HasLtB.ltb a acc then a else acc) (x.getD 0 0)

/-- `jnp.linalg.norm(x)` of a real array of any rank (flattened 2-norm) -/
def jnp_linalg_norm [HasSqrt K] (x : Array K) : K :=
  HasSqrt.sqrt (sumRange x.size (fun j => x.getD j 0 * x.getD j 0))

/-- `jnp.mean` of a list of per-channel values -/
def jnp_mean_list (x : List K) : K := sumList x / lit x.length

end

/-! ### `jax.lax` -/

/-- `jax.lax.scan(f, init, xs)`: final carry and the list of the per-step outputs -/
def lax_scan {C X Y : Type} (f : C → X → C × Y) : C → List X → C × List Y
  | c, [] => (c, [])
  | c, x :: xs =>
    let r := f c x
    let rest := lax_scan f r.1 xs
    (rest.1, r.2 :: rest.2)

/-- `jax.lax.scan(f, init, xs, length=n)`: `none` = ValueError (the leading axis of `xs` must have length `n`) -/
def lax_scan_length {C X Y : Type} (f : C → X → C × Y) (init : C) (xs : List X) (n : Nat) : Option (C × List Y) :=
  if xs.length = n then some (lax_scan f init xs) else none

/-- `jax.lax.dynamic_slice_in_dim(x, start_index=i, slice_size=s, axis=0)`: the start index is clamped so that
    the window fits -/
def dynamic_slice_in_dim {S : Type} (x : List S) (i s : Nat) : List S :=
  (x.drop (min i (x.length - s))).take s

end Exponax.Gen.Prelude
'''


def prelude_text(out_hashes):
    return PRELUDE


TARGETS = {
    "GenPrelude": prelude_text,
    "MetricsGen": translate_metrics,
    "ICGen": translate_ic,
    "LoopsGen": translate_loops,
}


def run(targets=None):
    os.makedirs(T.GEN_DIR, exist_ok=True)
    res = {}
    hashes = {}
    for name, fn in TARGETS.items():
        if targets and name not in targets:
            continue
        try:
            text = fn(hashes)
            changed = T.write_if_changed(os.path.join(T.GEN_DIR, name + ".lean"), text)
            res[name] = {"ok": True, "error": None, "changed": changed}
        except (TranslateError, SyntaxError, FileNotFoundError) as e:   # broken obligation
            res[name] = {"ok": False, "error": f"{type(e).__name__}: {e}", "changed": False}
    T.write_if_changed(os.path.join(T.GEN_DIR, "hashes_metrics.json"), json.dumps(hashes, indent=1, sort_keys=True) + "\n")
    return res, hashes


if __name__ == "__main__":
    r, h = run(sys.argv[1:] or None)
    print(json.dumps(r, indent=1))
    sys.exit(0 if all(v["ok"] for v in r.values()) else 3)
