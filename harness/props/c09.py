"""C09 — conserved quantities and equilibria survive the discretisation exactly."""
from __future__ import annotations

import numpy as np

from . import stepcorr
from . import steppers as S

MEAN_LINEAR = ["Advection", "Diffusion", "AdvectionDiffusion", "Dispersion", "HyperDiffusion"]


def mean_cases(rng, D, N, order):
    """(label, stepper) pairs whose documented PDE is in conservation form"""
    import exponax as ex
    st, rea = ex.stepper, ex.stepper.reaction
    R = S.registry()
    out = []
    for nm in MEAN_LINEAR:
        sp = R[nm](rng, D, N, 0)
        out.append((nm, sp.build(), 1))
    L = float(rng.uniform(1, 6))
    dt = float(10 ** rng.uniform(-2.5, -0.5))
    b, nu = float(rng.uniform(-1.5, 1.5)), float(rng.uniform(0.01, 0.2))
    forms = [("conservative", dict(conservative=True, single_channel=False), D), ("single", dict(single_channel=True, conservative=True), 1)]
    if D == 1:
        forms.append(("1d-nonconservative", dict(conservative=False), 1))
    for lab, kw, C in forms:
        out.append((f"Burgers[{lab}]", st.Burgers(D, L, N, dt, diffusivity=nu, convection_scale=b, order=order, **kw), C))
        out.append((f"KortewegDeVries[{lab}]", st.KortewegDeVries(D, L * 3, N, dt, convection_scale=b, order=order, **kw), C))
        out.append((f"KuramotoSivashinskyConservative[{lab}]",
                    st.KuramotoSivashinskyConservative(D, L * 6, N, dt, convection_scale=b, order=order, **kw), C))
    out.append(("KuramotoSivashinsky", st.KuramotoSivashinsky(D, L * 6, N, dt, order=order), 1))
    out.append(("CahnHilliard", rea.CahnHilliard(D, L, N, dt, order=order), 1))
    if D == 2:
        out.append(("NavierStokesVorticity", st.NavierStokesVorticity(2, L, N, dt, diffusivity=nu, vorticity_convection_scale=(b if abs(b) > 0.1 else 1.7), order=order), 1))
    if D == 3:
        out.append(("NavierStokesVelocity", st.NavierStokesVelocity(3, L, N, dt, diffusivity=nu, order=order), 3))
    return out


def correspondence(ctx):
    # every listed stepper against the model on arbitrary (white-noise) states: the model's mean is what the theorems
    # speak about
    names = MEAN_LINEAR + ["Burgers", "KortewegDeVries", "KuramotoSivashinskyConservative", "KuramotoSivashinsky",
                           "CahnHilliard", "NavierStokesVorticity", "NavierStokesVelocity", "FisherKPP", "AllenCahn",
                           "GrayScott", "SwiftHohenberg"]
    stepcorr.sweep(ctx, names, orders_for=lambda nm: [0] if nm in S.LINEAR else [1, 2, 3, 4],
                   trials=1 if ctx.tier == "quick" else 4, kinds=("noise", "smooth"))
    ctx.sample({"steppers": names})


def probe_mean(D, N, order, seed, steps=2):
    import jax.numpy as jnp
    rng = np.random.default_rng(seed)
    bad = []
    for label, st, C in mean_cases(rng, D, N, order):
        u = rng.normal(size=(C,) + (N,) * D) + rng.normal(size=(C,) + (1,) * D)
        if label == "NavierStokesVelocity":
            # incompressible contract: mean(u x curl u) = mean(u div u) vanishes only for divergence-free velocity
            from exponax import spectral as _sp
            u = np.asarray(_sp.make_incompressible(jnp.asarray(u)))
        m0 = u.reshape(C, -1).mean(axis=1)
        cur = jnp.asarray(u)
        for _ in range(steps):
            cur = st(cur)
        arr = np.asarray(cur)
        if not np.all(np.isfinite(arr)):
            continue  # blow-up of an unstable random configuration is not a statement about the mean
        m1 = arr.reshape(C, -1).mean(axis=1)
        sc = float(np.max(np.abs(arr))) + float(np.max(np.abs(u)))
        if np.max(np.abs(m1 - m0)) > 1e-10 * sc:
            bad.append({"stepper": label, "drift": float(np.max(np.abs(m1 - m0))), "scale": sc})
    return {"ok": not bad, "bad": bad}


def _band_state(rng, C, D, N, frac=2 / 3, orszag=False):
    kmax = max(int(np.floor(frac * (N // 2) - 1)), 0)
    if orszag:
        kmax = N // 3     # the textbook 2/3-rule band |k| <= N/3 (one mode wider than the retained band when 6 | N)
    from .c15 import bandlimited
    u, _ = bandlimited(rng, C, D, N, kmax)
    return u


def probe_no_work(D, N, seed, orszag=False):
    """<u, N(u)> = 0 on band-limited states for the convective terms (band: the retained modes of the 2/3 rule, or —
    `orszag` — every |k_i| <= N/3)"""
    import jax.numpy as jnp
    from exponax import nonlin_fun as nf
    from exponax import spectral as sp
    rng = np.random.default_rng(seed)
    L = 2.1
    dop = sp.build_derivative_operator(D, L, N)
    res = {}

    def inner(a, b):
        return float(np.sum(a * b))
    u = _band_state(rng, D, D, N, orszag=orszag)
    for cons in (True, False):
        if not cons and D > 1:
            continue   # u·∇u does no work only for divergence-free u in D > 1
        f = nf.ConvectionNonlinearFun(D, N, derivative_operator=dop, scale=1.3, conservative=cons)
        nl = np.asarray(sp.ifft(f(sp.fft(jnp.asarray(u))), num_spatial_dims=D, num_points=N))
        if D == 1:
            res[f"burgers_energy(conservative={cons})"] = abs(inner(u, nl)) / (np.sum(u * u) ** 1.5 + 1e-12)
    if D == 1:
        us = _band_state(rng, 1, 1, N, orszag=orszag)
        f = nf.ConvectionNonlinearFun(1, N, derivative_operator=dop, scale=0.7, single_channel=True, conservative=True)
        nl = np.asarray(sp.ifft(f(sp.fft(jnp.asarray(us))), num_spatial_dims=1, num_points=N))
        res["single_channel_energy"] = abs(inner(us, nl)) / (np.sum(us * us) ** 1.5 + 1e-12)
    if D == 2:
        w = _band_state(rng, 1, 2, N, orszag=orszag)
        w = w - w.mean()
        f = nf.VorticityConvection2d(2, N, convection_scale=float(rng.choice([1.0, -2.0, 0.5, 3.0])), derivative_operator=dop, dealiasing_fraction=2 / 3)
        wh = sp.fft(jnp.asarray(w))
        nl = np.asarray(sp.ifft(f(wh), num_spatial_dims=2, num_points=N))
        lap = np.asarray(sp.build_laplace_operator(dop))
        inv = np.where(lap == 0, 0.0, 1 / np.where(lap == 0, 1, lap))
        psi = np.asarray(sp.ifft(jnp.asarray(inv * np.asarray(wh)), num_spatial_dims=2, num_points=N))
        sc = np.sum(w * w) ** 1.5 + 1e-12
        res["vorticity_enstrophy"] = abs(inner(w, nl)) / sc
        res["vorticity_energy"] = abs(inner(psi, nl)) / sc
    if D == 3:
        v = np.asarray(sp.make_incompressible(jnp.asarray(_band_state(rng, 3, 3, N, orszag=orszag))))
        f = nf.ProjectedConvection3d(3, N, derivative_operator=dop, dealiasing_fraction=2 / 3)
        nl = np.asarray(sp.ifft(f(sp.fft(jnp.asarray(v))), num_spatial_dims=3, num_points=N))
        res["rotational_energy"] = abs(inner(v, nl)) / (np.sum(v * v) ** 1.5 + 1e-12)
    bad = {k: x for k, x in res.items() if x > 1e-10}
    return {"ok": not bad, "bad": bad, "all": res}


def _gs_steady(f, k, sgn):
    u = (1 + sgn * np.sqrt(1 - 4 * (f + k) ** 2 / f)) / 2
    return [float(u), float(f * (1 - u) / (f + k))]


def probe_fixed_points(D, N, order, seed):
    import jax.numpy as jnp
    import exponax as ex
    st, rea = ex.stepper, ex.stepper.reaction
    rng = np.random.default_rng(seed)
    L, dt = 3.0, 0.1
    r, c1, c3 = 1.3, 0.8, -1.7
    cases = [
        ("FisherKPP:u=1", rea.FisherKPP(D, L, N, dt, reactivity=r, order=order), [1.0]),
        ("FisherKPP:u=0", rea.FisherKPP(D, L, N, dt, reactivity=r, order=order), [0.0]),
        ("AllenCahn:u=sqrt(-c1/c3)", rea.AllenCahn(D, L, N, dt, first_order_coefficient=c1, third_order_coefficient=c3, order=order), [np.sqrt(-c1 / c3)]),
        ("AllenCahn:u=-sqrt(-c1/c3)", rea.AllenCahn(D, L, N, dt, first_order_coefficient=c1, third_order_coefficient=c3, order=order), [-np.sqrt(-c1 / c3)]),
        ("GrayScott:(1,0)", rea.GrayScott(D, L, N, dt, order=order), [1.0, 0.0]),
        # documented reaction f(1-u) - u v^2, -(f+k) v + u v^2: non-trivial homogeneous steady states for 4(f+k)^2 <= f
        ("GrayScott(f=0.03,k=0.05):nontrivial+", rea.GrayScott(D, L, N, dt, feed_rate=0.03, kill_rate=0.05, order=order),
         _gs_steady(0.03, 0.05, +1)),
        ("GrayScott(f=0.05,k=0.05):nontrivial-", rea.GrayScott(D, L, N, dt, feed_rate=0.05, kill_rate=0.05, order=order),
         _gs_steady(0.05, 0.05, -1)),
        ("CahnHilliard:u=0.37", rea.CahnHilliard(D, L, N, dt, order=order), [0.37]),
        ("SwiftHohenberg:u=0", rea.SwiftHohenberg(D, L * 4, N, dt, order=order), [0.0]),
        # documented equation u_t = r u − (k + Δ)² u + u² − u³: constant equilibria solve (r − k²) u + u² − u³ = 0
        ("SwiftHohenberg(r=0.7,k=0.5):u+", rea.SwiftHohenberg(D, L * 4, N, dt, reactivity=0.7, critical_number=0.5, order=order),
         [(1 + np.sqrt(1 + 4 * (0.7 - 0.25))) / 2]),
        ("SwiftHohenberg(r=0.7,k=0.5):u-", rea.SwiftHohenberg(D, L * 4, N, dt, reactivity=0.7, critical_number=0.5, order=order),
         [(1 - np.sqrt(1 + 4 * (0.7 - 0.25))) / 2]),
        ("SwiftHohenberg(r=0.3,k=1.4):u=0", rea.SwiftHohenberg(D, L * 4, N, dt, reactivity=0.3, critical_number=1.4, order=order), [0.0]),
        ("FisherKPP(r=0.6):u=1", rea.FisherKPP(D, L, N, dt, reactivity=0.6, diffusivity=0.03, order=order), [1.0]),
        ("AllenCahn(c1=1.5,c3=-0.5):u=sqrt3", rea.AllenCahn(D, L, N, dt, first_order_coefficient=1.5, third_order_coefficient=-0.5, order=order), [np.sqrt(3.0)]),
        # growth*dt EXACTLY +-1 on the mean mode (a contour of radius 1 around it passes closest to the removable
        # singularity of the phi functions): the equilibria are fixed points like anywhere else
        ("FisherKPP(r*dt=1):u=1", rea.FisherKPP(D, L, N, dt, reactivity=1.0 / dt, order=order), [1.0]),
        ("FisherKPP(r*dt=-1):u=1", rea.FisherKPP(D, L, N, dt, reactivity=-1.0 / dt, order=order), [1.0]),
        ("AllenCahn(c1*dt=1):u=sqrt(-c1/c3)", rea.AllenCahn(D, L, N, dt, first_order_coefficient=1.0 / dt, third_order_coefficient=-4.0, order=order), [np.sqrt(1.0 / dt / 4.0)]),
        ("AllenCahn(c1*dt=-1):u=sqrt(-c1/c3)", rea.AllenCahn(D, L, N, dt, first_order_coefficient=-1.0 / dt, third_order_coefficient=4.0, order=order), [-np.sqrt(1.0 / dt / 4.0)]),
        ("Burgers:const", st.Burgers(D, L, N, dt, order=order), list(rng.normal(size=D))),
        ("KuramotoSivashinsky:const", st.KuramotoSivashinsky(D, L * 6, N, dt, order=order), [0.6]),
        ("KortewegDeVries:const", st.KortewegDeVries(D, L * 3, N, dt, order=order), list(rng.normal(size=D))),
    ]
    bad = []
    for label, stp, vals in cases:
        u = np.stack([np.full((N,) * D, v) for v in vals])
        cur = jnp.asarray(u)
        for _ in range(3):
            cur = stp(cur)
        err = float(np.max(np.abs(np.asarray(cur) - u)))
        if not err <= 1e-10 * (1 + float(np.max(np.abs(u)))):
            bad.append({"case": label, "err": err})
    return {"ok": not bad, "bad": bad}


def oracle(ctx, deep):
    fails = []
    cases = [(1, 12, 2), (2, 7, 3), (3, 6, 4)] if not deep else \
        [(1, n, o) for n in (8, 9, 12, 13) for o in (1, 2, 3, 4)] + [(2, n, o) for n in (6, 7, 9) for o in (1, 2, 3, 4)] + [(3, 5, 2), (3, 6, 4)]
    for (D, N, order) in cases:
        r = probe_mean(D, N, order, ctx.seed)
        ctx.count(("oracle_mean", D, N, order))
        for b in r["bad"]:
            fails.append({"key": f"C09:mean:{b['stepper']}", "what": f"{b['stepper']} changes the spatial mean (D={D}, N={N}, order={order}): drift {b['drift']:.2e}",
                          "probe": "mean", "args": {"D": D, "N": N, "order": order, "seed": ctx.seed}, "observed": r})
        r = probe_fixed_points(D, N, order, ctx.seed)
        ctx.count(("oracle_fixed", D, N, order))
        for b in r["bad"]:
            fails.append({"key": f"C09:fixed-point:{b['case']}", "what": f"constant equilibrium {b['case']} is not a fixed point (D={D}, N={N}, order={order}): {b['err']:.2e}",
                          "probe": "fixed_points", "args": {"D": D, "N": N, "order": order, "seed": ctx.seed}, "observed": r})
    # both readings of "band-limited": the modes the 2/3 rule retains, and the textbook band |k_i| <= N/3 (they differ
    # when 6 | N: there the band edge N/3 is exactly where a product of two edge modes aliases back onto the edge)
    for (D, N) in ([(1, 15), (1, 12), (1, 18), (2, 9), (2, 12), (3, 6)] if not deep else
                   [(1, n) for n in range(9, 31)] + [(2, n) for n in (6, 7, 9, 12, 18)] + [(3, 6), (3, 7)]):
        for orszag in (False, True):
            r = probe_no_work(D, N, ctx.seed, orszag)
            ctx.count(("oracle_no_work", D, N, orszag))
            for k in r["bad"]:
                fails.append({"key": f"C09:no-work:{k}", "what": f"convective term does work on a band-limited state ({k}, D={D}, N={N}, band {'|k|<=N/3' if orszag else 'retained modes'}): {r['bad'][k]:.2e}",
                              "probe": "no_work", "args": {"D": D, "N": N, "seed": ctx.seed, "orszag": orszag}, "observed": r})
    seen, out = set(), []
    for f in fails:
        if f["key"] not in seen:
            seen.add(f["key"])
            out.append(f)
    return out


def replay(probe, args):
    return {"mean": probe_mean, "fixed_points": probe_fixed_points, "no_work": probe_no_work}[probe](**args)
