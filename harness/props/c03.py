"""C03 — nonlinear terms equal the alias-free projection of the documented operator."""
from __future__ import annotations

import numpy as np

from . import steppers as S
from . import util as U


def term_table(rng, D, N, L):
    """(name, constructor, C, model spec string, fraction) for every public nonlinear-function class"""
    from exponax import nonlin_fun as nf
    from exponax import spectral as sp
    from exponax.stepper.reaction._gray_scott import GrayScottNonlinearFun
    from exponax.stepper.reaction._cahn_hilliard import CahnHilliardNonlinearFun
    dop = sp.build_derivative_operator(D, L, N)
    out = []
    b = float(rng.uniform(-1.5, 1.5))
    for single in (True, False):
        for cons in (True, False):
            C = 1 if single else D
            out.append((f"Convection(single={single},conservative={cons})",
                        nf.ConvectionNonlinearFun(D, N, derivative_operator=dop, scale=b, single_channel=single, conservative=cons),
                        C, f"conv {U.ftok(b)} {int(single)} {int(cons)}", 2 / 3))
    for zf in (True, False):
        out.append((f"GradientNorm(zero_mode_fix={zf})",
                    nf.GradientNormNonlinearFun(D, N, derivative_operator=dop, dealiasing_fraction=2 / 3, zero_mode_fix=zf, scale=b),
                    1, f"gradnorm {U.ftok(b)} {int(zf)}", 2 / 3))
    co = [float(x) for x in rng.uniform(-1, 1, 3)]
    out.append(("Polynomial(quadratic)", nf.PolynomialNonlinearFun(D, N, dealiasing_fraction=2 / 3, coefficients=co), 1,
                f"poly 3 {U.ftoks(co)}", 2 / 3))
    co4 = [0.0, 0.0, 0.0, float(rng.uniform(-1, 1))]
    out.append(("Polynomial(cubic,1/2)", nf.PolynomialNonlinearFun(D, N, dealiasing_fraction=1 / 2, coefficients=co4), 1,
                f"poly 4 {U.ftoks(co4)}", 1 / 2))
    sl = [float(x) for x in rng.uniform(-1, 1, 3)]
    out.append(("GeneralNonlinear", nf.GeneralNonlinearFun(D, N, derivative_operator=dop, dealiasing_fraction=2 / 3, scale_list=tuple(sl)), 1,
                f"general {U.ftoks(sl)} 1", 2 / 3))
    if D == 2:
        out.append(("VorticityConvection2d", nf.VorticityConvection2d(D, N, convection_scale=b, derivative_operator=dop, dealiasing_fraction=2 / 3),
                    1, f"vort {U.ftok(b)} 0", 2 / 3))
        # the forced (Kolmogorov) variant with a NON-default convection scale and injection (every constructor argument
        # must reach the term); injection mode inside and — separately — outside the retained band
        for m in sorted({1, max(1, N // 2 - 1)}):
            g = float(rng.uniform(-1.5, 1.5))
            out.append((f"VorticityConvection2dKolmogorov(mode={m})",
                        nf.VorticityConvection2dKolmogorov(D, N, convection_scale=b, injection_mode=m, injection_scale=g,
                                                           derivative_operator=dop, dealiasing_fraction=2 / 3),
                        1, f"vort {U.ftok(b)} 1 {m} {U.ftok(g)}", 2 / 3))
    if D == 3:
        out.append(("ProjectedConvection3d", nf.ProjectedConvection3d(D, N, derivative_operator=dop, dealiasing_fraction=2 / 3), 3, "proj3d 0", 2 / 3))
        for m in sorted({1, max(1, N // 2 - 1)}):
            g = float(rng.uniform(-1.5, 1.5))
            out.append((f"ProjectedConvection3dKolmogorov(mode={m})",
                        nf.ProjectedConvection3dKolmogorov(D, N, injection_mode=m, injection_scale=g, derivative_operator=dop,
                                                           dealiasing_fraction=2 / 3),
                        3, f"proj3d 1 {m} {U.ftok(g)}", 2 / 3))
    f, k = float(rng.uniform(0.01, 0.08)), float(rng.uniform(0.03, 0.08))
    out.append(("GrayScott", GrayScottNonlinearFun(D, N, dealiasing_fraction=1 / 2, feed_rate=f, kill_rate=k), 2,
                f"grayscott {U.ftok(f)} {U.ftok(k)}", 1 / 2))
    sc = float(rng.uniform(0.01, 0.1))
    out.append(("CahnHilliard", CahnHilliardNonlinearFun(D, N, derivative_operator=dop, scale=sc, dealiasing_fraction=1 / 2), 1,
                f"cahn {U.ftok(sc)}", 1 / 2))
    return out


def correspondence(ctx):
    import jax.numpy as jnp
    from exponax import nonlin_fun as nf
    from exponax import spectral as sp
    d = ctx.driver
    rng = np.random.default_rng(ctx.seed)
    # (i) dealiasing masks: exact, contiguous N range (all residues mod 12), both documented fractions + odd ones
    Nmax = {1: 96, 2: 26, 3: 10} if ctx.tier == "quick" else {1: 512, 2: 64, 3: 16}
    for D in (1, 2, 3):
        for N in range(3, Nmax[D] + 1):
            for (fp, fq) in ((2, 3), (1, 2), (3, 4), (1, 3)):
                impl_cls = nf.PolynomialNonlinearFun(D, N, dealiasing_fraction=fp / fq, coefficients=[0.0, 1.0])
                m = np.asarray(impl_cls.dealiasing_mask).astype(int).ravel()
                # model: translated cutoff arithmetic in binary64 -> retained band K -> rational mask (K+1)/(N//2)
                ep, eq = S.effective_fraction(N, fp / fq)
                ctx.count(("mask", D, N % 12, fp, fq), True)
                ctx.compare("dealiasing_mask vs Layout.dealiasMask(translated float cutoff)", m, d.ask(f"dealias {D} {N} {ep} {eq}"),
                            exact=True, cell=("mask", D, N, fp, fq))
                # the float-evaluated band never exceeds the rational one the theorems are stated for (K_float <= K_rat)
                k_float = ep - 1
                k_rat = (fp * (N // 2) - fq) // fq
                ctx.compare("float cutoff <= rational cutoff", [int(k_float <= k_rat and k_float >= k_rat - 1)], [1], exact=True,
                            detail={"N": N, "frac": (fp, fq), "K_float": k_float, "K_rational": k_rat})
            ctx.bump(f"Nmod12={N % 12}")
    ctx.exhaustive = True
    # (ii) every nonlinear-function class vs the model pipeline, random real states with content up to Nyquist
    sizes = {1: [5, 8, 9, 12, 13, 16], 2: [5, 6, 7, 9], 3: [4, 5, 6]} if ctx.tier == "quick" else \
        {1: list(range(3, 27)), 2: list(range(3, 15)), 3: list(range(3, 9))}
    for D in (1, 2, 3):
        for N in sizes[D]:
            L = float(rng.uniform(0.5, 7))
            s = 2 * np.pi / L
            for name, fn, C, spec, frac in term_table(rng, D, N, L):
                u = rng.normal(size=(C,) + (N,) * D)
                uh = sp.fft(jnp.asarray(u))
                out = np.asarray(fn(uh)).ravel()
                fp, fq = S.effective_fraction(N, frac)
                uh_np = np.asarray(uh).reshape(C, -1)
                model = d.ask_complex(f"nonlin {D} {N} {U.ftok(s)} {fp} {fq} {C} {spec} {U.cctoks(uh_np)}")
                ctx.count(("term", name, D, N % 12), True)
                ctx.compare(f"{name} vs Nonlin model", out, model, cell=("term", name, D, N), detail={"L": L})
                ctx.bump(name.split("(")[0])
    ctx.sample({"terms": [t[0] for t in term_table(rng, 2, 6, 1.0)] + ["ProjectedConvection3d"]})


# ----------------------------------------------------------------------------
# oracle: 4x-oversampled evaluation of the continuous operator on the band-truncated state
# ----------------------------------------------------------------------------
def _band_truncate(uh, D, N, frac):
    from exponax import spectral as sp
    wn = np.asarray(sp.build_wavenumbers(D, N))
    cutoff = frac * (N // 2) - 1
    mask = np.all(np.abs(wn) <= cutoff, axis=0)
    return uh * mask, mask


def _pad_spectrum(uh, D, N, Nf):
    """embed the half spectrum of an N grid into an Nf >= 4N grid (wavenumber preserving), rescaled"""
    C = uh.shape[0]
    out = np.zeros((C,) + (Nf,) * (D - 1) + (Nf // 2 + 1,), dtype=complex)
    idx_lead = [i if i <= (N - 1) // 2 else i - N + Nf for i in range(N)]
    import itertools
    for lead in itertools.product(range(N), repeat=D - 1):
        tgt = tuple(idx_lead[i] for i in lead)
        out[(slice(None),) + tgt + (slice(0, N // 2 + 1),)] = uh[(slice(None),) + lead + (slice(None),)]
    return out * (Nf / N) ** D


def probe_term(kind, D, N, seed, L=2.3):
    """kind in conv_c, conv_nc, conv_sc, gradnorm, poly, cubic"""
    import jax.numpy as jnp
    from exponax import nonlin_fun as nf
    from exponax import spectral as sp
    rng = np.random.default_rng(seed)
    L = float(L)
    b = 0.8
    dop = sp.build_derivative_operator(D, L, N)
    frac = 1 / 2 if kind == "cubic" else 2 / 3
    C = D if kind in ("conv_c", "conv_nc", "proj3d") else 1
    if kind == "conv_c":
        fn = nf.ConvectionNonlinearFun(D, N, derivative_operator=dop, scale=b, conservative=True)
    elif kind == "conv_nc":
        fn = nf.ConvectionNonlinearFun(D, N, derivative_operator=dop, scale=b, conservative=False)
    elif kind == "conv_sc":
        fn = nf.ConvectionNonlinearFun(D, N, derivative_operator=dop, scale=b, single_channel=True, conservative=True)
    elif kind == "gradnorm":
        fn = nf.GradientNormNonlinearFun(D, N, derivative_operator=dop, dealiasing_fraction=2 / 3, zero_mode_fix=True, scale=b)
    elif kind == "poly":
        fn = nf.PolynomialNonlinearFun(D, N, dealiasing_fraction=2 / 3, coefficients=[0.3, -0.7, 1.1])
    elif kind in ("general", "general_nofix"):
        # all three scales non-zero: b0 u² + b1 ½ (1·∇)(u²) + b2 ½ |∇u|²; the documented mean-mode fix belongs to the
        # gradient-norm part (the only part a derivative has stripped of its offset), the square term keeps its mean
        fn = nf.GeneralNonlinearFun(D, N, derivative_operator=dop, dealiasing_fraction=2 / 3, scale_list=(0.6, -0.9, 0.7),
                                    zero_mode_fix=(kind == "general"))
    elif kind == "vort2d":
        fn = nf.VorticityConvection2d(D, N, convection_scale=b, derivative_operator=dop, dealiasing_fraction=2 / 3)
    elif kind == "proj3d":
        fn = nf.ProjectedConvection3d(D, N, derivative_operator=dop, dealiasing_fraction=2 / 3)
    else:
        fn = nf.PolynomialNonlinearFun(D, N, dealiasing_fraction=1 / 2, coefficients=[0.0, 0.0, 0.0, -0.9])
    u = rng.normal(size=(C,) + (N,) * D)
    uh = np.asarray(sp.fft(jnp.asarray(u)))
    got = np.asarray(fn(jnp.asarray(uh)))
    # reference: truncate, move to a 4x finer grid, evaluate the continuous operator there, come back
    ut, mask = _band_truncate(uh, D, N, frac)
    Nf = 4 * N
    uf_hat = _pad_spectrum(ut, D, N, Nf)
    uf = np.asarray(sp.ifft(jnp.asarray(uf_hat), num_spatial_dims=D, num_points=Nf))
    dopf = np.asarray(sp.build_derivative_operator(D, L, Nf))

    def ddx(f, ax):
        return np.asarray(sp.ifft(jnp.asarray(dopf[ax] * np.asarray(sp.fft(jnp.asarray(f[None])))[0])[None], num_spatial_dims=D, num_points=Nf))[0]
    if kind == "conv_c":
        res = np.stack([-b * 0.5 * sum(ddx(uf[i] * uf[j], j) for j in range(D)) for i in range(D)])
    elif kind == "conv_nc":
        res = np.stack([-b * sum(uf[j] * ddx(uf[i], j) for j in range(D)) for i in range(D)])
    elif kind == "conv_sc":
        res = (-b * 0.5 * sum(ddx(uf[0] ** 2, j) for j in range(D)))[None]
    elif kind == "gradnorm":
        q = sum(ddx(uf[0], j) ** 2 for j in range(D))
        res = (-b * 0.5 * (q - q.mean()))[None]
    elif kind == "poly":
        res = (0.3 - 0.7 * uf[0] + 1.1 * uf[0] ** 2)[None]
    elif kind in ("general", "general_nofix"):
        q = sum(ddx(uf[0], j) ** 2 for j in range(D))
        if kind == "general":
            q = q - q.mean()
        res = (0.6 * uf[0] ** 2 - 0.9 * 0.5 * sum(ddx(uf[0] ** 2, j) for j in range(D)) + 0.7 * 0.5 * q)[None]
    elif kind in ("vort2d", "proj3d"):
        lapf = (dopf ** 2).sum(axis=0)
        inv = np.where(lapf == 0, 0.0, 1.0 / np.where(lapf == 0, 1.0, lapf))

        def spec(f):
            return np.asarray(sp.fft(jnp.asarray(f[None])))[0]

        def phys(fh):
            return np.asarray(sp.ifft(jnp.asarray(fh)[None], num_spatial_dims=D, num_points=Nf))[0]
        if kind == "vort2d":
            # documented: N(ω) = −b ([1, −1]ᵀ ⊙ ∇(Δ⁻¹ω)) · ∇ω
            psi = phys(inv * spec(uf[0]))
            # ([1, −1]ᵀ ⊙ ∇ψ) is to be read as the rotated gradient u = (∂_y ψ, −∂_x ψ): N = −b u·∇ω
            res = (-b * (ddx(psi, 1) * ddx(uf[0], 0) - ddx(psi, 0) * ddx(uf[0], 1)))[None]
        else:
            # documented: N(u) = P(u × ω), ω = ∇ × u, P the Leray projection
            om = np.stack([ddx(uf[2], 1) - ddx(uf[1], 2), ddx(uf[0], 2) - ddx(uf[2], 0), ddx(uf[1], 0) - ddx(uf[0], 1)])
            cr = np.stack([uf[1] * om[2] - uf[2] * om[1], uf[2] * om[0] - uf[0] * om[2], uf[0] * om[1] - uf[1] * om[0]])
            ch = np.stack([spec(cr[i]) for i in range(3)])
            div = sum(dopf[d] * ch[d] for d in range(3))
            ch = ch - np.stack([dopf[i] * inv * div for i in range(3)])
            res = np.stack([phys(ch[i]) for i in range(3)])
    else:
        res = (-0.9 * uf[0] ** 3)[None]
    rh = np.asarray(sp.fft(jnp.asarray(res)))
    # read the coarse modes back
    want = np.zeros_like(got)
    idx_lead = [i if i <= (N - 1) // 2 else i - N + Nf for i in range(N)]
    import itertools
    for lead in itertools.product(range(N), repeat=D - 1):
        tgt = tuple(idx_lead[i] for i in lead)
        want[(slice(None),) + lead + (slice(None),)] = rh[(slice(None),) + tgt + (slice(0, N // 2 + 1),)]
    want = want * (N / Nf) ** D * mask
    # scale: the size of the quantities that are subtracted, not of the (possibly vanishing) result
    sc = max(float(np.max(np.abs(want))), float(np.max(np.abs(uf))) ** 2 * (N ** D) * (2 * np.pi / L * (N // 2 + 1)) ** 2 * 1e-3, 1e-12)
    err = float(np.max(np.abs(got - want)))
    outside = float(np.max(np.abs(got * (~mask)))) if (~mask).any() else 0.0
    return {"ok": bool(err <= 1e-9 * sc and outside == 0.0), "err": err, "scale": sc, "outside_band": outside}


def probe_forced_variant(D, N, seed):
    """the Kolmogorov (forced) nonlinear functions are the documented convective term — with the SAME scales, dealiasing
    and band as the unforced class — plus a state-independent injection: with injection_scale = 0 they coincide with
    the unforced class on every state, and the difference made by a non-zero injection does not depend on the state"""
    import jax.numpy as jnp
    from exponax import nonlin_fun as nf
    from exponax import spectral as sp
    rng = np.random.default_rng(seed)
    L = float(rng.uniform(1, 6))
    dop = sp.build_derivative_operator(D, L, N)
    b, g, m = float(rng.uniform(0.3, 1.5)) * float(rng.choice([-1, 1])), float(rng.uniform(0.3, 1.5)), 1
    if D == 2:
        plain = nf.VorticityConvection2d(D, N, convection_scale=b, derivative_operator=dop, dealiasing_fraction=2 / 3)
        mk = lambda gg: nf.VorticityConvection2dKolmogorov(D, N, convection_scale=b, injection_mode=m, injection_scale=gg,   # noqa: E731
                                                           derivative_operator=dop, dealiasing_fraction=2 / 3)
        C = 1
    else:
        plain = nf.ProjectedConvection3d(D, N, derivative_operator=dop, dealiasing_fraction=2 / 3)
        mk = lambda gg: nf.ProjectedConvection3dKolmogorov(D, N, injection_mode=m, injection_scale=gg, derivative_operator=dop,   # noqa: E731
                                                           dealiasing_fraction=2 / 3)
        C = 3
    u1 = sp.fft(jnp.asarray(rng.normal(size=(C,) + (N,) * D)))
    u2 = sp.fft(jnp.asarray(rng.normal(size=(C,) + (N,) * D)))
    p1 = np.asarray(plain(u1))
    sc = float(np.max(np.abs(p1))) + 1e-300
    res = {"unforced_limit": float(np.max(np.abs(np.asarray(mk(0.0)(u1)) - p1))) / sc,
           "injection_state_independent": float(np.max(np.abs((np.asarray(mk(g)(u1)) - p1) - (np.asarray(mk(g)(u2)) - np.asarray(plain(u2)))))) / sc}
    bad = {k: v for k, v in res.items() if not v <= 1e-10}
    return {"ok": not bad, "bad": bad, "convection_scale": b, "L": L}


def oracle(ctx, deep):
    fails = []
    for D, N in ([(2, 6), (2, 7), (3, 5)] if not deep else [(2, n) for n in range(5, 12)] + [(3, 5), (3, 6)]):
        r = probe_forced_variant(D, N, ctx.seed)
        ctx.count(("oracle_forced_variant", D, N))
        if not r["ok"]:
            fails.append({"key": f"C03:forced-variant:D{D}", "what": f"Kolmogorov nonlinear function (D={D}, N={N}, convection scale {r['convection_scale']:.3f}) is not the unforced term plus a state-independent injection: {r['bad']}",
                          "probe": "forced_variant", "args": {"D": D, "N": N, "seed": ctx.seed}, "observed": r})
    kinds = ["conv_c", "conv_nc", "conv_sc", "gradnorm", "poly", "cubic", "general", "general_nofix", "vort2d", "proj3d"]
    sizes = {1: [9, 12, 13, 15, 16, 18], 2: [6, 7, 9], 3: [6, 7]} if not deep else {1: list(range(5, 30)), 2: list(range(5, 14)), 3: [5, 6, 7, 8]}
    for D in (1, 2, 3):
        for N in sizes[D]:
            for kind in kinds:
                if D == 3 and kind in ("conv_c", "conv_nc") and not deep:
                    continue
                if (kind == "vort2d" and D != 2) or (kind == "proj3d" and D != 3):
                    continue
                r = probe_term(kind, D, N, ctx.seed)
                ctx.count(("oracle_term", kind, D, N))
                if not r["ok"]:
                    fails.append({"key": f"C03:{kind}:D{D}:Nmod3={N % 3}", "what": f"{kind} (D={D}, N={N}) differs from the alias-free projection of the documented operator on the truncated state: {r}",
                                  "probe": "term", "args": {"kind": kind, "D": D, "N": N, "seed": ctx.seed}, "observed": r})
    # domain extents far from 1 (every documented operator scales with powers of 2π/L; nothing in it knows an absolute
    # size): very long and very short domains, every kind
    for D in (1, 2, 3):
        for kind in kinds:
            if (kind == "vort2d" and D != 2) or (kind == "proj3d" and D != 3) or (D == 3 and kind in ("conv_c", "conv_nc") and not deep):
                continue
            for N in (sizes[D][:2] if not deep else sizes[D][:4]):
                for L in (1e4, 3e5, 1e-3):
                    r = probe_term(kind, D, N, ctx.seed, L)
                    ctx.count(("oracle_term_extent", kind, D, N, L))
                    if not r["ok"]:
                        fails.append({"key": f"C03:{kind}:D{D}:extent", "what": f"{kind} (D={D}, N={N}, domain extent L={L:g}) differs from the alias-free projection of the documented operator on the truncated state: {r}",
                                      "probe": "term", "args": {"kind": kind, "D": D, "N": N, "seed": ctx.seed, "L": L}, "observed": r})
    seen, out = set(), []
    for f in fails:
        if f["key"] not in seen:
            seen.add(f["key"])
            out.append(f)
    return out


def replay(probe, args):
    return {"term": probe_term, "forced_variant": probe_forced_variant}.get(probe, probe_term)(**args)
