"""C05 — spectral differential operators are exact on band-limited fields."""
from __future__ import annotations

import numpy as np

from . import util as U
from .c15 import bandlimited


def correspondence(ctx):
    import jax.numpy as jnp
    import exponax as ex
    from exponax import spectral as sp
    d = ctx.driver
    rng = np.random.default_rng(ctx.seed)
    sizes = {1: [5, 8, 9, 12], 2: [4, 5, 6, 7], 3: [4, 5]} if ctx.tier == "quick" else {1: list(range(3, 25)), 2: list(range(3, 12)), 3: [3, 4, 5, 6, 7]}
    for D in (1, 2, 3):
        for N in sizes[D]:
            L = float(rng.uniform(0.5, 7))
            s = 2 * np.pi / L
            dop = sp.build_derivative_operator(D, L, N)
            for order in (0, 2, 4, 6):
                lap = np.asarray(sp.build_laplace_operator(dop, order=order)).ravel()
                ctx.count(("laplace", D, N % 2, order), True)
                ctx.compare("build_laplace_operator vs Nonlin.laplace", lap, d.ask_complex(f"laplace_sym {D} {N} {U.ftok(s)} {order}"),
                            cell=("laplace", D, N, order))
            u = rng.normal(size=(2,) + (N,) * D)     # arbitrary state (Nyquist content included): model = code mirror
            for order in ((1, 2, 3) if ctx.tier == "quick" else (1, 2, 3, 4, 5, 6)):
                der = np.asarray(sp.derivative(jnp.asarray(u), L, order=order))   # (C, D, ...)
                for ch in range(2):
                    model = np.asarray(d.ask(f"derivative {D} {N} {U.ftok(s)} {order} {U.ftoks(u[ch])}")).reshape((D,) + (N,) * D)
                    ctx.count(("derivative", D, N % 2, order), True)
                    ctx.compare("derivative vs Nonlin.derivativeM", der[ch], model, cell=("derivative", D, N, order), rtol=1e-9 * (1 + (s * N / 2) ** 0))
            for order in (2, 4):
                f = rng.normal(size=(1,) + (N,) * D)
                sol = np.asarray(ex.poisson.Poisson(D, L, N, order=order)(jnp.asarray(f)))[0]
                model = d.ask(f"poisson {D} {N} {U.ftok(s)} {order} {U.ftoks(f[0])}")
                ctx.count(("poisson", D, N % 2, order), True)
                ctx.compare("Poisson vs Nonlin.poissonStep", sol.ravel(), model, cell=("poisson", D, N, order))
    ctx.sample({"operators": ["build_laplace_operator(order 0,2,4,6)", "derivative(order 1..)", "Poisson(order 2,4)"]})


def probe_derivative(D, N, order, seed, top=False):
    """analytic partial derivatives of a Nyquist-free trigonometric polynomial (`top`: the highest resolvable wavenumber
    along some axis is present — high orders on fine grids, where k**order leaves every 32-bit integer range)"""
    import jax.numpy as jnp
    from exponax import spectral as sp
    rng = np.random.default_rng(seed)
    L = 1.9
    kmax = (N - 1) // 2
    C = 2
    modes = [[(rng.integers(-kmax, kmax + 1, D), float(rng.normal()), float(rng.uniform(0, 2 * np.pi))) for _ in range(3)] for _ in range(C)]
    if top:
        for c in range(C):
            k = modes[c][0][0].copy()
            k[int(rng.integers(0, D))] = kmax if c % 2 == 0 else -kmax
            modes[c][0] = (k, 1.0 + abs(modes[c][0][1]), modes[c][0][2])
    x = np.stack(np.meshgrid(*[np.arange(N) * L / N] * D, indexing="ij"))
    u = np.zeros((C,) + (N,) * D)
    want = np.zeros((C, D) + (N,) * D)
    for c in range(C):
        for k, a, ph in modes[c]:
            arg = 2 * np.pi / L * np.tensordot(k.astype(float), x, axes=1) + ph
            u[c] += a * np.cos(arg)
            for dd in range(D):
                kap = 2 * np.pi / L * k[dd]
                want[c, dd] += a * kap ** order * np.cos(arg + order * np.pi / 2)
    got = np.asarray(sp.derivative(jnp.asarray(u), L, order=order))
    sc = float(np.max(np.abs(want))) + (2 * np.pi / L * kmax) ** order * 1e-3 + 1e-12
    err = float(np.max(np.abs(got - want)))
    return {"ok": bool(got.shape == want.shape and err <= 1e-9 * sc), "err": err, "scale": sc, "shape": list(got.shape)}


def probe_poisson(D, N, order, seed):
    import jax.numpy as jnp
    import exponax as ex
    from exponax import spectral as sp
    rng = np.random.default_rng(seed)
    L = 2.7
    f, _ = bandlimited(rng, 1, D, N, (N - 1) // 2, L)
    sol = np.asarray(ex.poisson.Poisson(D, L, N, order=order)(jnp.asarray(f)))
    der = np.asarray(sp.derivative(jnp.asarray(sol), L, order=order))   # one channel: (D, ...) pure order-th derivatives
    op = der.sum(axis=0) if der.ndim == D + 1 else der[0].sum(axis=0)
    rhs = -(f[0] - f[0].mean())
    e1 = float(np.max(np.abs(op - rhs)))
    e2 = abs(float(sol.mean()))
    sc = float(np.max(np.abs(f))) + 1e-12
    return {"ok": bool(e1 <= 1e-9 * sc and e2 <= 1e-12 * sc + 1e-14), "residual": e1, "mean": e2}


def probe_symbols(D, N, seed):
    import jax.numpy as jnp
    from exponax import spectral as sp
    rng = np.random.default_rng(seed)
    L = 3.3
    dop = sp.build_derivative_operator(D, L, N)
    k = 2 * np.pi / L * np.asarray(sp.build_wavenumbers(D, N))
    bad = {}
    for n in (1, 2, 3):
        lap = np.asarray(sp.build_laplace_operator(dop, order=2 * n))[0]
        want = (-1) ** n * (k ** (2 * n)).sum(axis=0)
        bad[f"laplace{2 * n}"] = float(np.max(np.abs(lap - want))) / (float(np.max(np.abs(want))) + 1e-12)
    v = rng.normal(size=D)
    for n in (0, 1):
        g = np.asarray(sp.build_gradient_inner_product_operator(dop, jnp.asarray(v), order=2 * n + 1))[0]
        want = 1j * (-1) ** n * np.tensordot(v, k ** (2 * n + 1), axes=1)
        bad[f"gradinner{2 * n + 1}"] = float(np.max(np.abs(g - want))) / (float(np.max(np.abs(want))) + 1e-12)
    return {"ok": all(x <= 1e-12 for x in bad.values()), "rel_errors": bad}


def oracle(ctx, deep):
    fails = []
    # high order x high wavenumber: k**order beyond 2**31 (and beyond 2**53 for the last one)
    for (D, N, order) in [(1, 80, 6), (1, 161, 5), (2, 76, 6), (1, 450, 4), (1, 2600, 3), (1, 1000, 6)] + ([(3, 75, 6), (2, 151, 5)] if deep else []):
        r = probe_derivative(D, N, order, ctx.seed, top=True)
        ctx.count(("oracle_derivative_top", D, N, order))
        if not r["ok"]:
            fails.append({"key": f"C05:derivative-top:order{order}:D{D}", "what": f"derivative(order={order}) of a field containing the highest resolvable wavenumber differs from the analytic derivative (D={D}, N={N}): {r}",
                          "probe": "derivative", "args": {"D": D, "N": N, "order": order, "seed": ctx.seed, "top": True}, "observed": r})
    cases = [(1, 9), (1, 12), (2, 6), (2, 7), (3, 5)] if not deep else [(1, n) for n in range(4, 18)] + [(2, n) for n in range(4, 10)] + [(3, 4), (3, 5), (3, 6)]
    for (D, N) in cases:
        for order in ((1, 2, 3, 6) if not deep else range(1, 7)):
            r = probe_derivative(D, N, order, ctx.seed)
            ctx.count(("oracle_derivative", D, N, order))
            if not r["ok"]:
                fails.append({"key": f"C05:derivative:order{order}:D{D}", "what": f"derivative(order={order}) differs from the analytic derivative (D={D}, N={N}): {r}",
                              "probe": "derivative", "args": {"D": D, "N": N, "order": order, "seed": ctx.seed}, "observed": r})
        for order in (2, 4):
            r = probe_poisson(D, N, order, ctx.seed)
            ctx.count(("oracle_poisson", D, N, order))
            if not r["ok"]:
                fails.append({"key": f"C05:poisson:order{order}:D{D}", "what": f"Poisson(order={order}) (D={D}, N={N}): {r}",
                              "probe": "poisson", "args": {"D": D, "N": N, "order": order, "seed": ctx.seed}, "observed": r})
        r = probe_symbols(D, N, ctx.seed)
        if not r["ok"]:
            fails.append({"key": f"C05:symbols:D{D}", "what": f"Laplace / gradient-inner-product symbols (D={D}, N={N}): {r}",
                          "probe": "symbols", "args": {"D": D, "N": N, "seed": ctx.seed}, "observed": r})
    seen, out = set(), []
    for f in fails:
        if f["key"] not in seen:
            seen.add(f["key"])
            out.append(f)
    return out


def replay(probe, args):
    return {"derivative": probe_derivative, "poisson": probe_poisson, "symbols": probe_symbols}[probe](**args)
