"""C04 — grid, FFT and Fourier-coefficient conventions are mutually consistent."""
from __future__ import annotations

import itertools

import numpy as np

from . import util as U


def _sp():
    from exponax import spectral as sp
    return sp


def n_range(tier, D):
    if tier == "quick":
        return {1: range(1, 25), 2: range(1, 13), 3: range(1, 7)}[D]
    return {1: range(1, 65), 2: range(1, 33), 3: range(1, 13)}[D]


def _xcheck_generated_layout(ctx):
    """the REGENERATED layout helpers (Gen.SpectralLayout.*, incl. the translator's semantics of the numpy primitives),
    evaluated by `lean --run`, against the arrays the implementation builds: exact, entry by entry, ij and xy indexing"""
    import os
    import subprocess
    import sys
    here = os.path.dirname(os.path.dirname(os.path.abspath(__file__)))
    script = os.path.join(here, "xcheck_translate_layout.py")
    if not os.path.exists(script):
        return
    p = subprocess.run([sys.executable, script], capture_output=True, text=True, timeout=900)
    ctx.count(("generated_layout_xcheck",), True, n=1)
    tail = (p.stdout + p.stderr).strip().splitlines()[-3:]
    if p.returncode != 0:
        ctx.mismatch("regenerated layout helpers (Gen.SpectralLayout) vs the implementation's arrays", {"output": tail})
    else:
        ctx.notes.append("generated layout cross-check: " + (tail[-1] if tail else "ok"))


def correspondence(ctx):
    _xcheck_generated_layout(ctx)
    import jax.numpy as jnp
    import exponax as ex
    sp = _sp()
    d = ctx.driver
    rng = np.random.default_rng(ctx.seed)
    for D in (1, 2, 3):
        for N in n_range(ctx.tier, D):
            cell = ("layout", D, N)
            ctx.count(cell, N >= 2)
            ctx.bump(f"D{D}")
            ctx.bump(f"parity{N % 2}")
            # compared as floats, exactly: a wavenumber of 11.000000000000002 is not the integer 11
            wn_impl = np.asarray(sp.build_wavenumbers(D, N), dtype=float)
            ctx.compare("build_wavenumbers vs Layout.wnFlat", wn_impl, np.asarray(d.ask(f"wn {D} {N}"), dtype=float), exact=True, cell=cell)
            ctx.compare("wavenumber_shape", list(sp.wavenumber_shape(D, N)), d.ask(f"wnshape {D} {N}"), exact=True, cell=cell)
            for mi, mode in enumerate(["norm_compensation", "reconstruction", "coef_extraction"]):
                sc = np.asarray(sp.build_scaling_array(D, N, mode=mode), dtype=float)
                ctx.compare(f"build_scaling_array({mode}) vs Layout.scaling", sc, d.ask(f"scaling {D} {N} {mi}"), exact=True, cell=cell)
            for cutoff in range(0, N + 1):
                if ctx.tier == "quick" and D == 3 and cutoff > 3:
                    break
                m = np.asarray(sp.low_pass_filter_mask(D, N, cutoff=cutoff, axis_separate=True)).astype(int)
                ctx.compare("low_pass_filter_mask(axis_separate) vs Layout.lowPassSep", m, d.ask(f"lowpass {D} {N} {cutoff} 1 1"),
                            exact=True, cell=cell, detail={"cutoff": cutoff})
                m = np.asarray(sp.low_pass_filter_mask(D, N, cutoff=cutoff, axis_separate=False)).astype(int)
                ctx.compare("low_pass_filter_mask(sphere) vs Layout.lowPassSphere", m, d.ask(f"lowpass {D} {N} {cutoff} 1 0"),
                            exact=True, cell=cell, detail={"cutoff": cutoff})
            m = np.asarray(sp.oddball_filter_mask(D, N)).astype(int)
            ctx.compare("oddball_filter_mask vs Layout.oddball", m, d.ask(f"oddball {D} {N}"), exact=True, cell=cell)
            # mode slices: resolve the Python slices on an index array
            shape = sp.wavenumber_shape(D, N)
            blocks = []
            for sl in sp.get_modes_slices(D, N):
                for ax, s in enumerate(sl[1:]):
                    lo, hi, _ = s.indices(shape[ax])
                    blocks += [lo, max(hi, lo)]
            mb = d.ask(f"blocks {D} {N}")
            # the model clamps like python; an empty range may be reported as (lo,hi) with hi<lo -> normalise
            mbn = []
            for i in range(0, len(mb), 2):
                mbn += [mb[i], max(mb[i + 1], mb[i])]
            ctx.compare("get_modes_slices vs Layout.modeBlocks", blocks, mbn, exact=True, cell=cell)
    # grid sizes for which N*(1/N) != 1 in binary64 (the wavenumbers must still be exact integers)
    for N in ([49, 98, 103] if ctx.tier == "quick" else [49, 98, 103, 107, 161, 187, 196, 197, 206, 214]):
        for D in (1, 2):
            if D == 2 and N > 103:
                continue
            wn_impl = np.asarray(sp.build_wavenumbers(D, N), dtype=float)
            ctx.count(("layout_inexact_reciprocal", D, N), True)
            ctx.compare("build_wavenumbers vs Layout.wnFlat (N with inexact 1/N)", wn_impl, np.asarray(d.ask(f"wn {D} {N}"), dtype=float),
                        exact=True, cell=("layout", D, N))
            for mi, mode in enumerate(["norm_compensation", "reconstruction", "coef_extraction"]):
                sc = np.asarray(sp.build_scaling_array(D, N, mode=mode), dtype=float)
                ctx.compare(f"build_scaling_array({mode}) vs Layout.scaling (N with inexact 1/N)", sc, d.ask(f"scaling {D} {N} {mi}"), exact=True)
            c = N // 4
            m = np.asarray(sp.low_pass_filter_mask(D, N, cutoff=c)).astype(int)
            ctx.compare("low_pass_filter_mask vs Layout.lowPassSep (N with inexact 1/N)", m, d.ask(f"lowpass {D} {N} {c} 1 1"), exact=True, detail={"N": N})
            m = np.asarray(sp.oddball_filter_mask(D, N)).astype(int)
            ctx.compare("oddball_filter_mask vs Layout.oddball (N with inexact 1/N)", m, d.ask(f"oddball {D} {N}"), exact=True, detail={"N": N})
    ctx.sample({"layout_enumeration": "all N in range x D in 1..3 x ij: wavenumbers, scalings(3 modes), low-pass masks for every cutoff 0..N (both kinds), oddball mask, mode slices"})
    ctx.exhaustive = True
    # transforms: model DFT mirror vs jnp.fft on random real states and on non-Hermitian spectra
    sizes = {1: [1, 2, 3, 4, 7, 8, 13, 16], 2: [2, 3, 4, 5, 8], 3: [2, 3, 4, 5]} if ctx.tier == "quick" else \
        {1: list(range(1, 33)), 2: list(range(1, 13)), 3: list(range(1, 8))}
    for D in (1, 2, 3):
        for N in sizes[D]:
            u = rng.normal(size=(N,) * D)
            uh = np.asarray(sp.fft(jnp.asarray(u)[None]))[0]
            mh = ctx.driver.ask_complex(f"rfftn {D} {N} {U.ftoks(u)}")
            ctx.count(("rfftn", D, N), N >= 2)
            ctx.compare("fft vs Transform.rfftnM", uh.ravel(), mh, cell=("rfftn", D, N))
            c = rng.normal(size=uh.shape) + 1j * rng.normal(size=uh.shape)   # non-Hermitian on purpose
            back = np.asarray(sp.ifft(jnp.asarray(c)[None], num_spatial_dims=D, num_points=N))[0]
            mb = ctx.driver.ask(f"irfftn {D} {N} {U.cctoks(c)}")
            ctx.count(("irfftn", D, N), N >= 2)
            ctx.compare("ifft vs Transform.irfftnM (non-Hermitian input)", back.ravel(), mb, cell=("irfftn", D, N))
    # grid and wrap_bc
    for N in ([1, 2, 5, 8] if ctx.tier == "quick" else range(1, 20)):
        for L in (1.0, 2 * np.pi, 0.37):
            for zc in (0, 1):
                for full in (0, 1):
                    g = np.asarray(ex.make_grid(1, L, N, full=bool(full), zero_centered=bool(zc)))[0]
                    mg = d.ask(f"grid {U.ftok(L)} {N} {zc} {full}")
                    ctx.count(("grid", N, zc, full), N >= 2)
                    ctx.compare("make_grid(1d) vs Layout.gridCoord", g, mg, cell=("grid", N, zc, full), atol=1e-15 * max(1, L) * 8)
    for D in (1, 2, 3):
        for N in ([1, 2, 3, 4] if D == 3 else [1, 2, 3, 5, 6]):
            idx = np.arange(N ** D).reshape((1,) + (N,) * D)
            w = np.asarray(ex.wrap_bc(jnp.asarray(idx))).ravel()
            ctx.count(("wrap", D, N), N >= 2)
            ctx.compare("wrap_bc vs Layout.wrapSource", w, d.ask(f"wrap {D} {N}"), exact=True, cell=("wrap", D, N))
    # higher-dimensional grids are the ij tensor product of the 1-d grid
    for D in (2, 3):
        g = np.asarray(ex.make_grid(D, 2.0, 4))
        g1 = np.asarray(ex.make_grid(1, 2.0, 4))[0]
        mesh = np.stack(np.meshgrid(*[g1] * D, indexing="ij"))
        ctx.compare("make_grid(D) = ij tensor product of the 1-d grid", g, mesh, exact=True)


# ----------------------------------------------------------------------------
def probe_single_mode(D, N, k, a, phase):
    """a cos(2π k·x/L + φ) appears in exactly the stored mode(s) the wavenumber array names"""
    import jax.numpy as jnp
    import exponax as ex
    sp = _sp()
    L = 3.0
    grid = np.asarray(ex.make_grid(D, L, N))
    arg = 2 * np.pi / L * np.tensordot(np.asarray(k, dtype=float), grid, axes=1) + phase
    u = a * np.cos(arg)
    uh = np.asarray(sp.fft(jnp.asarray(u)[None]))[0]
    wn = np.asarray(sp.build_wavenumbers(D, N)).astype(int)
    expected = np.zeros_like(uh)
    for sgn in (1, -1):
        target = np.array([(sgn * kk) for kk in k])
        # fold to the representable range (Nyquist of even N is stored as -N/2 on leading axes, +N/2 on the last)
        match = np.ones(uh.shape, dtype=bool)
        for dd in range(D):
            match &= ((wn[dd] - target[dd]) % N == 0)
        expected[match] += a / 2 * np.exp(1j * sgn * phase) * N ** D
    err = float(np.max(np.abs(uh - expected)))
    # coefficient extraction reads the amplitude
    coef = np.asarray(sp.get_fourier_coefficients(jnp.asarray(u)[None], round=None))[0]
    return {"ok": err <= 1e-9 * abs(a) * N ** D + 1e-12, "err": err, "max_coef": float(np.max(np.abs(coef)))}


def probe_coef_extraction(D, N, k, a):
    """documented reading of the scaling arrays on a tensor-product cosine a·Π_d cos(2π k_d x_d / L): the stored entries
    with wavenumbers (±k_0, …, ±k_{D-2}, k_last) hold a·N^D / 2^(#axes with k_d ∉ {0, Nyquist}); `coef_extraction` reads
    `a` at each of them, `reconstruction` a / 2^(#such leading axes), `norm_compensation` a / 2^(#such axes)"""
    import jax.numpy as jnp
    import exponax as ex
    sp = _sp()
    L = 2.5
    grid = np.asarray(ex.make_grid(D, L, N))
    u = a * np.ones((N,) * D)
    for d in range(D):
        u = u * np.cos(2 * np.pi / L * abs(k[d]) * grid[d])
    wn = np.asarray(sp.build_wavenumbers(D, N)).astype(int)
    half = [0 if (kk == 0 or (N % 2 == 0 and abs(kk) == N // 2)) else 1 for kk in k]
    match = np.ones(wn.shape[1:], dtype=bool)
    for d in range(D):
        match &= ((np.abs(wn[d]) - abs(k[d])) % N == 0) | ((np.abs(wn[d]) + abs(k[d])) % N == 0)
    bad = {}
    # "default": the call without the mode argument — documented to read the amplitude itself (coefficient extraction)
    for mode, want in (("coef_extraction", a), ("reconstruction", a / 2 ** sum(half[:-1])), ("norm_compensation", a / 2 ** sum(half)), ("default", a)):
        kw = {} if mode == "default" else {"scaling_compensation_mode": mode}
        coef = np.asarray(sp.get_fourier_coefficients(jnp.asarray(u)[None], round=None, **kw))[0]
        got = coef[match]
        if got.size == 0 or np.max(np.abs(got - want)) > 1e-9 * abs(a) or np.max(np.abs(coef[~match])) > 1e-9 * abs(a):
            bad[mode] = {"want": want, "got": [complex(x).real for x in got][:8], "wavenumbers": [list(map(int, wn[:, i].ravel())) for i in [0]][:0]}
    return {"ok": not bad, "bad": bad}


def probe_roundtrip(D, N, seed):
    import jax.numpy as jnp
    sp = _sp()
    rng = np.random.default_rng(seed)
    u = rng.normal(size=(2,) + (N,) * D)
    back = np.asarray(sp.ifft(sp.fft(jnp.asarray(u)), num_spatial_dims=D, num_points=N))
    err = float(np.max(np.abs(back - u)))
    res = {"explicit": err}
    ok = err <= 1e-12
    # every documented call form of the inverse: num_points only; and, for D >= 2, nothing (inferred from the spectrum)
    forms = {"num_points_only": dict(num_points=N)}
    if D >= 2:
        forms["inferred"] = {}
        forms["inferred_D_given"] = dict(num_spatial_dims=D)
    for label, kw in forms.items():
        try:
            b2 = np.asarray(sp.ifft(sp.fft(jnp.asarray(u)), **kw))
            e2 = float(np.max(np.abs(b2 - u))) if b2.shape == u.shape else float("inf")
        except Exception as ex_:  # noqa: BLE001
            e2 = float("inf")
            res[label + "_exception"] = f"{type(ex_).__name__}: {str(ex_)[:120]}"
        res[label] = e2
        ok = ok and e2 <= 1e-12
    return {"ok": bool(ok), "err": max(v for v in res.values() if isinstance(v, float)), "forms": res}


def probe_xy(D, N):
    """indexing='xy': grid, wavenumbers and derivative fit together"""
    import jax.numpy as jnp
    import exponax as ex
    sp = _sp()
    L = 2.0
    try:
        grid = np.asarray(ex.make_grid(D, L, N, indexing="xy"))
        u = np.sin(2 * np.pi * grid[0] / L)[None]
        du = np.asarray(sp.derivative(jnp.asarray(u), L, indexing="xy"))
        want = 2 * np.pi / L * np.cos(2 * np.pi * grid[0] / L)
        err = float(np.max(np.abs(du[0] - want))) if du.ndim == D + 1 else float(np.max(np.abs(du[0, 0] - want)))
        shape_ok = tuple(sp.build_wavenumbers(D, N, indexing="xy").shape[1:]) == tuple(sp.fft(jnp.asarray(u)).shape[1:])
        return {"ok": bool(err <= 1e-9 and shape_ok), "err": err, "shape_ok": shape_ok}
    except Exception as e:  # noqa: BLE001
        return {"ok": False, "exception": f"{type(e).__name__}: {str(e)[:200]}"}


def probe_masks(D, N):
    """masks / scalings select exactly the documented modes (integer wavenumbers built independently)"""
    import jax.numpy as jnp
    sp = _sp()
    axes = [np.concatenate([np.arange(0, (N - 1) // 2 + 1), np.arange(-(N // 2), 0)])] * (D - 1) + [np.arange(0, N // 2 + 1)]
    k = np.stack(np.meshgrid(*axes, indexing="ij")).astype(float)
    bad = []
    if not np.array_equal(np.asarray(sp.build_wavenumbers(D, N), dtype=float), k):
        bad.append("wavenumbers are not the exact integers")
    for c in sorted({0, 1, N // 4, N // 3, N // 2 - 1, N // 2}):
        if c < 0:
            continue
        want = np.all(np.abs(k) <= c, axis=0)
        if not np.array_equal(np.asarray(sp.low_pass_filter_mask(D, N, cutoff=c))[0], want):
            bad.append(f"low_pass_filter_mask(cutoff={c}) does not keep exactly |k|<={c}")
    want = np.ones(k.shape[1:], dtype=bool) if N % 2 else np.all(np.abs(k) <= N // 2 - 1, axis=0)
    if not np.array_equal(np.asarray(sp.oddball_filter_mask(D, N))[0], want):
        bad.append("oddball_filter_mask does not remove exactly the Nyquist entries")
    # amplitude of the Nyquist mode of an even grid / of a generic mode through the coefficient extraction
    x = np.arange(N) / N
    for kk in sorted({1, N // 3, N // 2}):
        u = 1.7 * np.cos(2 * np.pi * kk * x)
        if D > 1:
            u = np.broadcast_to(u, (N,) * D)
        co = np.asarray(sp.get_fourier_coefficients(jnp.asarray(u)[None], round=None))[0]
        idx = (0,) * (D - 1) + (kk,)
        if abs(abs(co[idx]) - 1.7) > 1e-9:
            bad.append(f"amplitude of a*cos(2 pi {kk} x) read off as {abs(co[idx]):.6g} (a=1.7)")
    return {"ok": not bad, "bad": bad}


def probe_grid(D, N, L):
    """the documented grid: left-inclusive / right-exclusive, spacing L/N, starting at 0 — or at -L/2 when centred
    around zero —, one more (redundant) point with `full`, the same along every axis and for both indexings"""
    import exponax as ex
    bad = []
    for zc in (False, True):
        for full in (False, True):
            for indexing in ("ij", "xy"):
                g = np.asarray(ex.make_grid(D, L, N, full=full, zero_centered=zc, indexing=indexing))
                n = N + 1 if full else N
                if g.shape != (D,) + (n,) * D:
                    bad.append(f"shape {g.shape} (zero_centered={zc}, full={full}, {indexing})")
                    continue
                want1 = (-L / 2 if zc else 0.0) + np.arange(n) * (L / N)
                for d in range(D):
                    # coordinate d varies along array axis d for "ij"; for "xy" the first two array axes are swapped
                    ax = d if indexing == "ij" or D == 1 or d > 1 else 1 - d
                    line = np.moveaxis(g[d], ax, 0).reshape(n, -1)
                    if not np.allclose(line, want1[:, None], rtol=0, atol=4e-15 * max(1.0, L)):
                        bad.append(f"coordinate {d} (zero_centered={zc}, full={full}, {indexing}): starts at {float(line[0, 0])!r} "
                                   f"(documented {float(want1[0])!r}), max deviation {float(np.max(np.abs(line - want1[:, None]))):.3e}")
    return {"ok": not bad, "bad": bad[:6]}


def oracle(ctx, deep):
    fails = []
    for D, N in ([(1, 8), (1, 9), (2, 5), (2, 6), (3, 3), (3, 4)] if not deep else [(1, n) for n in range(1, 14)] + [(2, n) for n in range(2, 8)] + [(3, 3), (3, 4), (3, 5)]):
        for L in (1.0, 2 * np.pi, 0.37):
            r = probe_grid(D, N, L)
            ctx.count(("oracle_grid", D, N, L))
            if not r["ok"]:
                fails.append({"key": f"C04:grid:D{D}:parity{N % 2}", "what": f"make_grid(D={D}, L={L}, N={N}) is not the documented grid: " + "; ".join(r["bad"])[:400],
                              "probe": "grid", "args": {"D": D, "N": N, "L": L}, "observed": r})
    for D, N in ([(1, 49), (1, 98), (2, 49), (1, 12), (2, 7)] if not deep else [(1, n) for n in (12, 13, 49, 98, 103, 107, 161, 196)] + [(2, 49), (2, 98), (3, 7)]):
        r = probe_masks(D, N)
        ctx.count(("oracle_masks", D, N))
        if not r["ok"]:
            fails.append({"key": f"C04:masks-scalings:D{D}:N={N}", "what": f"D={D}, N={N}: " + "; ".join(r["bad"])[:400],
                          "probe": "masks", "args": {"D": D, "N": N}, "observed": r})
    rng = np.random.default_rng(ctx.seed + 3)
    sizes = {1: [4, 5, 8, 9], 2: [4, 5], 3: [4, 5]} if not deep else {1: list(range(2, 17)), 2: list(range(2, 10)), 3: [2, 3, 4, 5]}
    for D in (1, 2, 3):
        for N in sizes[D]:
            r = probe_roundtrip(D, N, ctx.seed)
            if not r["ok"]:
                fails.append({"key": f"C04:roundtrip:D{D}", "what": f"ifft(fft(u)) != u for D={D}, N={N} (err {r['err']:.2e})",
                              "probe": "roundtrip", "args": {"D": D, "N": N, "seed": ctx.seed}, "observed": r})
            # every wavenumber vector of the layout (leading axes negative too, DC, Nyquist)
            axes = [range(-(N // 2), (N - 1) // 2 + 1)] * (D - 1) + [range(0, N // 2 + 1)]
            ks = list(itertools.product(*axes))
            if not deep and len(ks) > 40:
                ks = [ks[i] for i in rng.choice(len(ks), 40, replace=False)]
            for k in ks:
                a, ph = float(rng.uniform(0.5, 2)), float(rng.uniform(0, 2 * np.pi))
                r = probe_single_mode(D, N, list(k), a, ph)
                ctx.count(("oracle_mode", D, N, k))
                if not r["ok"]:
                    fails.append({"key": f"C04:single-mode:D{D}:parity{N % 2}", "what": f"a cos(k.x+phi) with k={k} on N={N}, D={D} does not appear in the named mode(s)",
                                  "probe": "single_mode", "args": {"D": D, "N": N, "k": list(k), "a": a, "phase": ph}, "observed": r})
                    break
            for k in ks:
                r = probe_coef_extraction(D, N, list(k), 1.7)
                ctx.count(("oracle_coef", D, N, k))
                if not r["ok"]:
                    fails.append({"key": f"C04:coef-extraction:D{D}:parity{N % 2}", "what": f"scaling arrays do not read the documented amplitude of a*prod cos(k_d x_d), k={k}, N={N}, D={D}: {r['bad']}"[:500],
                                  "probe": "coef_extraction", "args": {"D": D, "N": N, "k": list(k), "a": 1.7}, "observed": r})
                    break
    for D in (1, 2, 3):
        r = probe_xy(D, 6)
        ctx.count(("oracle_xy", D))
        if not r["ok"]:
            fails.append({"key": f"C04:xy-indexing:D{D}", "what": f"indexing='xy' in {D}-D: wavenumber/scaling arrays do not fit the transform ({r})",
                          "probe": "xy", "args": {"D": D, "N": 6}, "observed": r})
    seen, out = set(), []
    for f in fails:
        if f["key"] not in seen:
            seen.add(f["key"])
            out.append(f)
    return out


def replay(probe, args):
    return {"single_mode": probe_single_mode, "coef_extraction": probe_coef_extraction, "roundtrip": probe_roundtrip, "xy": probe_xy, "masks": probe_masks, "grid": probe_grid}[probe](**args)
