"""C11 — dissipative and dispersive linear steppers never amplify any state."""
from __future__ import annotations

import numpy as np

from . import stepcorr
from . import steppers as S

NONAMP = ["Advection", "Diffusion", "AdvectionDiffusion", "Dispersion", "HyperDiffusion"]
ISOMETRIC = ["Advection", "Dispersion"]


def correspondence(ctx):
    # the same model definition as C01, driven with white noise (Nyquist content) and large dt
    rng = np.random.default_rng(ctx.seed + 1)
    R = S.registry()
    for name in NONAMP:
        for D in (1, 2, 3):
            for t in range(2 if ctx.tier == "quick" else 8):
                Ns = stepcorr.grid_sizes(ctx.tier, D)
                N = int(Ns[int(rng.integers(0, len(Ns)))])
                spec = R[name](rng, D, N, 0)
                spec.dt = float(rng.choice([1.0, 37.0, 1e3, 1e6]))
                u = S.random_state(rng, 1, D, N, "noise")
                stepcorr.one_step(ctx, spec, u)
                ctx.bump(name)
                ctx.bump(f"dt={spec.dt}")
    # every documented FORM of the coefficients (scalar / per-axis vector / full SPD matrix), not whichever the seed draws
    for name in ("Advection", "Diffusion", "AdvectionDiffusion"):
        for D in (2, 3):
            N = int(stepcorr.grid_sizes("quick", D)[int(rng.integers(0, 3))])
            st0 = rng.bit_generator.state
            S.FORCED_FLAGS.clear()
            del S.DRAWN_CHOICES[:]
            R[name](rng, D, N, 0)
            drawn = list(dict.fromkeys(S.DRAWN_CHOICES))
            import itertools
            for combo in itertools.product(*[range(n) for _, n in drawn]):
                rng.bit_generator.state = st0
                S.FORCED_FLAGS.clear()
                S.FORCED_FLAGS.update({k: v for (k, _), v in zip(drawn, combo)})
                spec = R[name](rng, D, N, 0)
                spec.dt = float(rng.choice([1.0, 37.0]))
                stepcorr.one_step(ctx, spec, S.random_state(rng, 1, D, N, "noise"))
                ctx.bump(f"{name}:forms")
            S.FORCED_FLAGS.clear()
    ctx.sample({"classes": NONAMP, "states": "white noise", "dts": [1.0, 37.0, 1e3, 1e6]})


def probe_norm(name, D, N, dt, seed, steps=1, forced=None):
    import jax.numpy as jnp
    rng = np.random.default_rng(seed)
    S.FORCED_FLAGS.clear()
    S.FORCED_FLAGS.update(forced or {})
    try:
        spec = S.registry()[name](rng, D, N, 0)
    finally:
        S.FORCED_FLAGS.clear()
    spec.dt = dt
    st = spec.build()
    u = rng.normal(size=(1,) + (N,) * D)
    n0 = float(np.linalg.norm(u))
    cur = jnp.asarray(u)
    worst = 0.0
    prev = n0
    for _ in range(steps):
        cur = st(cur)
        n1 = float(np.linalg.norm(np.asarray(cur)))
        worst = max(worst, n1 / prev if prev > 0 else 0.0)
        prev = n1
    res = {"ratio_max": worst, "final_ratio": prev / n0}
    ok = worst <= 1 + 1e-12
    if name in ISOMETRIC and N % 2 == 1:
        ok = ok and abs(prev / n0 - 1) <= 1e-10 * steps
    if name in ("Diffusion", "HyperDiffusion"):
        # every non-constant mode shrinks strictly
        uz = u - u.mean()
        v = np.asarray(st(jnp.asarray(uz)))
        ok = ok and float(np.linalg.norm(v)) < float(np.linalg.norm(uz))
    res["ok"] = bool(ok)
    return res


def probe_general_family(cls, D, N, dt, seed):
    """the general / normalized / difficulty linear steppers with DISSIPATIVE coefficients (a₂ > 0 diffusion, a₄ < 0
    hyper-diffusion, any advection / dispersion): the norm of a white-noise state does not grow and every non-constant
    Fourier mode shrinks strictly"""
    import jax.numpy as jnp
    import exponax as ex
    from exponax import spectral as sp
    gen = ex.stepper.generic
    rng = np.random.default_rng(seed)
    a1, a2, a3, a4 = float(rng.uniform(-1, 1)), float(rng.uniform(0.01, 0.1)), float(rng.uniform(-0.05, 0.05)), -float(rng.uniform(1e-4, 1e-3))
    co = (0.0, a1, a2, a3, a4)
    L = float(rng.choice([1.0, 2 * np.pi]))
    if cls == "GeneralLinearStepper":
        st = gen.GeneralLinearStepper(D, L, N, dt, linear_coefficients=co)
    elif cls == "NormalizedLinearStepper":
        st = gen.NormalizedLinearStepper(D, N, normalized_linear_coefficients=tuple(c * dt / L ** j for j, c in enumerate(co)))
    else:
        al = [c * dt / L ** j for j, c in enumerate(co)]
        st = gen.DifficultyLinearStepper(D, N, linear_difficulties=tuple(a if j == 0 else a * N ** j * 2 ** (j - 1) * D for j, a in enumerate(al)))
    u = rng.normal(size=(1,) + (N,) * D)
    v = np.asarray(st(jnp.asarray(u)))
    ratio = float(np.linalg.norm(v) / np.linalg.norm(u))
    uh, vh = np.asarray(sp.fft(jnp.asarray(u)))[0], np.asarray(sp.fft(jnp.asarray(v)))[0]
    k = np.asarray(sp.build_wavenumbers(D, N))
    nonconst = (np.abs(k).sum(axis=0) > 0) & (np.abs(uh) > 1e-9 * np.max(np.abs(uh)))
    if N % 2 == 0:
        nonconst &= np.all(np.abs(k) < N // 2, axis=0)     # the c2r transform treats the Nyquist entries separately
    gain = np.abs(vh[nonconst]) / np.abs(uh[nonconst])
    worst = float(np.max(gain)) if gain.size else 0.0
    return {"ok": bool(ratio <= 1 + 1e-12 and worst < 1 - 1e-12), "norm_ratio": ratio, "max_mode_gain": worst,
            "undamped_modes": int(np.sum(gain >= 1 - 1e-12)), "coefficients": co, "L": L}


def probe_norm_anisotropic(name, D, N, dt, seed, kind=None):
    """strongly anisotropic SPD diffusivity matrices (large off-diagonal entries): still PSD, so still no amplification.
    kind 0 / 1: equicorrelated with rho = 0.9 / -0.85; kind 2: rank-one-dominated v vᵀ + εI with a NEGATIVE ROW SUM
    (a matrix that is PSD although its rows do not sum to something positive — tells kᵀAk from Σ_i (Σ_j A_ij) k_i²)"""
    import jax.numpy as jnp
    import exponax as ex
    rng = np.random.default_rng(seed)
    a = float(rng.uniform(0.02, 0.06))
    rho = float(rng.choice([0.9, -0.85]))
    if kind is not None and kind < 2:
        rho = [0.9, -0.85][kind]
    if kind == 2:
        v = np.array([1.0, -3.0, 0.5][:D])
        A = a * (np.outer(v, v) + 0.05 * np.eye(D))
    else:
        A = a * ((1 - rho) * np.eye(D) + rho * np.ones((D, D))) if rho > 0 else a * (np.eye(D) + rho / (D - 1 + 1e-9) * (np.ones((D, D)) - np.eye(D)))
    assert np.all(np.linalg.eigvalsh(A) > 0)
    L = float(rng.choice([1.0, 2 * np.pi]))
    if name == "Diffusion":
        st = ex.stepper.Diffusion(D, L, N, dt, diffusivity=jnp.asarray(A))
    else:
        st = ex.stepper.AdvectionDiffusion(D, L, N, dt, velocity=jnp.asarray(rng.uniform(-1, 1, D)), diffusivity=jnp.asarray(A))
    u = rng.normal(size=(1,) + (N,) * D)
    v = np.asarray(st(jnp.asarray(u)))
    ratio = float(np.linalg.norm(v) / np.linalg.norm(u)) if np.all(np.isfinite(v)) else float("inf")
    return {"ok": bool(ratio <= 1 + 1e-12), "ratio": ratio, "matrix": A.tolist(), "L": L}


def probe_wave_energy(D, N, dt, seed, L=None):
    import jax.numpy as jnp
    import exponax as ex
    from exponax import spectral as sp
    rng = np.random.default_rng(seed)
    L0, c = float(rng.uniform(1, 6)), float(rng.uniform(0.3, 2))
    L = L0 if L is None else float(L)    # also domains longer than 2π: scaled wavenumbers (2π/L)|k| below one
    st = ex.stepper.Wave(D, L, N, dt, speed_of_sound=c)
    u = S.random_state(rng, 2, D, N, "smooth") if N % 2 == 0 else rng.normal(size=(2,) + (N,) * D)

    def energy(w):
        wh = np.asarray(sp.fft(jnp.asarray(w)))
        k = 2 * np.pi / L * np.asarray(sp.build_wavenumbers(D, N))
        k2 = (k ** 2).sum(axis=0)
        wgt = np.asarray(sp.build_scaling_array(D, N, mode="reconstruction"))[0]
        # Parseval weights: N^D / recon = 1 or 2
        pw = (N ** D) / wgt
        return float((pw * (c ** 2 * k2 * np.abs(wh[0]) ** 2 + np.abs(wh[1]) ** 2)).sum())
    e0 = energy(u)
    e1 = energy(np.asarray(st(jnp.asarray(u))))
    return {"ok": bool(abs(e1 - e0) <= 1e-9 * e0), "e0": e0, "e1": e1}


def oracle(ctx, deep):
    fails = []
    cases = [(1, 8), (1, 9), (2, 6), (2, 7), (3, 5)] if not deep else [(1, n) for n in range(3, 20)] + [(2, n) for n in range(3, 10)] + [(3, 4), (3, 5), (3, 6)]
    from .c01 import option_combos
    for name in NONAMP:
        for (D, N) in cases:
            # every combination of the class's boolean options / argument forms (a spatially-mixing flag whose branch
            # has the wrong sign is only seen when that flag is set): all of them on the first 1-D and 2-D case
            combos = option_combos(name, D, N, ctx.seed + 2) if (D, N) in (cases[0], (2, 6)) or deep else [None]
            hit = False
            for forced in combos:
                for dt in ([0.1, 1e6] if not deep else [1e-3, 0.1, 1.0, 1e3, 1e6]):
                    r = probe_norm(name, D, N, dt, ctx.seed + 2, steps=1 if not deep else 5, forced=forced)
                    ctx.count(("oracle_norm", name, D, N, dt, repr(forced)))
                    if not r["ok"]:
                        fails.append({"key": f"C11:norm:{name}", "what": f"{name} (D={D}, N={N}, dt={dt}, options {forced}) amplifies / does not preserve as documented: {r}",
                                      "probe": "norm", "args": {"name": name, "D": D, "N": N, "dt": dt, "seed": ctx.seed + 2, "forced": forced}, "observed": r})
                        hit = True
                        break
                if hit:
                    break
    for name in ("Diffusion", "AdvectionDiffusion"):
        for (D, N) in ([(2, 7), (2, 8), (3, 5)] if not deep else [(2, 6), (2, 7), (2, 8), (2, 9), (3, 4), (3, 5)]):
            for dt, kind in ((0.1, 0), (10.0, 1), (0.1, 2), (10.0, 2)) if not deep else [(d, k) for d in (0.1, 10.0) for k in (0, 1, 2)]:
                r = probe_norm_anisotropic(name, D, N, dt, ctx.seed + D + N, kind)
                ctx.count(("oracle_norm_anisotropic", name, D, N, dt, kind))
                if not r["ok"]:
                    fails.append({"key": f"C11:norm-anisotropic:{name}", "what": f"{name} with a strongly anisotropic SPD diffusivity (D={D}, N={N}, dt={dt}) amplifies white noise: {r}"[:400],
                                  "probe": "norm_anisotropic", "args": {"name": name, "D": D, "N": N, "dt": dt, "seed": ctx.seed + D + N, "kind": kind}, "observed": r})
    for cls in ("GeneralLinearStepper", "NormalizedLinearStepper", "DifficultyLinearStepper"):
        for (D, N) in ([(2, 7), (2, 8), (3, 5)] if not deep else [(1, 9), (2, 6), (2, 7), (2, 8), (2, 9), (3, 4), (3, 5)]):
            r = probe_general_family(cls, D, N, 0.05, ctx.seed + D + N)
            ctx.count(("oracle_general_family", cls, D, N))
            if not r["ok"]:
                fails.append({"key": f"C11:general-family:{cls}", "what": f"{cls} with dissipative coefficients (D={D}, N={N}): {r}"[:400],
                              "probe": "general_family", "args": {"cls": cls, "D": D, "N": N, "dt": 0.05, "seed": ctx.seed + D + N}, "observed": r})
                break
    for (D, N), L in [(c_, L_) for c_ in cases[:5] for L_ in (None, 10.0, 50.0)]:
        r = probe_wave_energy(D, N, 0.7, ctx.seed, L)
        ctx.count(("oracle_wave_energy", D, N, L))
        if not r["ok"]:
            fails.append({"key": "C11:wave-energy", "what": f"Wave (D={D}, N={N}, L={L if L else 'random in (1,6)'}) does not conserve the wave energy: {r}",
                          "probe": "wave_energy", "args": {"D": D, "N": N, "dt": 0.7, "seed": ctx.seed, "L": L}, "observed": r})
    seen, out = set(), []
    for f in fails:
        if f["key"] not in seen:
            seen.add(f["key"])
            out.append(f)
    return out


def replay(probe, args):
    return {"norm": probe_norm, "wave_energy": probe_wave_energy, "norm_anisotropic": probe_norm_anisotropic, "general_family": probe_general_family}[probe](**args)
