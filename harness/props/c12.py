"""C12 — forcing terms inject exactly the documented field."""
from __future__ import annotations

import numpy as np

from . import stepcorr
from . import steppers as S
from . import util as U

KOLM = ["KolmogorovFlowVorticity", "GeneralVorticityConvectionStepper", "KolmogorovFlowVelocity"]


def correspondence(ctx):
    import jax.numpy as jnp
    import exponax as ex
    from exponax import spectral as sp
    rng = np.random.default_rng(ctx.seed)
    d = ctx.driver
    R = S.registry()
    # (i) the injected spectrum N(0) of every forced stepper vs the model, exactly the stored modes
    for name in KOLM:
        D = 3 if name == "KolmogorovFlowVelocity" else 2
        for N in ([6, 7] if D == 2 else [5, 6]) if ctx.tier == "quick" else ([5, 6, 7, 8, 9] if D == 2 else [4, 5, 6, 7]):
            for L in (2 * np.pi, 1.0, 5.0):
                spec = None
                while spec is None or "1" not in spec.nonlin.split()[2:3] and name == "GeneralVorticityConvectionStepper":
                    spec = R[name](rng, D, N, 2)
                    if name != "GeneralVorticityConvectionStepper":
                        break
                    if spec.kwargs["injection_scale"] != 0.0:
                        break
                spec.L = L
                st = spec.build()
                M = int(np.prod(sp.wavenumber_shape(D, N)))
                zeros = jnp.zeros((spec.C,) + sp.wavenumber_shape(D, N), dtype=complex)
                inj_impl = np.asarray(st._integrator._nonlinear_fun(zeros)).ravel()
                inj_model = d.ask_complex(spec.nonlin_line(np.zeros((spec.C, M), dtype=complex)))
                ctx.count(("injection", name, N % 2, round(L, 3)), True)
                ctx.compare(f"{name}: injected spectrum N(0) vs model", inj_impl, inj_model, cell=("injection", name, N, L),
                            detail={"kwargs": {k: str(v) for k, v in spec.kwargs.items()}, "L": L})
                # (ii) rest-start rollout vs repeated model steps
                u = np.zeros((spec.C,) + (N,) * D)
                cur_i = jnp.asarray(u)
                cur_m = u
                for _ in range(3):
                    cur_i = st(cur_i)
                    cur_m = np.asarray(d.ask(spec.fullstep_line(cur_m)), dtype=float).reshape(u.shape)
                ctx.count(("rest", name, N % 2, round(L, 3), spec.order), True)
                ctx.compare(f"{name}: 3 steps from rest vs model", np.asarray(cur_i), cur_m, cell=("rest", name, N, L))
    # (iii) ForcedStepper over base steppers: forced(u, f) = step(u + dt f), through the regenerated forced_step
    for name, D, N, order in [("Burgers", 1, 12, 2), ("KuramotoSivashinsky", 1, 9, 3), ("Diffusion", 2, 6, 0), ("NavierStokesVorticity", 2, 6, 2)]:
        spec = R[name](rng, D, N, order)
        st = spec.build()
        fs = ex.ForcedStepper(st)
        u = S.random_state(rng, spec.C, D, N, "smooth")
        f = S.random_state(rng, spec.C, D, N, "smooth")
        out = np.asarray(fs(jnp.asarray(u), jnp.asarray(f)))
        uf = np.asarray(d.ask(f"forced {U.ftok(spec.dt)} {u.size} {U.ftoks(u)} {U.ftoks(f)}")).reshape(u.shape)
        model = np.asarray(d.ask(spec.fullstep_line(uf)), dtype=float).reshape(u.shape)
        ctx.count(("forced", name, D), True)
        ctx.compare(f"ForcedStepper({name}) vs model step of forced_step(u, f)", out, model, cell=("forced", name))
        out0 = np.asarray(fs(jnp.asarray(u), jnp.zeros_like(jnp.asarray(f))))
        ctx.compare(f"ForcedStepper({name}) with zero forcing vs unforced stepper", out0, np.asarray(st(jnp.asarray(u))), cell=("forced0", name))
    ctx.sample({"forced_steppers": KOLM, "domain_extents": [2 * np.pi, 1.0, 5.0]})


def probe_laminar(dim, L, N, m, gamma, nu, drag, order, dt, steps, general=False, cscale=1.0):
    import jax.numpy as jnp
    import exponax as ex
    s = 2 * np.pi / L
    sig = drag - nu * (s * m) ** 2
    T = steps * dt
    amp = (np.exp(sig * T) - 1) / sig if sig != 0 else T
    if dim == 2:
        if general:
            st = ex.stepper.generic.GeneralVorticityConvectionStepper(2, L, N, dt, linear_coefficients=(drag / 2, 0.0, nu),
                                                                      injection_mode=m, injection_scale=gamma, order=order,
                                                                      vorticity_convection_scale=cscale)
        else:
            # the laminar profile carries no convection, so the documented solution does not depend on the convection scale
            st = ex.stepper.KolmogorovFlowVorticity(2, L, N, dt, diffusivity=nu, drag=drag, injection_mode=m,
                                                    injection_scale=gamma, order=order, convection_scale=cscale)
        u = jnp.zeros((1, N, N))
        g = np.asarray(ex.make_grid(2, L, N))
        want = (-m * s * gamma * amp * np.cos(m * s * g[1]))[None]
    else:
        st = ex.stepper.KolmogorovFlowVelocity(3, L, N, dt, diffusivity=nu, drag=drag, injection_mode=m,
                                               injection_scale=gamma, order=order)
        u = jnp.zeros((3, N, N, N))
        g = np.asarray(ex.make_grid(3, L, N))
        want = np.stack([gamma * amp * np.sin(m * s * g[1]), 0 * g[0], 0 * g[0]])
    for _ in range(steps):
        u = st(u)
    got = np.asarray(u)
    sc = float(np.max(np.abs(want))) + 1e-300
    err = float(np.max(np.abs(got - want)))
    return {"ok": bool(err <= 1e-9 * sc), "err": err, "scale": sc, "sigma": sig}


def probe_forced(seed):
    import jax.numpy as jnp
    import exponax as ex
    rng = np.random.default_rng(seed)
    st = ex.stepper.KortewegDeVries(1, 7.0, 16, 0.01)
    fs = ex.ForcedStepper(st)
    u = jnp.asarray(S.random_state(rng, 1, 1, 16))
    f = jnp.asarray(S.random_state(rng, 1, 1, 16))
    e0 = float(jnp.max(jnp.abs(fs(u, 0 * f) - st(u))))
    e1 = float(jnp.max(jnp.abs(fs(u, f) - st(u + 0.01 * f))))
    from exponax import spectral as sp
    e2 = float(jnp.max(jnp.abs(fs.step_fourier(sp.fft(u), sp.fft(f)) - st.step_fourier(sp.fft(u) + 0.01 * sp.fft(f)))))
    return {"ok": bool(max(e0, e1, e2) <= 1e-12), "zero": e0, "forced": e1, "fourier": e2}


def oracle(ctx, deep):
    fails = []
    rng = np.random.default_rng(ctx.seed + 4)
    Ls = [2 * np.pi, 1.0, 5.0]
    for dim in (2, 3):
        for L in Ls:
            for N in ([8, 9] if dim == 2 else [6, 7]) if not deep else ([6, 7, 8, 9, 12] if dim == 2 else [5, 6, 7, 8]):
                for order in ([2, 4] if not deep else [1, 2, 3, 4]):
                    m = int(rng.integers(1, max(2, N // 3)))
                    gamma, nu, drag = float(rng.uniform(0.3, 1.5)), float(rng.uniform(0.005, 0.05)), float(rng.uniform(-0.2, -0.01))
                    dt, steps = float(rng.choice([0.01, 0.1, 0.5])), int(rng.integers(1, 8))
                    if rng.uniform() < 0.3:
                        gamma = -gamma
                    for general in ([False, True] if dim == 2 else [False]):
                        cscale = float(rng.choice([1.0, -1.0, 2.0, 0.4])) if dim == 2 else 1.0
                        r = probe_laminar(dim, L, N, m, gamma, nu, drag, order, dt, steps, general, cscale)
                        ctx.count(("oracle_laminar", dim, round(L, 3), N, order, general))
                        if not r["ok"]:
                            nm = ("GeneralVorticityConvectionStepper" if general else "KolmogorovFlowVorticity") if dim == 2 else "KolmogorovFlowVelocity"
                            fails.append({"key": f"C12:laminar:{nm}:{'L=2pi' if abs(L - 2 * np.pi) < 1e-12 else 'L!=2pi'}",
                                          "what": f"{nm} from rest does not reproduce the laminar solution of the documented forcing (L={L:.4g}, N={N}, m={m}, order={order}, dt={dt}, steps={steps}): {r}",
                                          "probe": "laminar", "args": {"dim": dim, "L": L, "N": N, "m": m, "gamma": gamma, "nu": nu, "drag": drag,
                                                                        "order": order, "dt": dt, "steps": steps, "general": general}, "observed": r})
    # injection at the highest wavenumber the grid resolves below Nyquist, (N-1)//2 (odd N: the last stored mode of the
    # half axis, whose coefficient-extraction scaling is N/2 like every other non-zero mode)
    for N in ([9, 8] if not deep else [7, 8, 9, 11, 12, 13]):
        for general in (False, True):
            for L in ([2 * np.pi, 3.7] if not deep else Ls):
                m = (N - 1) // 2
                gamma, nu, drag = float(rng.uniform(0.3, 1.5)) * (1 if rng.uniform() < 0.7 else -1), float(rng.uniform(0.005, 0.05)), float(rng.uniform(-0.2, -0.01))
                order, dt, steps = int(rng.integers(1, 5)), float(rng.choice([0.01, 0.1])), int(rng.integers(1, 4))
                r = probe_laminar(2, L, N, m, gamma, nu, drag, order, dt, steps, general, 1.0)
                ctx.count(("oracle_laminar_topmode", N, general))
                if not r["ok"]:
                    nm = "GeneralVorticityConvectionStepper" if general else "KolmogorovFlowVorticity"
                    fails.append({"key": f"C12:laminar-topmode:{nm}",
                                  "what": f"{nm} from rest, forced at the highest resolved wavenumber m={(N - 1) // 2} of N={N}, does not reproduce the laminar solution (L={L:.4g}, order={order}, dt={dt}, steps={steps}): {r}",
                                  "probe": "laminar", "args": {"dim": 2, "L": L, "N": N, "m": m, "gamma": gamma, "nu": nu, "drag": drag,
                                                                "order": order, "dt": dt, "steps": steps, "general": general}, "observed": r})
    r = probe_forced(ctx.seed)
    if not r["ok"]:
        fails.append({"key": "C12:forced-stepper", "what": f"ForcedStepper contract broken: {r}", "probe": "forced", "args": {"seed": ctx.seed}, "observed": r})
    seen, out = set(), []
    for f in fails:
        if f["key"] not in seen:
            seen.add(f["key"])
            out.append(f)
    return out


def replay(probe, args):
    return {"laminar": probe_laminar, "forced": probe_forced}[probe](**args)
