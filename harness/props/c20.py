"""C20 — malformed states and unsupported configurations are rejected, not accepted."""
from __future__ import annotations

import inspect

import numpy as np

from . import steppers as S

DIM_ONLY = {"NavierStokesVorticity": 2, "KolmogorovFlowVorticity": 2, "GeneralVorticityConvectionStepper": 2,
            "NavierStokesVelocity": 3, "KolmogorovFlowVelocity": 3}


def _ex():
    import exponax as ex
    return ex


def malformed_shapes(C, D, N):
    good = (C,) + (N,) * D
    out = [good, (C + 1,) + (N,) * D, (1,) + good, (N,) * D, (C,) + (N,) * (D + 1)]
    if C > 1:
        out.append((C - 1,) + (N,) * D)
        out.append((1,) + (N,) * D)
    if D >= 1:
        out.append((C,) + (N,) * (D - 1) + (N + 1,))
        out.append((C,) + (N - 1,) + (N,) * (D - 1))
        if D >= 2:
            out.append((C,) + (N,) * (D - 1))
            out.append((C,) + (N,) + (N + 1,) * (D - 1))
    out.append((C,) + (N,) * D + (1,))
    # de-duplicate, keep order
    seen, res = set(), []
    for s in out:
        if s not in seen:
            seen.add(s)
            res.append(s)
    return res


def call_outcome(fn, shape):
    import jax.numpy as jnp
    try:
        out = fn(jnp.ones(shape))
        return ("accept", tuple(out.shape))
    except ValueError:
        return ("ValueError", None)
    except NotImplementedError:
        return ("NotImplementedError", None)
    except TypeError:
        return ("TypeError", None)
    except Exception as e:  # noqa: BLE001
        return (type(e).__name__, None)


def exported_stepper_names():
    ex = _ex()
    names = []
    for mod in (ex.stepper, ex.stepper.generic, ex.stepper.reaction):
        for n in mod.__all__:
            o = getattr(mod, n)
            if inspect.isclass(o) and issubclass(o, ex.BaseStepper):
                names.append(n)
    return names


def correspondence(ctx):
    ex = _ex()
    d = ctx.driver
    rng = np.random.default_rng(ctx.seed)
    R = S.registry()
    exported = exported_stepper_names()
    missing = [n for n in exported if n not in R and n != "Wave"]
    ctx.compare("every exported stepper class is in the registry", [len(missing)], [0], exact=True, detail=missing)
    ctx.sample({"exported_steppers": exported})
    Ds = (1, 2, 3)
    for idx, name in enumerate(exported):
        # quick: one dimension per class (rotating), all dimensions for the dimension-restricted ones
        cls_Ds = Ds if (ctx.tier == "thorough" or name in DIM_ONLY) else ((idx + ctx.seed) % 3 + 1,)
        for D in cls_Ds:
            N = int(rng.choice([4, 5, 6]))
            only = DIM_ONLY.get(name)
            model_ok = d.ask(f"guard dim {only if only is not None else -1} {D}")[0]
            if name == "Wave":
                try:
                    st = ex.stepper.Wave(D, 2.0, N, 0.1)
                    built, C = 1, 2
                except ValueError:
                    built = 0
            else:
                try:
                    spec = R[name](rng, D if only is None else only, N, 1)
                    if only is not None and D != only:
                        # construct with the unsupported dimension
                        spec.D = D
                        if spec.pos is not None:
                            spec.pos = (D, N)
                    st = spec.build()
                    built, C = 1, spec.C     # the DOCUMENTED channel count of this configuration (from the constructor arguments)
                except ValueError:
                    built = 0
            ctx.count(("ctor", name, D))
            ctx.compare(f"{name} constructor dimension guard", [built], [model_ok], exact=True, cell=("ctor", name, D))
            if not built:
                continue
            if name != "Wave":
                ctx.compare(f"{name}.num_channels = documented channel count of the configuration", [int(st.num_channels)], [int(C)], exact=True,
                            cell=("channels", name, D), detail={"kwargs": {k: str(v) for k, v in spec.kwargs.items()}})
                # the channel count depends on the options (single_channel): every combination for D >= 2
                if D >= 2 and only is None:
                    from .c01 import option_combos
                    for forced in option_combos(name, D, N, ctx.seed + idx):
                        if "single_channel" not in forced:
                            break
                        S.FORCED_FLAGS.clear()
                        S.FORCED_FLAGS.update(forced)
                        try:
                            sp2 = R[name](np.random.default_rng(ctx.seed + idx), D, N, 1)
                        finally:
                            S.FORCED_FLAGS.clear()
                        st2 = sp2.build()
                        for shape in ((sp2.C,) + (N,) * D, (D + 1 - sp2.C,) + (N,) * D):
                            impl, _ = call_outcome(st2, shape)
                            model = d.ask(f"accepts {sp2.C} {D} {N} {len(shape)} " + " ".join(map(str, shape)))[0]
                            ctx.count(("call-options", name, D, bool(forced.get("single_channel"))))
                            ctx.compare(f"{name}.__call__ accept/reject (options {forced})", [1 if impl == "accept" else 0], [model], exact=True,
                                        cell=("call-options", name, D), detail={"shape": shape, "outcome": impl, "documented_channels": sp2.C,
                                                                               "kwargs": {k: str(v) for k, v in sp2.kwargs.items()}})
            for shape in malformed_shapes(C, D, N):
                impl, oshape = call_outcome(st, shape)
                model = d.ask(f"accepts {C} {D} {N} {len(shape)} " + " ".join(map(str, shape)))[0]
                ctx.count(("call", name, D, len(shape), shape[0] == C), True)
                ctx.bump(impl)
                ctx.compare(f"{name}.__call__ accept/reject", [1 if impl == "accept" else 0], [model], exact=True,
                            cell=("call", name, D), detail={"shape": shape, "outcome": impl, "expected_shape": (C,) + (N,) * D})
                if impl != "accept":
                    ctx.compare(f"{name}.__call__ rejection is a ValueError", [impl], ["ValueError"], exact=True,
                                detail={"shape": shape})
                else:
                    ctx.compare(f"{name}.__call__ output shape", list(oshape), list(shape), exact=True)
            # repeated stepper shares the guard
            if ctx.tier == "quick" and idx % 4 != 0:
                continue
            rep = ex.RepeatedStepper(st, 2)
            for shape in malformed_shapes(C, D, N)[:4]:
                impl, oshape = call_outcome(rep, shape)
                model = d.ask(f"accepts {C} {D} {N} {len(shape)} " + " ".join(map(str, shape)))[0]
                ctx.count(("repeated", name, D))
                ctx.compare(f"RepeatedStepper({name}).__call__ accept/reject", [1 if impl == "accept" else 0], [model],
                            exact=True, detail={"shape": shape, "outcome": impl})
            # ... and so does the forced stepper (state and forcing live on the same grid)
            fs = ex.ForcedStepper(st)
            for shape in malformed_shapes(C, D, N):
                impl, oshape = call_outcome(lambda u: fs(u, 0 * u), shape)
                model = d.ask(f"accepts {C} {D} {N} {len(shape)} " + " ".join(map(str, shape)))[0]
                ctx.count(("forced", name, D))
                ctx.compare(f"ForcedStepper({name}).__call__ accept/reject", [1 if impl == "accept" else 0], [model],
                            exact=True, cell=("forced", name, D), detail={"shape": shape, "outcome": impl})
    # Poisson
    for D in Ds:
        N = 6
        for order in (2, 4):
            p = ex.poisson.Poisson(D, 2.0, N, order=order)
            for shape in malformed_shapes(1, D, N) + malformed_shapes(3, D, N):
                impl, oshape = call_outcome(p, shape)
                model = d.ask(f"guard poisson {D} {N} {len(shape)} " + " ".join(map(str, shape)))[0]
                ctx.count(("poisson", D, order, len(shape)))
                ctx.compare("Poisson.__call__ accept/reject", [1 if impl == "accept" else 0], [model], exact=True,
                            detail={"shape": shape, "outcome": impl, "D": D})
    # operator parity
    import jax.numpy as jnp
    from exponax import spectral as sp
    dop = sp.build_derivative_operator(2, 1.0, 6)
    for order in range(0, 9):
        try:
            sp.build_laplace_operator(dop, order=order)
            ok = 1
        except ValueError:
            ok = 0
        ctx.compare("build_laplace_operator order parity", [ok], d.ask(f"guard lap {order}"), exact=True, detail=order)
        try:
            sp.build_gradient_inner_product_operator(dop, jnp.ones(2), order=order)
            ok = 1
        except ValueError:
            ok = 0
        ctx.compare("build_gradient_inner_product_operator order parity", [ok], d.ask(f"guard grad {order}"), exact=True, detail=order)
        ctx.count(("parity", order))
    for vshape in [(2,), (3,), (1,), (2, 1)]:
        try:
            sp.build_gradient_inner_product_operator(dop, jnp.ones(vshape), order=1)
            ok = 1
        except ValueError:
            ok = 0
        ctx.compare("gradient inner product velocity shape", [ok], [1 if vshape == (2,) else 0], exact=True, detail=vshape)
    # generator option validation
    from exponax import ic
    gens = {
        "RandomTruncatedFourierSeries": lambda **kw: ic.RandomTruncatedFourierSeries(1, **kw),
        "GaussianRandomField": lambda **kw: ic.GaussianRandomField(1, **kw),
        "DiffusedNoise": lambda **kw: ic.DiffusedNoise(1, **kw),
        "RandomDiscontinuities": lambda **kw: ic.RandomDiscontinuities(1, **kw),
        "RandomGaussianBlobs": lambda **kw: ic.RandomGaussianBlobs(1, **kw),
    }
    import jax
    for gname, mk in gens.items():
        for z in (0, 1):
            for sd in (0, 1):
                for m in (0, 1):
                    kw = {"zero_mean": bool(z), "std_one": bool(sd), "max_one": bool(m)}
                    try:
                        g = mk(**kw)
                        g(16, key=jax.random.PRNGKey(0))
                        ok = 1
                    except ValueError:
                        ok = 0
                    except TypeError:
                        continue  # generator does not take these options
                    ctx.count(("ic", gname, z, sd, m))
                    ctx.compare(f"ic.{gname} option validation", [ok], d.ask(f"guard ic {z} {sd} {m}"), exact=True, detail=kw)
    # generators that express "zero mean" through their offset range: documented as zero-mean iff the range is (0, 0);
    # any other range (symmetric about zero, degenerate at a non-zero value, one-sided) is an offset and is refused with
    # std_one exactly like zero_mean=False
    off_gens = {
        "RandomTruncatedFourierSeries": lambda **kw: ic.RandomTruncatedFourierSeries(1, **kw),
        "RandomSineWaves1d": lambda **kw: ic.RandomSineWaves1d(1, **kw),
    }
    for gname, mk in off_gens.items():
        for rng_ in ((0.0, 0.0), (-1.0, 1.0), (-0.5, 0.5), (0.0, 1.0), (0.5, 0.5), (-2.0, -1.0)):
            for sd in (0, 1):
                for m in (0, 1):
                    kw = {"offset_range": rng_, "std_one": bool(sd), "max_one": bool(m)}
                    try:
                        g = mk(**kw)
                        g(16, key=jax.random.PRNGKey(0))
                        ok = 1
                    except ValueError:
                        ok = 0
                    z = 1 if rng_ == (0.0, 0.0) else 0
                    ctx.count(("ic-offset", gname, rng_, sd, m))
                    ctx.compare(f"ic.{gname} option validation (offset range)", [ok], d.ask(f"guard ic {z} {sd} {m}"), exact=True,
                                cell=("ic-offset", gname), detail=kw)
    # metrics: mode needs a reference
    from exponax import metrics
    u = jnp.ones((1, 8))
    for mi, mode in enumerate(["absolute", "normalized", "symmetric"]):
        for hr in (0, 1):
            for fn in (metrics.spatial_norm, metrics.fourier_norm):
                if fn is metrics.fourier_norm and mode == "symmetric":
                    continue  # fourier_norm documents only "absolute" and "normalized"
                try:
                    fn(u, u * 2 if hr else None, mode=mode)
                    ok = 1
                except ValueError:
                    ok = 0
                ctx.count(("metric", mode, hr, fn.__name__))
                ctx.compare(f"metrics.{fn.__name__} mode guard", [ok], d.ask(f"guard metric {mi} {hr}"), exact=True,
                            detail={"mode": mode, "has_ref": hr})
    # nonlinear functions: channel / dimension guards
    from exponax import nonlin_fun as nf
    for D in (1, 2, 3):
        N = 6
        dop = sp.build_derivative_operator(D, 1.0, N)
        for C in (1, 2, 3):
            for single in (0, 1):
                f = nf.ConvectionNonlinearFun(D, N, derivative_operator=dop, single_channel=bool(single))
                uh = sp.fft(jnp.ones((C,) + (N,) * D))
                try:
                    f(uh)
                    ok = 1
                except (ValueError, TypeError):
                    ok = 0
                if single and C not in (1,):
                    continue  # single-channel mode with several channels is outside the documented contract
                ctx.count(("conv", D, C, single))
                ctx.compare("ConvectionNonlinearFun channel guard", [ok], d.ask(f"guard conv {single} {C} {D}"), exact=True,
                            detail={"D": D, "C": C, "single": single})
        for cls, only in ((nf.VorticityConvection2d, 2), (nf.ProjectedConvection3d, 3)):
            try:
                cls(D, N, derivative_operator=dop, dealiasing_fraction=2 / 3)
                ok = 1
            except ValueError:
                ok = 0
            ctx.compare(f"{cls.__name__} dimension guard", [ok], d.ask(f"guard dim {only} {D}"), exact=True, detail=D)
    ctx.exhaustive = True


def probe_shape(name, D, shape, options=None):
    ex = _ex()
    R = S.registry()
    rng = np.random.default_rng(0)
    N = 6
    rep = None
    forced = False
    spec = None
    if name.startswith("RepeatedStepper:"):
        _, name, rep = name.split(":")
    if name.startswith("ForcedStepper:"):
        _, name = name.split(":")
        forced = True
    if name == "Wave":
        st = ex.stepper.Wave(D, 2.0, N, 0.1)
    elif name == "Poisson":
        st = ex.poisson.Poisson(D, 2.0, N)
    else:
        S.FORCED_FLAGS.clear()
        S.FORCED_FLAGS.update(options or {})
        try:
            spec = R[name](rng, D, N, 1)
        finally:
            S.FORCED_FLAGS.clear()
        st = spec.build()
    # the configured channel count is the DOCUMENTED one of the constructor arguments (registry), not whatever the
    # built object says about itself
    C = spec.C if spec is not None else getattr(st, "num_channels", 1)
    if rep is not None:
        st = ex.RepeatedStepper(st, int(rep))
    good = (C,) + (N,) * D
    if forced:
        import jax.numpy as jnp
        fs = ex.ForcedStepper(st)
        st = lambda u: fs(u, 0 * u)   # noqa: E731
        if tuple(shape) != good:
            # a correctly shaped state with a forcing of this (wrong) shape is refused as well
            fimpl, _ = call_outcome(lambda f: fs(jnp.ones(good), f), tuple(shape))
            if fimpl != "ValueError":
                return {"ok": False, "outcome": f"forcing of shape {tuple(shape)} with a correct state: {fimpl}", "expected": "ValueError",
                        "configured": list(good)}
    impl, oshape = call_outcome(st, tuple(shape))
    expected = "accept" if tuple(shape) == good else "ValueError"
    if name == "Poisson" and rep is None:
        # the solver is channel-agnostic ("C ... N"): any leading channel count, exactly D spatial axes of length N
        expected = "accept" if (len(shape) == D + 1 and tuple(shape[1:]) == (N,) * D) else "ValueError"
        good = tuple(shape)
    return {"ok": impl == expected and (oshape is None or tuple(oshape) == good), "outcome": impl, "expected": expected,
            "configured": list(good)}


def probe_ic_options(gname, offset_range, std_one, max_one):
    """documented rule of `validate_normalization_options`: a non-zero mean cannot be combined with std_one, and std_one
    not with max_one; the offset-range generators are zero-mean exactly for the range (0, 0)"""
    import jax
    from exponax import ic
    mk = {"RandomTruncatedFourierSeries": ic.RandomTruncatedFourierSeries, "RandomSineWaves1d": ic.RandomSineWaves1d}[gname]
    zero_mean = tuple(offset_range) == (0.0, 0.0)
    invalid = ((not zero_mean) and std_one) or (std_one and max_one)
    try:
        g = mk(1, offset_range=tuple(offset_range), std_one=std_one, max_one=max_one)
        u = np.asarray(g(16, key=jax.random.PRNGKey(0)))
        outcome = "accept"
        extra = {"mean": float(u.mean()), "std": float(u.std())}
    except ValueError:
        outcome, extra = "ValueError", {}
    return {"ok": outcome == ("ValueError" if invalid else "accept"), "outcome": outcome,
            "expected": "ValueError" if invalid else "accept", **extra}


def oracle(ctx, deep):
    fails = []
    for gname in ("RandomTruncatedFourierSeries", "RandomSineWaves1d"):
        for rng_ in ((0.0, 0.0), (-1.0, 1.0), (-0.5, 0.5), (0.0, 1.0), (0.5, 0.5)):
            for sd in (False, True):
                for m in (False, True):
                    r = probe_ic_options(gname, rng_, sd, m)
                    ctx.count(("oracle_ic", gname, rng_, sd, m))
                    if not r["ok"]:
                        fails.append({"key": f"C20:ic-options:{gname}", "what": f"ic.{gname}(offset_range={rng_}, std_one={sd}, max_one={m}): {r['outcome']}, documented: {r['expected']} ({r})"[:400],
                                      "probe": "ic_options", "args": {"gname": gname, "offset_range": list(rng_), "std_one": sd, "max_one": m}, "observed": r})
    names = ["Burgers", "Diffusion", "KuramotoSivashinsky", "Wave", "GrayScott", "NavierStokesVorticity",
             "RepeatedStepper:Advection:1", "RepeatedStepper:Burgers:3", "RepeatedStepper:GrayScott:2", "Poisson",
             "ForcedStepper:Diffusion", "ForcedStepper:Burgers", "ForcedStepper:GrayScott"]
    if deep:
        names = exported_stepper_names() + ["RepeatedStepper:Advection:1", "RepeatedStepper:Burgers:3", "RepeatedStepper:Wave:2",
                                            "RepeatedStepper:GrayScott:2", "RepeatedStepper:NavierStokesVorticity:2", "Poisson",
                                            "ForcedStepper:Diffusion", "ForcedStepper:Burgers", "ForcedStepper:GrayScott",
                                            "ForcedStepper:Wave", "ForcedStepper:NavierStokesVorticity"]
    for name in names:
        for D in (1, 2, 3):
            if name in DIM_ONLY and DIM_ONLY[name] != D:
                continue
            ex = _ex()
            N = 6
            inner = name.split(":")[1] if name.startswith(("RepeatedStepper:", "ForcedStepper:")) else name
            if inner in DIM_ONLY and DIM_ONLY[inner] != D:
                continue
            try:
                if inner == "Wave":
                    st = ex.stepper.Wave(D, 2.0, N, 0.1)
                elif inner == "Poisson":
                    st = ex.poisson.Poisson(D, 2.0, N)
                    combos = [None]
                else:
                    from .c01 import option_combos
                    combos = option_combos(inner, D, N, 0) if D >= 2 else [None]
                    combos = [c for c in combos if c and "single_channel" in c] or [None]
            except Exception:
                continue
            if inner in ("Wave", "Poisson"):
                combos = [None]
            for options in combos:
                if options is None:
                    C = 2 if inner == "Wave" else (1 if inner == "Poisson" else S.registry()[inner](np.random.default_rng(0), D, N, 1).C)
                else:
                    C = 1 if options.get("single_channel") else D
                hit = False
                for shape in malformed_shapes(C, D, N):
                    r = probe_shape(name, D, shape, options)
                    ctx.count(("oracle", name, D, tuple(shape), repr(options)))
                    if not r["ok"]:
                        fails.append({"key": f"C20:shape:{name}", "what": f"{name} (D={D}, options {options}) given shape {tuple(shape)}: {r['outcome']}, expected {r['expected']} (configured {r['configured']})",
                                      "probe": "shape", "args": {"name": name, "D": D, "shape": list(shape), "options": options}, "observed": r})
                        hit = True
                        break
                if hit:
                    break
    # vector-valued coefficients that go through the velocity-shape guard of the gradient-inner-product operator: a
    # vector of any length other than D is refused (not broadcast over the axes), one of length D is accepted
    for cname in VECTOR_COEFFS:
        for D in (1, 2, 3):
            for n in (1, 2, 3, 4):
                r = probe_vector_coefficient(cname, D, n)
                ctx.count(("oracle_vector_coefficient", cname, D, n))
                if not r["ok"]:
                    fails.append({"key": f"C20:vector-coefficient:{cname}", "what": f"{cname} in D={D} given a coefficient vector of length {n}: {r['outcome']}, expected {r['expected']}",
                                  "probe": "vector_coefficient", "args": {"cname": cname, "D": D, "n": n}, "observed": r})
    for where in ("laplace", "gradient_inner_product", "Poisson", "Leray"):
        for D in (1, 2, 3):
            for order in (1, 2, 3, 4, 5, 6):
                try:
                    r = probe_order_parity(where, D, order)
                except (ImportError, TypeError):
                    continue       # an entry point without an `order` argument has no parity to refuse
                ctx.count(("oracle_order_parity", where, D, order))
                if not r["ok"]:
                    fails.append({"key": f"C20:order-parity:{where}", "what": f"{where} (D={D}) given derivative order {order}: {r['outcome']}, expected {r['expected']}",
                                  "probe": "order_parity", "args": {"where": where, "D": D, "order": order}, "observed": r})
    for D in (1, 2, 3):
        for order in (0, 1, 2, 3, 4):
            for kind in ("broadcast", "per_channel", "three_channels", "extra_axis", "missing_axis"):
                r = probe_operator_shape(D, order, kind)
                ctx.count(("oracle_operator_shape", D, order, kind))
                if not r["ok"]:
                    fails.append({"key": f"C20:operator-shape:{kind}", "what": f"a stepper (D={D}, order={order}, 2 channels) whose linear operator has the '{kind}' shape: {r['outcome']}, expected {r['expected']}",
                                  "probe": "operator_shape", "args": {"D": D, "order": order, "kind": kind}, "observed": r})
    seen, out = set(), []
    for f in fails:
        if f["key"] not in seen:
            seen.add(f["key"])
            out.append(f)
    return out


def probe_operator_shape(D, order, kind):
    """the linear-operator shape check at construction (`_base_stepper.py`): a user stepper whose `_build_linear_operator`
    returns the wrong number of channels / an extra axis is refused for EVERY order 0..4; the right shapes ((1,)+modes and
    (C,)+modes) are accepted and the step preserves the state shape"""
    import equinox as eqx   # noqa: F401
    import jax.numpy as jnp
    ex = _ex()
    from exponax.nonlin_fun import ZeroNonlinearFun
    from exponax._spectral import build_laplace_operator
    N = 6

    class Custom(ex.BaseStepper):
        kind: str

        def __init__(self, kind):
            self.kind = kind
            super().__init__(num_spatial_dims=D, domain_extent=1.0, num_points=N, dt=0.1, num_channels=2, order=order)

        def _build_linear_operator(self, derivative_operator):
            base = 0.01 * build_laplace_operator(derivative_operator, order=2)     # (1,) + modes
            return {"broadcast": base, "per_channel": jnp.concatenate([base, 2 * base]), "three_channels": jnp.concatenate([base, base, base]),
                    "extra_axis": base[None], "missing_axis": base[0]}[self.kind]

        def _build_nonlinear_fun(self, derivative_operator):
            return ZeroNonlinearFun(D, N)
    expected = "accepted" if kind in ("broadcast", "per_channel") else "ValueError"
    try:
        st = Custom(kind)
        out = st(jnp.ones((2,) + (N,) * D))
        outcome = "accepted" if out.shape == (2,) + (N,) * D else f"accepted with output shape {tuple(out.shape)}"
    except ValueError:
        outcome = "ValueError"
    except Exception as e:   # noqa: BLE001
        outcome = type(e).__name__
    return {"ok": outcome == expected, "outcome": outcome, "expected": expected}


VECTOR_COEFFS = {"Advection.velocity": ("Advection", "velocity"), "AdvectionDiffusion.velocity": ("AdvectionDiffusion", "velocity"),
                 "Dispersion.dispersivity": ("Dispersion", "dispersivity")}


def probe_order_parity(where, D, order):
    """every public entry point that takes a derivative order of prescribed parity — the two operator builders and the
    objects that build a Laplacian themselves (`Poisson`, the `Leray` projection) — refuses the wrong parity (ValueError)
    and accepts the right one"""
    ex = _ex()
    import jax.numpy as jnp
    from exponax import spectral as sp
    N = {1: 8, 2: 6, 3: 4}[D]
    dop = sp.build_derivative_operator(D, 1.7, N)
    even_wanted = where != "gradient_inner_product"
    expected = "accept" if (order % 2 == 0) == even_wanted else "ValueError"

    def run():
        if where == "laplace":
            return sp.build_laplace_operator(dop, order=order)
        if where == "gradient_inner_product":
            return sp.build_gradient_inner_product_operator(dop, jnp.ones((D,)), order=order)
        if where == "Poisson":
            return ex.poisson.Poisson(D, 1.7, N, order=order)
        if where == "Leray":
            from exponax.nonlin_fun._leray import Leray
            return Leray(D, N, derivative_operator=dop, order=order)
        raise KeyError(where)
    try:
        run()
        outcome = "accept"
    except ValueError:
        outcome = "ValueError"
    except Exception as e:  # noqa: BLE001
        outcome = type(e).__name__
    return {"ok": outcome == expected, "outcome": outcome, "expected": expected}


def probe_vector_coefficient(cname, D, n):
    import jax.numpy as jnp
    ex = _ex()
    cls, arg = VECTOR_COEFFS[cname]
    N = 6
    expected = "accepted" if n == D else "ValueError"
    try:
        st = getattr(ex.stepper, cls)(D, 1.0, N, 0.1, **{arg: jnp.asarray([0.2, -0.1, 0.3, 0.15][:n])})
        out = st(jnp.ones((1,) + (N,) * D))
        outcome = "accepted" if out.shape == (1,) + (N,) * D else f"accepted with output shape {out.shape}"
    except ValueError:
        outcome = "ValueError"
    except Exception as e:   # noqa: BLE001
        outcome = type(e).__name__
    return {"ok": outcome == expected, "outcome": outcome, "expected": expected}


def replay(probe, args):
    return {"shape": probe_shape, "ic_options": probe_ic_options, "vector_coefficient": probe_vector_coefficient,
            "operator_shape": probe_operator_shape, "order_parity": probe_order_parity}.get(probe, probe_shape)(**args)
