"""C06 — results are invariant under jit, vmap and scan composition."""
from __future__ import annotations

import numpy as np

from . import steppers as S


def _tol(ref):
    return 1e-10 * (float(np.max(np.abs(ref))) + 1e-300)


def correspondence(ctx):
    import equinox as eqx
    import jax
    import jax.numpy as jnp
    import exponax as ex
    rng = np.random.default_rng(ctx.seed)
    R = S.registry()
    names = list(R.keys())
    if ctx.tier == "quick":
        names = [n for i, n in enumerate(names) if (i + ctx.seed) % 3 == 0] + ["KolmogorovFlowVelocity", "GeneralVorticityConvectionStepper"]
    for idx, name in enumerate(dict.fromkeys(names)):
        D = {0: 1, 1: 2, 2: 3}[idx % 3]
        N = {1: 10, 2: 6, 3: 5}[D]
        order = 0 if name in S.LINEAR else int(rng.integers(1, 5))
        spec = R[name](rng, D, N, order)
        if spec is None:
            D = 2 if "Vorticity" in name else 3
            N = 6 if D == 2 else 5
            spec = R[name](rng, D, N, order)
        st = spec.build()
        B = 3
        us = np.stack([S.random_state(rng, spec.C, spec.D, spec.N, "noise") for _ in range(B)])
        model = np.stack([np.asarray(ctx.driver.ask(spec.fullstep_line(us[b])), dtype=float).reshape(us[b].shape) for b in range(B)])
        kw = {"rtol": 1e-9 + 4e-15 * spec.zmax()}
        out_vmap = np.asarray(jax.vmap(st)(jnp.asarray(us)))
        ctx.count(("vmap", name, spec.D), True)
        ctx.compare(f"jax.vmap({name}) vs model per member", out_vmap, model, cell=("vmap", name), **kw)
        out_jit = np.asarray(eqx.filter_jit(st)(jnp.asarray(us[0])))
        ctx.count(("jit", name, spec.D), True)
        ctx.compare(f"filter_jit({name}) vs model", out_jit, model[0], cell=("jit", name), **kw)
        # rollout under jit+vmap vs repeated model steps
        n = 2
        trj = np.asarray(jax.vmap(eqx.filter_jit(ex.rollout(st, n)))(jnp.asarray(us)))   # (B, n, C, ...)
        cur = model
        ok_shape = trj.shape == (B, n) + us.shape[1:]
        ctx.compare("vmap(jit(rollout)) output shape (batch, time, ...)", [int(ok_shape)], [1], exact=True)
        if ok_shape:
            ctx.compare(f"vmap(jit(rollout({name}, 2)))[:, 0] vs model", trj[:, 0], model, cell=("rollout0", name), **kw)
            model2 = np.stack([np.asarray(ctx.driver.ask(spec.fullstep_line(model[b])), dtype=float).reshape(us[b].shape) for b in range(B)])
            if np.all(np.isfinite(model2)):
                ctx.compare(f"vmap(jit(rollout({name}, 2)))[:, 1] vs model", trj[:, 1], model2, cell=("rollout1", name),
                            rtol=1e-8 + 1e-14 * spec.zmax())
        ctx.bump(name)
    ctx.sample({"transformations": ["jax.vmap over states", "eqx.filter_jit", "vmap(jit(rollout))"]})


def probe_invariance(name, D, N, order, seed):
    import equinox as eqx
    import jax
    import jax.numpy as jnp
    import exponax as ex
    rng = np.random.default_rng(seed)
    spec = S.registry()[name](rng, D, N, order)
    if spec is None:
        return {"ok": True, "skipped": "dimension"}
    st = spec.build()
    B = 3
    us = np.stack([S.random_state(rng, spec.C, D, N, "noise") for _ in range(B)])
    eager = np.stack([np.asarray(st(jnp.asarray(us[b]))) for b in range(B)])
    if not np.all(np.isfinite(eager)):
        return {"ok": True, "skipped": "non-finite"}
    res = {}
    tol = _tol(eager) * (1 + 1e-4 * spec.zmax())
    res["jit"] = float(np.max(np.abs(np.asarray(eqx.filter_jit(st)(jnp.asarray(us[1]))) - eager[1])))
    vm = np.asarray(jax.vmap(st)(jnp.asarray(us)))
    res["vmap"] = float(np.max(np.abs(vm - eager)))
    # each batch member depends only on that member
    us2 = us.copy()
    us2[1] = us2[1] * 3.0 + 1.0
    vm2 = np.asarray(jax.vmap(st)(jnp.asarray(us2)))
    res["independence"] = float(max(np.max(np.abs(vm2[0] - vm[0])), np.max(np.abs(vm2[2] - vm[2]))))
    # mapping a rollout = rolling out the mapped stepper with batch and time axes exchanged
    n = 3
    a = np.asarray(jax.vmap(ex.rollout(st, n))(jnp.asarray(us)))            # (B, n, ...)
    b = np.asarray(ex.rollout(jax.vmap(st), n)(jnp.asarray(us)))            # (n, B, ...)
    fin = np.all(np.isfinite(a)) and np.all(np.isfinite(b))
    res["exchange"] = float(np.max(np.abs(a - np.swapaxes(b, 0, 1)))) if fin else 0.0
    rp = np.asarray(eqx.filter_jit(ex.repeat(st, n))(jnp.asarray(us[0])))
    res["repeat_jit"] = float(np.max(np.abs(rp - a[0, -1]))) if fin else 0.0
    sc_roll = (float(np.max(np.abs(a))) + 1e-300) if fin else 1.0
    # a stacked batch handed to the stepper WITHOUT vmap (batch size = channel count, the one size a per-axis shape
    # test cannot tell from a state): either refused, or every member's result is that member's own result
    Bc = spec.C
    usc = np.stack([S.random_state(rng, spec.C, D, N, "noise") for _ in range(Bc)])
    try:
        got = np.asarray(st(jnp.asarray(usc)))
    except Exception:
        got = None
    if got is not None:
        own = np.stack([np.asarray(st(jnp.asarray(usc[b]))) for b in range(Bc)])
        res["unmapped_stack"] = float(np.max(np.abs(got - own))) if got.shape == own.shape else float("inf")
    bad = {k: v for k, v in res.items() if v > (tol if k in ("jit", "vmap", "independence", "unmapped_stack") else 1e-9 * sc_roll * (1 + 1e-4 * spec.zmax()))}
    return {"ok": not bad, "bad": bad, "all": res}


def probe_forced_invariance(D, seed, constant=True, include_init=False):
    """steppers with an auxiliary input (ForcedStepper) through rollout / repeat, jit and vmap: scanned = eager loop,
    rollout(vmap(s)) = vmap(rollout(s)) with axes exchanged, a member depends only on its own forcing — for a
    multi-channel state (leading aux axis > 1) and for batched members with DIFFERENT forcings"""
    import equinox as eqx
    import jax
    import jax.numpy as jnp
    import exponax as ex
    rng = np.random.default_rng(seed)
    N = {1: 10, 2: 6, 3: 5}[D]
    C = D if D > 1 else 1
    inner = ex.stepper.Burgers(D, 2.0, N, 0.05, diffusivity=0.03) if D > 1 else ex.stepper.KortewegDeVries(1, 6.0, N, 0.01)
    fs = ex.ForcedStepper(inner)
    n, B = 3, 3
    u0 = rng.normal(size=(B, C) + (N,) * D) * 0.3
    f = rng.normal(size=((B, C) if constant else (B, n, C)) + (N,) * D) * 0.5
    ju, jf = jnp.asarray(u0), jnp.asarray(f)

    def eager(b):
        cur, out = ju[b], []
        for t in range(n):
            cur = fs(cur, jf[b] if constant else jf[b, t])
            out.append(np.asarray(cur))
        return np.stack(out)
    ref = np.stack([eager(b) for b in range(B)])                     # (B, n, C, ...)
    if include_init:                                                  # the initial state in front: (B, n+1, C, ...)
        ref = np.concatenate([u0[:, None], ref], axis=1)
    res = {}
    ro = ex.rollout(fs, n, takes_aux=True, constant_aux=constant, include_init=include_init)
    rp = ex.repeat(fs, n, takes_aux=True, constant_aux=constant)
    res["rollout_vs_loop"] = float(np.max(np.abs(np.asarray(ro(ju[0], jf[0])) - ref[0])))
    res["jit_rollout_vs_loop"] = float(np.max(np.abs(np.asarray(eqx.filter_jit(ro)(ju[1], jf[1])) - ref[1])))
    res["repeat_vs_loop"] = float(np.max(np.abs(np.asarray(rp(ju[2], jf[2])) - ref[2, -1])))
    res["vmap_rollout_vs_loop"] = float(np.max(np.abs(np.asarray(jax.vmap(ro)(ju, jf)) - ref)))
    # rolling out the mapped stepper: the aux of the scan is (n, B, ...) when it is consumed in order
    vfs = jax.vmap(fs)
    aux_b = jf if constant else jnp.swapaxes(jf, 0, 1)
    rb = np.asarray(ex.rollout(vfs, n, takes_aux=True, constant_aux=constant, include_init=include_init)(ju, aux_b))      # (n, B, ...)
    res["rollout_vmap_exchange"] = float(np.max(np.abs(np.swapaxes(rb, 0, 1) - ref)))
    res["repeat_vmap_vs_loop"] = float(np.max(np.abs(np.asarray(ex.repeat(vfs, n, takes_aux=True, constant_aux=constant)(ju, aux_b)) - ref[:, -1])))
    f2 = np.array(f)
    f2[B - 1] = f2[B - 1] * 2.0 + 0.1
    aux_b2 = jnp.asarray(f2) if constant else jnp.swapaxes(jnp.asarray(f2), 0, 1)
    rb2 = np.asarray(ex.rollout(vfs, n, takes_aux=True, constant_aux=constant, include_init=include_init)(ju, aux_b2))
    res["member_independent_of_other_forcing"] = float(np.max(np.abs(rb2[:, 0] - rb[:, 0])))
    tol = 1e-10 * (float(np.max(np.abs(ref))) + 1e-300)
    bad = {k: v for k, v in res.items() if not v <= tol}
    return {"ok": not bad, "bad": bad, "all": res}


def probe_ctor_sweep(case, seed):
    """eqx.filter_vmap over constructor parameters vs one-at-a-time construction"""
    import equinox as eqx
    import jax
    import jax.numpy as jnp
    import exponax as ex
    rng = np.random.default_rng(seed)
    st, gen = ex.stepper, ex.stepper.generic
    if case == "Advection.velocity":
        D, N = 2, 8
        params = jnp.asarray(rng.uniform(-1, 1, (3, D)))
        mk = lambda p: st.Advection(D, 2.0, N, 0.1, velocity=p)
        C = 1
    elif case == "Diffusion.diffusivity":
        D, N = 2, 8
        params = jnp.asarray(rng.uniform(0.01, 0.2, (3, D)))
        mk = lambda p: st.Diffusion(D, 2.0, N, 0.1, diffusivity=p)
        C = 1
    elif case == "Burgers.diffusivity":
        D, N = 1, 12
        params = jnp.asarray(rng.uniform(0.01, 0.2, (3,)))
        mk = lambda p: st.Burgers(D, 2.0, N, 0.05, diffusivity=p)
        C = 1
    elif case == "KuramotoSivashinsky.dt":
        D, N = 1, 12
        params = jnp.asarray(rng.uniform(0.01, 0.1, (3,)))
        mk = lambda p: st.KuramotoSivashinsky(D, 20.0, N, p)
        C = 1
    elif case == "GeneralVorticityConvectionStepper.injection_scale":
        D, N = 2, 8
        params = jnp.asarray([-1.0, -0.4, 0.0, 0.5, 1.0])   # both signs and exactly zero: no value-dependent shortcut may differ
        # every OTHER constructor argument non-default: the two code paths a concrete zero / a traced value select must
        # build the same term with the same scales
        mk = lambda p: gen.GeneralVorticityConvectionStepper(D, 2.0, N, 0.01, injection_scale=p, injection_mode=2,
                                                             vorticity_convection_scale=0.6, linear_coefficients=(-0.05, 0.0, 0.02),
                                                             order=3, dealiasing_fraction=0.6)
        C = 1
    elif case.endswith("(scalar)"):
        # a SCALAR coefficient swept in D >= 2 (the traced value is a 0-d array): the same numbers as Python floats one at a
        # time — or, where the constructor documents "float or array of shape (D,)" and refuses a 0-d array eagerly as
        # well, the same refusal
        cname, arg = case[:-len("(scalar)")].split(".")
        D, N = (2, 8) if seed % 2 == 0 else (3, 5)
        params = jnp.asarray(rng.uniform(0.01, 0.2, (3,)))
        mk = lambda p: getattr(st, cname)(D, 2.0, N, 0.1, **{arg: p})
        C = 1
    else:
        raise KeyError(case)
    u = jnp.asarray(S.random_state(rng, C, D, N, "noise"))
    try:
        sts = eqx.filter_vmap(mk)(params)
        out = np.asarray(eqx.filter_vmap(lambda s: s(u))(sts))
    except Exception as e:  # noqa: BLE001
        if case.endswith("(scalar)"):
            try:
                mk(jnp.asarray(params[0]))
            except Exception as e2:  # noqa: BLE001
                if type(e2) is type(e):
                    return {"ok": True, "skipped": f"0-d array argument rejected eagerly too ({type(e).__name__})"}
        return {"ok": False, "exception": f"{type(e).__name__}: {str(e)[:160]}"}
    ref = np.stack([np.asarray(mk(p if p.ndim else float(p))(u)) for p in params])
    err = float(np.max(np.abs(out - ref)))
    return {"ok": bool(err <= _tol(ref)), "err": err}


def sweepable_params(spec):
    """(kwarg, index) pairs of the float-valued constructor arguments of a registry Spec: plain floats and the entries of
    float tuples (linear / polynomial / nonlinear coefficient lists)"""
    out = []
    for k, v in spec.kwargs.items():
        if isinstance(v, bool) or k in ("order", "injection_mode", "num_circle_points"):
            continue
        if isinstance(v, float):
            out.append((k, None))
        elif isinstance(v, tuple) and v and all(isinstance(x, float) for x in v):
            out += [(k, i) for i in range(len(v))]
    return out


def probe_generic_sweep(name, D, N, order, seed, param, index=None, values=None):
    """eqx.filter_vmap over ONE float constructor argument (traced) vs building the steppers one at a time with Python
    floats — for any stepper class of the registry and any of its float arguments"""
    import equinox as eqx
    import jax.numpy as jnp
    rng = np.random.default_rng(seed)
    spec = S.registry()[name](rng, D, N, order)
    if spec is None:
        return {"ok": True, "skipped": "dimension"}
    if values is not None:
        vals = [float(v) for v in values]     # an argument the registry leaves at its default (dealiasing_fraction, ...)
    else:
        base = spec.kwargs[param] if index is None else spec.kwargs[param][index]
        vals = [base * f if base != 0 else f - 1.0 for f in (0.6, 1.0, 1.5)]

    def mk(p):
        kw = dict(spec.kwargs)
        if index is None:
            kw[param] = p
        else:
            t = list(kw[param])
            t[index] = p
            kw[param] = tuple(t)
        return spec.cls(*spec.pos, **kw) if spec.pos is not None else spec.cls(spec.D, spec.L, spec.N, spec.dt, **kw)
    u = jnp.asarray(S.random_state(rng, spec.C, D, N, "noise"))
    try:
        ref = np.stack([np.asarray(mk(float(p))(u)) for p in vals])
    except Exception as e:  # noqa: BLE001
        return {"ok": True, "skipped": f"eager construction rejects the value: {type(e).__name__}"}
    if not np.all(np.isfinite(ref)):
        return {"ok": True, "skipped": "non-finite"}
    try:
        sts = eqx.filter_vmap(mk)(jnp.asarray(vals))
        out = np.asarray(eqx.filter_vmap(lambda s_: s_(u))(sts))
    except Exception as e:  # noqa: BLE001
        # a constructor that documents "float or (D,) array" rejects a 0-d ARRAY eagerly as well: then the rejection
        # under tracing is the same behaviour, not a difference between batched and one-at-a-time evaluation
        try:
            mk(jnp.asarray(vals[0]))
        except Exception as e2:  # noqa: BLE001
            if type(e2) is type(e):
                return {"ok": True, "skipped": f"0-d array argument rejected eagerly too ({type(e).__name__})"}
        return {"ok": False, "exception": f"{type(e).__name__}: {str(e)[:200]}", "values": vals}
    err = float(np.max(np.abs(out - ref)))
    return {"ok": bool(err <= _tol(ref) * (1 + 1e-4 * spec.zmax())), "err": err, "values": vals}


SWEEPS = ["Advection.velocity", "Diffusion.diffusivity", "Burgers.diffusivity", "KuramotoSivashinsky.dt",
          "GeneralVorticityConvectionStepper.injection_scale",
          "Diffusion.diffusivity(scalar)", "AdvectionDiffusion.diffusivity(scalar)", "AdvectionDiffusion.velocity(scalar)",
          "Advection.velocity(scalar)", "Dispersion.dispersivity(scalar)", "HyperDiffusion.hyper_diffusivity(scalar)"]


def oracle(ctx, deep):
    fails = []
    R = S.registry()
    names = list(R.keys())
    rng = np.random.default_rng(ctx.seed + 31)
    for idx, name in enumerate(names):
        if not deep and (idx + ctx.seed) % 4 != 0 and name not in ("Burgers", "NavierStokesVelocity"):
            continue
        D = idx % 3 + 1
        if "Vorticity" in name:
            D = 2
        if "Velocity" in name:
            D = 3
        N = {1: 10, 2: 6, 3: 5}[D]
        order = 0 if name in S.LINEAR else int(rng.integers(1, 5))
        r = probe_invariance(name, D, N, order, ctx.seed + idx)
        ctx.count(("oracle_invariance", name, D, order))
        if not r["ok"]:
            for k in r["bad"]:
                fails.append({"key": f"C06:{k}:{name}", "what": f"{name} (D={D}, order={order}): '{k}' differs from the eager one-at-a-time evaluation by {r['bad'][k]:.2e}",
                              "probe": "invariance", "args": {"name": name, "D": D, "N": N, "order": order, "seed": ctx.seed + idx}, "observed": r})
    for D in (1, 2) if not deep else (1, 2, 3):
        for constant, include_init in ((True, False), (False, False), (False, True), (True, True)):
            r = probe_forced_invariance(D, ctx.seed + D, constant, include_init)
            ctx.count(("oracle_forced_invariance", D, constant, include_init))
            if not r["ok"]:
                for k in r["bad"]:
                    fails.append({"key": f"C06:forced:{k}", "what": f"ForcedStepper through rollout/repeat (D={D}, constant_aux={constant}, include_init={include_init}): '{k}' differs from the eager one-at-a-time loop by {r['bad'][k]:.2e}",
                                  "probe": "forced_invariance", "args": {"D": D, "seed": ctx.seed + D, "constant": constant, "include_init": include_init}, "observed": r})
    for case in SWEEPS:
        r = probe_ctor_sweep(case, ctx.seed)
        ctx.count(("oracle_sweep", case))
        if not r["ok"]:
            fails.append({"key": f"C06:ctor-sweep:{case}", "what": f"filter_vmap over {case}: {r}", "probe": "ctor_sweep",
                          "args": {"case": case, "seed": ctx.seed}, "observed": r})
    # every float constructor argument of every stepper class, traced: quick = a seed-dependent third + the polynomial /
    # reaction / forcing coefficients, deep = all
    always = {("FisherKPP", "reactivity"), ("AllenCahn", "third_order_coefficient"), ("GeneralPolynomialStepper", "polynomial_coefficients"),
              ("GeneralNonlinearStepper", "nonlinear_coefficients"), ("KolmogorovFlowVorticity", "injection_scale"),
              ("SwiftHohenberg", "reactivity"), ("GrayScott", "feed_rate")}
    k = 0
    for idx, name in enumerate(names):
        D = 2 if "Vorticity" in name else (3 if "Velocity" in name else (idx % 2) + 1)
        N = {1: 10, 2: 6, 3: 5}[D]
        order = 0 if name in S.LINEAR else (idx % 4) + 1
        spec0 = R[name](np.random.default_rng(ctx.seed + idx), D, N, order)
        if spec0 is None:
            continue
        for (param, index) in sweepable_params(spec0):
            k += 1
            if not deep and (name, param) not in always and (k + ctx.seed) % 3 != 0:
                continue
            r = probe_generic_sweep(name, D, N, order, ctx.seed + idx, param, index)
            ctx.count(("oracle_param_sweep", name, param, index))
            if not r["ok"]:
                fails.append({"key": f"C06:param-sweep:{name}.{param}", "what": f"filter_vmap over {name}({param}{'' if index is None else '[' + str(index) + ']'}=...) differs from building the steppers one at a time: {r}"[:400],
                              "probe": "generic_sweep", "args": {"name": name, "D": D, "N": N, "order": order, "seed": ctx.seed + idx, "param": param, "index": index}, "observed": r})
    # arguments every nonlinear stepper forwards but the registry leaves at their defaults, over their whole admissible
    # range (a dealiasing fraction above 1 keeps every mode; a clip or branch applied to concrete values only would
    # make the traced construction differ): quick = a seed-dependent quarter + three fixed classes, deep = all
    import inspect
    COMMON = {"dealiasing_fraction": (0.5, 2 / 3, 1.0, 1.25, 2.0), "circle_radius": (0.5, 1.0, 2.0)}
    for idx, name in enumerate(names):
        if name in S.LINEAR:
            continue
        D = 2 if "Vorticity" in name else (3 if "Velocity" in name else (idx % 2) + 1)
        N = {1: 10, 2: 6, 3: 5}[D]
        order = (idx % 4) + 1
        spec0 = R[name](np.random.default_rng(ctx.seed + idx), D, N, order)
        if spec0 is None:
            continue
        sig = inspect.signature(spec0.cls.__init__).parameters
        for param, values in COMMON.items():
            if param not in sig or param in spec0.kwargs:
                continue
            if not deep and (idx + ctx.seed) % 4 != 0 and name not in ("Burgers", "GeneralNonlinearStepper", "KuramotoSivashinsky"):
                continue
            r = probe_generic_sweep(name, D, N, order, ctx.seed + idx, param, None, list(values))
            ctx.count(("oracle_param_sweep", name, param, "common"))
            if not r["ok"]:
                fails.append({"key": f"C06:param-sweep:{name}.{param}", "what": f"filter_vmap over {name}({param}=...) differs from building the steppers one at a time: {r}"[:400],
                              "probe": "generic_sweep", "args": {"name": name, "D": D, "N": N, "order": order, "seed": ctx.seed + idx, "param": param, "index": None, "values": list(values)}, "observed": r})
    seen, out = set(), []
    for f in fails:
        if f["key"] not in seen:
            seen.add(f["key"])
            out.append(f)
    return out


def replay(probe, args):
    return {"invariance": probe_invariance, "ctor_sweep": probe_ctor_sweep, "generic_sweep": probe_generic_sweep,
            "forced_invariance": probe_forced_invariance}[probe](**args)
