"""child process of the C19 check: run a fixed battery in a default (float32) or x64 session and dump JSON"""
import json
import os
import sys

os.environ.setdefault("JAX_PLATFORMS", "cpu")
mode = sys.argv[1]
x64 = mode in ("x64", "switch")
seed = int(sys.argv[2])
names = sys.argv[3].split(",")
import jax  # noqa: E402


def exact_block(names, seed):
    """closed-form comparison of the linear classes and Wave (see below); returns {name: record}"""
    import numpy as _np
    from props import c01, steppers as _S
    res = {}
    for i, name in enumerate(list(dict.fromkeys([n for n in names if n in _S.LINEAR] + ["Advection", "Diffusion"]))):
        D = (i + seed) % 3 + 1
        N = {1: 16, 2: 8, 3: 6}[D]
        r = c01.probe_exact(name, D, N, 0.1, seed + i)
        if "err" in r:
            res[name] = {"D": D, "N": N, "err": r["err"], "scale": r["scale"], "rounding_allowance": r["rounding_allowance"], "args": {"name": name, "D": D, "N": N, "dt": 0.1, "seed": seed + i}}
    for D in (1, 2, 3):
        N = {1: 16, 2: 8, 3: 6}[D]
        r = c01.probe_wave(D, N, 0.1, seed + D)
        res[f"Wave[{D}d]"] = {"D": D, "N": N, "err": r["err"], "scale": r["scale"], "rounding_allowance": r["rounding_allowance"], "args": {"D": D, "N": N, "dt": 0.1, "seed": seed + D}}
    return res


if mode == "switch":
    # ONE process, default session first: build and run the same steppers on the same grids in single precision (results
    # discarded), THEN enable x64 — whatever the first session left behind (module-level caches, memoised arrays) must
    # not leak into the double-precision session
    sys.path.insert(0, os.path.dirname(os.path.dirname(os.path.abspath(__file__))))
    try:
        exact_block(names, seed)
    except Exception as e:   # noqa: BLE001
        print("C19NOTE single-precision warm-up raised", type(e).__name__, file=sys.stderr)
    jax.config.update("jax_enable_x64", True)
elif x64:
    jax.config.update("jax_enable_x64", True)
import jax.numpy as jnp  # noqa: E402
import numpy as np  # noqa: E402

sys.path.insert(0, os.path.dirname(os.path.dirname(os.path.abspath(__file__))))
from props import steppers as S  # noqa: E402
from exponax import etdrk  # noqa: E402

out = {"x64": x64, "steppers": {}, "coefs": {}}
want_f = "float64" if x64 else "float32"
want_c = "complex128" if x64 else "complex64"
# stiff / zero symbols: coefficients must be finite
zs = np.array([0.0, -1e-6, -1.0, -1e3, -1e6, -1e9, -1e12, -1e15])
for order in (1, 2, 3, 4):
    cls = getattr(etdrk, f"ETDRK{order}")
    for dt in (1.0, 1e-3):
        integ = cls(dt, jnp.asarray(zs / dt, dtype=want_c)[None, :], lambda v: 0 * v)
        leaves = {k: np.asarray(getattr(integ, k)) for k in dir(integ) if k.startswith(("_coef_", "_exp_term", "_half_exp_term"))}
        out["coefs"][f"order{order}:dt{dt}"] = {
            "finite": bool(all(np.all(np.isfinite(v)) for v in leaves.values())),
            "dtypes": sorted({str(v.dtype) for v in leaves.values()}),
            "maxabs": float(max(np.max(np.abs(v)) for v in leaves.values())),
        }
# coefficient VALUES near the contour radius (|z| = r is where a badly placed contour node would hit the removable
# singularity), at z = 0 and for tiny z: compared between the two sessions by the parent
zs2 = np.array([0.0, -1e-8, -1e-4, -0.5, -0.9, -0.97, -0.99, -0.999, -1.0, -1.001, -1.01, -1.03, -1.1, -2.0, -5.0])
out["sweep"] = {"z": zs2.tolist()}
for order in (1, 2, 3, 4):
    cls = getattr(etdrk, f"ETDRK{order}")
    integ = cls(1.0, jnp.asarray(zs2, dtype=want_c)[None, :], lambda v: 0 * v)
    names_c = sorted(k for k in dir(integ) if k.startswith("_coef_"))
    out["sweep"][f"order{order}"] = {k: [[float(np.real(x)), float(np.imag(x))] for x in np.asarray(getattr(integ, k)).ravel()] for k in names_c}
R = S.registry()
for i, name in enumerate(names):
    rng = np.random.default_rng(seed + i)
    D = i % 3 + 1
    if "Vorticity" in name:
        D = 2
    if "Velocity" in name:
        D = 3
    N = {1: 16, 2: 8, 3: 6}[D]
    order = 0 if name in S.LINEAR else (i % 4) + 1
    spec = R[name](rng, D, N, order)
    st = spec.build()
    u = S.random_state(rng, spec.C, D, N, "smooth")
    y = st(jnp.asarray(u, dtype=want_f))
    z = st(jnp.zeros_like(jnp.asarray(u, dtype=want_f)))
    leaf_dt = sorted({str(l.dtype) for l in jax.tree_util.tree_leaves(st) if hasattr(l, "dtype") and np.issubdtype(l.dtype, np.inexact)})
    out["steppers"][name] = {
        "D": D, "N": N, "order": order,
        "out_dtype": str(y.dtype), "leaf_dtypes": leaf_dt,
        "finite": bool(np.all(np.isfinite(np.asarray(y)))),
        "zero_finite": bool(np.all(np.isfinite(np.asarray(z)))),
        "zero_max": float(np.max(np.abs(np.asarray(z)))),
        "y": np.asarray(y, dtype=float).ravel().tolist(),
        "forced": ("Kolmogorov" in name) or (name == "GeneralVorticityConvectionStepper" and spec.kwargs.get("injection_scale", 0) != 0)
        or name in ("FisherKPP", "GrayScott", "GeneralPolynomialStepper", "NormalizedPolynomialStepper", "DifficultyPolynomialStepper", "SwiftHohenberg") and False,
    }
# the Wave stepper (its own diagonalisation around the order-0 step; not a registry class)
import exponax as ex  # noqa: E402

rngw = np.random.default_rng(seed + 1000)
Dw = seed % 3 + 1
Nw = {1: 16, 2: 8, 3: 6}[Dw]
stw = ex.stepper.Wave(Dw, float(rngw.uniform(1, 6)), Nw, 0.1, speed_of_sound=float(rngw.uniform(0.3, 2)))
uw = S.random_state(rngw, 2, Dw, Nw, "smooth")
yw = stw(jnp.asarray(uw, dtype=want_f))
zw = stw(jnp.zeros_like(jnp.asarray(uw, dtype=want_f)))
out["steppers"]["Wave"] = {
    "D": Dw, "N": Nw, "order": 0, "out_dtype": str(yw.dtype),
    "leaf_dtypes": sorted({str(l.dtype) for l in jax.tree_util.tree_leaves(stw) if hasattr(l, "dtype") and np.issubdtype(l.dtype, np.inexact)}),
    "finite": bool(np.all(np.isfinite(np.asarray(yw)))), "zero_finite": bool(np.all(np.isfinite(np.asarray(zw)))),
    "zero_max": float(np.max(np.abs(np.asarray(zw)))), "y": np.asarray(yw, dtype=float).ravel().tolist(), "forced": False,
}
# stiff linear propagators on fine grids, every mixing flag: the modulus |exp(dt·λ_k)| of every mode (1 for the
# non-dissipative equations, <= 1 for the dissipative ones), compared between the two sessions by the parent
out["stiff"] = {}
for label, mkst in [
    ("Dispersion(advect_on_diffusion=False)[1d,N=256]", lambda: ex.stepper.Dispersion(1, 1.0, 256, 0.1, dispersivity=1.0)),
    ("Dispersion(advect_on_diffusion=True)[1d,N=256]", lambda: ex.stepper.Dispersion(1, 1.0, 256, 0.1, dispersivity=1.0, advect_on_diffusion=True)),
    ("Dispersion(advect_on_diffusion=True)[1d,N=64]", lambda: ex.stepper.Dispersion(1, 1.0, 64, 0.01, dispersivity=1.0, advect_on_diffusion=True)),
    ("Dispersion(advect_on_diffusion=True)[2d,N=48]", lambda: ex.stepper.Dispersion(2, 1.0, 48, 0.05, dispersivity=0.7, advect_on_diffusion=True)),
    ("Advection[1d,N=256]", lambda: ex.stepper.Advection(1, 1.0, 256, 10.0, velocity=3.0)),
    ("HyperDiffusion(diffuse_on_diffuse=True)[2d,N=48]", lambda: ex.stepper.HyperDiffusion(2, 1.0, 48, 0.1, hyper_diffusivity=1e-4, diffuse_on_diffuse=True)),
    ("AdvectionDiffusion[1d,N=256]", lambda: ex.stepper.AdvectionDiffusion(1, 1.0, 256, 0.1, velocity=2.0, diffusivity=0.01)),
    ("KortewegDeVries[1d,N=256]", lambda: ex.stepper.KortewegDeVries(1, 1.0, 256, 0.01)),
]:
    try:
        st_ = mkst()
        e_ = np.asarray(st_._integrator._exp_term)
        out["stiff"][label] = {"finite": bool(np.all(np.isfinite(e_))), "modulus": np.abs(e_).astype(float).ravel()[:4096].tolist(),
                               "dtype": str(e_.dtype)}
    except Exception as e_x:   # noqa: BLE001
        out["stiff"][label] = {"error": f"{type(e_x).__name__}: {str(e_x)[:200]}"}
# double-precision fidelity: in the x64 session the linear classes (closed-form solution known) are accurate to DOUBLE
# rounding, not merely to single — a result that went through a single-precision constant or cast somewhere is a silent
# fall-back to another precision although its dtype says float64
out["exact"] = exact_block(names, seed) if x64 else {}
out["mode"] = mode
print("C19JSON" + json.dumps(out))
