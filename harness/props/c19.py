"""C19 — steps stay finite and precision-faithful across stiffness and dtype — PARTIAL (IEEE behaviour is external)."""
from __future__ import annotations

import json
import os
import subprocess
import sys

import numpy as np

from . import steppers as S
from . import util as U

HERE = os.path.dirname(os.path.abspath(__file__))
EPS32 = 1.1920929e-07
COEF_TOL = 1e-4   # unchanged code: ≤ ~1e-5 (nodes at distance ≥ r·sin(π/M) from 0, see C19_node_norm_lower)


def run_child(mode, seed, names):
    env = dict(os.environ)
    env.pop("JAX_ENABLE_X64", None)
    env["VERIF_C19_F32"] = "0" if mode == "x64" else "1"   # "switch": stays in default precision until the child switches itself
    p = subprocess.run([sys.executable, os.path.join(HERE, "c19_child.py"), mode, str(seed), ",".join(names)],
                       capture_output=True, text=True, env=env, timeout=1800)
    for line in p.stdout.splitlines():
        if line.startswith("C19JSON"):
            return json.loads(line[7:])
    raise RuntimeError("C19 child failed: " + (p.stderr or p.stdout)[-800:])


def pick_names(ctx, deep=False):
    names = list(S.registry().keys())
    if ctx.tier == "quick" and not deep:
        names = [n for i, n in enumerate(names) if (i + ctx.seed) % 3 == 0] + ["KortewegDeVries", "NavierStokesVelocity"]
    return list(dict.fromkeys(names))


def correspondence(ctx):
    """the model (binary64) against the implementation in an x64 session for stiff symbols: coefficient values"""
    from .c02 import impl_integrator, impl_coefs
    d = ctx.driver
    zs = np.array([0.0, -1e-6, -1.0, -1e3, -1e6, -1e9, -1e12, -1e15])
    for order in (1, 2, 3, 4):
        for dt in (1.0, 1e-3):
            integ = impl_integrator(order, dt, zs / dt, 16, 1.0)
            ic = impl_coefs(integ, order)
            for k, z in enumerate(zs):
                row = d.ask_complex(f"etd_coefs {order} 16 {U.ftok(1.0)} {U.ftok(dt)} {U.ctoks(z / dt)}")
                a = np.array([complex(c[k]) for c in ic])
                b = np.array(row)
                ctx.count(("stiff_coef", order, dt, float(z)), True)
                ok = bool(np.all(np.isfinite(b)) and np.all(np.abs(a - b) <= 1e-9 * np.maximum(np.abs(a), np.abs(b)) + 1e-300))
                ctx.traces += 1
                if not ok:
                    ctx.mismatch(f"ETDRK{order} coefficients at stiff z", {"z": float(z), "dt": dt, "impl": [str(x) for x in a], "model": [str(x) for x in b]})
    ctx.sample({"stiff_z": zs.tolist()})


def probe_sessions(seed, names):
    f32 = run_child("f32", seed, names)
    f64 = run_child("x64", seed, names)
    bad = []
    for key, r in f32["coefs"].items():
        if not r["finite"] or any(dt not in ("float32", "complex64") for dt in r["dtypes"]):
            bad.append(f"float32 session ETDRK {key}: finite={r['finite']} dtypes={r['dtypes']}")
    for key, r in f64["coefs"].items():
        if not r["finite"] or any(dt not in ("float64", "complex128") for dt in r["dtypes"]):
            bad.append(f"x64 session ETDRK {key}: finite={r['finite']} dtypes={r['dtypes']}")
    worst = 0.0
    for order in (1, 2, 3, 4):
        for k, v64 in f64["sweep"][f"order{order}"].items():
            v32 = f32["sweep"][f"order{order}"][k]
            for zi, (x64, x32) in enumerate(zip(v64, v32)):
                c64, c32 = complex(*x64), complex(*x32)
                if not (np.isfinite(c64.real) and np.isfinite(c32.real)):
                    bad.append(f"coefficient sweep ETDRK{order}{k} at z={f64['sweep']['z'][zi]}: non-finite ({c32} / {c64})")
                    continue
                d = abs(c32 - c64) / max(1.0, abs(c64))
                worst = max(worst, d)
                if d > COEF_TOL:
                    bad.append(f"coefficient sweep ETDRK{order}{k} at z={f64['sweep']['z'][zi]}: single {c32} vs double {c64} "
                               f"differ by {d:.2e} (> {COEF_TOL:g}): the contour passes too close to the removable singularity")
                # the double-precision value against the exact phi-combination is the C02 check's business
    # stiff propagators: finite in both sessions, never amplifying, and the same modulus in both sessions up to single rounding
    for label, a in f32.get("stiff", {}).items():
        b = f64.get("stiff", {}).get(label, {})
        if "error" in a or "error" in b:
            bad.append(f"stiff propagator {label}: construction failed ({a.get('error')} / {b.get('error')})")
            continue
        if not (a["finite"] and b["finite"]):
            bad.append(f"stiff propagator {label}: non-finite exp(dt*lambda) (single {a['finite']}, double {b['finite']})")
            continue
        ma, mb = np.asarray(a["modulus"]), np.asarray(b["modulus"])
        if float(np.max(mb)) > 1.0 + 1e-9 or float(np.max(ma)) > 1.0 + 1e-4:
            bad.append(f"stiff propagator {label}: a mode with Re(lambda) <= 0 is amplified: max |exp(dt*lambda)| = {float(np.max(ma)):.6g} (single), {float(np.max(mb)):.12g} (double)")
        elif float(np.max(np.abs(ma - mb))) > 1e-4:
            j = int(np.argmax(np.abs(ma - mb)))
            bad.append(f"stiff propagator {label}: |exp(dt*lambda)| of stored mode {j} is {ma[j]:.6g} in the single-precision session and {mb[j]:.12g} in the double-precision one")
        if "Dispersion" in label or "Advection[" in label:   # (KdV carries a hyper-diffusion by default: not unitary)
            if float(np.max(np.abs(mb - 1.0))) > 1e-9:
                j = int(np.argmax(np.abs(mb - 1.0)))
                bad.append(f"stiff propagator {label}: a purely imaginary symbol must give a unitary propagator; double-precision |exp(dt*lambda)| of stored mode {j} is {mb[j]:.15g}")
    # the double-precision session entered AFTER a single-precision one in the same process: same criteria
    sw = run_child("switch", seed, names)
    for name, r in sw.get("exact", {}).items():
        if r["err"] > 1e-11 * r["scale"] + r["rounding_allowance"]:
            bad.append(f"{name}[after a default session in the same process]: the x64-session step is off the closed-form solution by {r['err']:.3e} (scale {r['scale']:.3e}, D={r['D']}, N={r['N']}) — "
                       f"far above double rounding ({1e-11 * r['scale'] + r['rounding_allowance']:.1e}): state left behind by the single-precision session leaks into the double-precision one")
    for name in list(names) + ["Wave"]:
        b = sw["steppers"][name]
        if b["out_dtype"] != "float64" or any(dt not in ("float64", "complex128") for dt in b["leaf_dtypes"]):
            bad.append(f"{name}[after a default session in the same process]: output dtype {b['out_dtype']}, leaves {b['leaf_dtypes']} in the x64 session")
    for name, r in f64.get("exact", {}).items():
        if r["err"] > 1e-11 * r["scale"] + r["rounding_allowance"]:
            bad.append(f"{name}: the x64-session step is off the closed-form solution by {r['err']:.3e} (scale {r['scale']:.3e}, D={r['D']}, N={r['N']}) — "
                       f"far above double rounding ({1e-11 * r['scale'] + r['rounding_allowance']:.1e}): the float64 result silently carries another precision")
    for name in list(names) + ["Wave"]:
        a, b = f32["steppers"][name], f64["steppers"][name]
        if a["out_dtype"] != "float32" or b["out_dtype"] != "float64":
            bad.append(f"{name}: output dtype {a['out_dtype']} (default session) / {b['out_dtype']} (x64 session)")
        if any(dt not in ("float32", "complex64") for dt in a["leaf_dtypes"]):
            bad.append(f"{name}: default session stores leaves of dtype {a['leaf_dtypes']}")
        if any(dt not in ("float64", "complex128") for dt in b["leaf_dtypes"]):
            bad.append(f"{name}: x64 session stores leaves of dtype {b['leaf_dtypes']}")
        if not (a["finite"] and b["finite"] and a["zero_finite"] and b["zero_finite"]):
            bad.append(f"{name}: non-finite step (f32 {a['finite']}/{a['zero_finite']}, x64 {b['finite']}/{b['zero_finite']})")
        ya, yb = np.asarray(a["y"]), np.asarray(b["y"])
        sc = float(np.max(np.abs(yb))) + 1e-30
        size = len(yb)
        err = float(np.max(np.abs(ya - yb)))
        if err > 200 * EPS32 * sc * max(1.0, np.log2(size)):
            bad.append(f"{name}: single vs double precision step differ by {err:.3e} (scale {sc:.3e}, D={a['D']}, N={a['N']}, order={a['order']})")
        unforced = not ("Kolmogorov" in name or name == "GeneralVorticityConvectionStepper")
        polyconst = name in ("GeneralPolynomialStepper", "NormalizedPolynomialStepper", "DifficultyPolynomialStepper", "GrayScott")
        if unforced and not polyconst and b["zero_max"] != 0.0:
            bad.append(f"{name}: the zero state is mapped to a non-zero state (max {b['zero_max']:.3e})")
    return {"ok": not bad, "bad": bad, "worst_coefficient_deviation": worst}


def oracle(ctx, deep):
    fails = []
    names = pick_names(ctx, deep)
    r = probe_sessions(ctx.seed, names)
    ctx.count(("oracle_sessions", len(names)), True, n=len(names))
    for b in r["bad"]:
        key = b.split(":")[0]
        if key.startswith("stiff propagator"):
            key = "stiff-propagator " + key.split("propagator ")[1].split("[")[0]
        if key.startswith("coefficient sweep"):
            key = "coefficient-sweep " + key.split()[2].split("_")[0]
        fails.append({"key": f"C19:{key}", "what": b, "probe": "sessions", "args": {"seed": ctx.seed, "names": names}, "observed": r})
    seen, out = set(), []
    for f in fails:
        if f["key"] not in seen:
            seen.add(f["key"])
            out.append(f)
    return out


def replay(probe, args):
    return probe_sessions(**args)
