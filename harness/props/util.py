"""helpers shared by the property modules"""
from __future__ import annotations

import os
import sys

import numpy as np

sys.path.insert(0, os.path.dirname(os.path.dirname(os.path.abspath(__file__))))
from common import ftok, ctoks, parse_tok  # noqa: E402,F401

_jax_ready = False


def jax_setup():
    global _jax_ready
    if not _jax_ready:
        import jax
        if os.environ.get("VERIF_C19_F32") != "1":   # the float32 child session of the C19 check stays in default precision
            jax.config.update("jax_enable_x64", True)
        _jax_ready = True


jax_setup()


def ftoks(arr):
    return " ".join(ftok(x) for x in np.asarray(arr, dtype=float).ravel())


def cctoks(arr):
    return " ".join(ctoks(x) for x in np.asarray(arr, dtype=complex).ravel())
