"""C15 — Fourier interpolation and resolution changes are exact for band-limited states."""
from __future__ import annotations

import numpy as np

from . import util as U


def bandlimited(rng, C, D, N, kmax, L=1.0):
    """Nyquist-free trigonometric polynomial: returns (samples on N grid, callable f(x) for any x array (D, ...))"""
    modes = []
    for c in range(C):
        ms = []
        for _ in range(4):
            k = rng.integers(-kmax, kmax + 1, D)
            ms.append((k, float(rng.normal()), float(rng.uniform(0, 2 * np.pi))))
        ms.append((np.zeros(D, dtype=int), float(rng.normal()), 0.0))
        modes.append(ms)

    def f(x):
        out = []
        for ms in modes:
            v = 0.0
            for k, a, ph in ms:
                v = v + a * np.cos(2 * np.pi / L * np.tensordot(k.astype(float), x, axes=1) + ph)
            out.append(v)
        return np.stack(out)
    grid = np.stack(np.meshgrid(*[np.arange(N) * L / N] * D, indexing="ij"))
    return f(grid), f


def correspondence(ctx):
    import jax.numpy as jnp
    import exponax as ex
    from exponax import spectral as sp
    d = ctx.driver
    rng = np.random.default_rng(ctx.seed)
    rngN = {1: range(2, 14), 2: range(2, 9), 3: range(2, 6)} if ctx.tier == "quick" else {1: range(2, 25), 2: range(2, 13), 3: range(2, 8)}
    for D in (1, 2, 3):
        for No in rngN[D]:
            for Nn in rngN[D]:
                if ctx.tier == "quick" and D == 3 and abs(No - Nn) > 2:
                    continue
                # exact index map of the block copy
                if No != Nn:
                    new = np.full(sp.wavenumber_shape(D, Nn), -1, dtype=np.int64)
                    old = np.arange(int(np.prod(sp.wavenumber_shape(D, No)))).reshape(sp.wavenumber_shape(D, No))
                    for sl in sp.get_modes_slices(D, min(No, Nn)):
                        new[sl[1:]] = old[sl[1:]]
                    ctx.count(("mapsrc", D, No % 2, Nn % 2, int(np.sign(Nn - No))), True)
                    ctx.compare("block copy index map vs Interp.srcIndex", new.ravel(), d.ask(f"mapsrc {D} {No} {Nn}"), exact=True,
                                cell=("mapsrc", D, No, Nn))
                if D == 3 and max(No, Nn) > 5 and ctx.tier == "quick":
                    continue
                if rng.uniform() < (0.35 if ctx.tier == "quick" else 1.0):
                    u = rng.normal(size=(1,) + (No,) * D)
                    for odd in (True, False):
                        out = np.asarray(ex.map_between_resolutions(jnp.asarray(u), Nn, oddball_zero=odd))[0]
                        model = d.ask(f"mapres {D} {No} {Nn} {int(odd)} {U.ftoks(u[0])}")
                        ctx.count(("mapres", D, No % 2, Nn % 2, int(np.sign(Nn - No)), odd), True)
                        ctx.compare("map_between_resolutions vs Interp.mapBetween", out.ravel(), model, cell=("mapres", D, No, Nn, odd))
    for D in (1, 2, 3):
        for N in ([4, 5, 8] if D < 3 else [3, 4]):
            L = float(rng.uniform(0.5, 5))
            u = rng.normal(size=(2,) + (N,) * D)
            fi = ex.FourierInterpolator(jnp.asarray(u), domain_extent=L)
            for _ in range(4):
                x = rng.uniform(-2 * L, 3 * L, D)
                got = np.asarray(fi(jnp.asarray(x)))
                for ch in range(2):
                    model = d.ask(f"interp {D} {N} {U.ftok(2 * np.pi / L)} {U.ftoks(u[ch])} {U.ftoks(x)}")
                    ctx.count(("interp", D, N), True)
                    ctx.compare("FourierInterpolator vs Interp.interpolate", [got[ch]], model, cell=("interp", D, N))
    ctx.sample({"pairs": "all (N_old, N_new) in range incl. N_new = N_old +- 1, all parity combinations"})


def probe_resolution(D, No, Nn, seed):
    import jax.numpy as jnp
    import exponax as ex
    rng = np.random.default_rng(seed)
    kmax = (min(No, Nn) - 1) // 2
    u, f = bandlimited(rng, 2, D, No, kmax)
    gridn = np.stack(np.meshgrid(*[np.arange(Nn) / Nn] * D, indexing="ij"))
    want = f(gridn)
    got = np.asarray(ex.map_between_resolutions(jnp.asarray(u), Nn))
    e1 = float(np.max(np.abs(got - want)))
    back = np.asarray(ex.map_between_resolutions(jnp.asarray(got), No))
    e2 = float(np.max(np.abs(back - u)))
    w = rng.normal(size=(1,) + (No,) * D)      # arbitrary state: the mean is preserved
    m = np.asarray(ex.map_between_resolutions(jnp.asarray(w), Nn))
    e3 = abs(float(m.mean()) - float(w.mean()))
    return {"ok": bool(max(e1, e2, e3) <= 1e-10), "exact": e1, "roundtrip": e2, "mean": e3}


def probe_interp(D, N, seed, indexing="ij"):
    import jax.numpy as jnp
    import exponax as ex
    rng = np.random.default_rng(seed)
    L = 2.5
    u, f = bandlimited(rng, 2, D, N, (N - 1) // 2, L)
    if indexing != "ij":
        # the state sampled on the library's own grid of that indexing
        u = f(np.asarray(ex.make_grid(D, L, N, indexing=indexing)))
    fi = ex.FourierInterpolator(jnp.asarray(u), domain_extent=L, indexing=indexing)
    worst = 0.0
    for _ in range(6):
        x = rng.uniform(-2 * L, 3 * L, D)
        worst = max(worst, float(np.max(np.abs(np.asarray(fi(jnp.asarray(x))) - f(x.reshape(D, *([1] * 0))).reshape(-1)))))
    # grid points of an arbitrary state
    w = rng.normal(size=(1,) + (N,) * D)
    fw = ex.FourierInterpolator(jnp.asarray(w), domain_extent=L, indexing=indexing)
    idx = tuple(int(i) for i in rng.integers(0, N, D))
    xg = np.asarray(ex.make_grid(D, L, N, indexing=indexing))[(slice(None),) + idx]     # the coordinates of that grid point
    e2 = abs(float(np.asarray(fw(jnp.asarray(xg)))[0]) - float(w[(0,) + idx]))
    return {"ok": bool(worst <= 1e-10 and e2 <= 1e-10), "analytic": worst, "gridpoint": e2}


def oracle(ctx, deep):
    fails = []
    pairs = {1: [(8, 9), (9, 8), (8, 12), (12, 7), (7, 13)], 2: [(6, 7), (7, 6), (5, 8)], 3: [(4, 5), (5, 4)]}
    if deep:
        pairs = {1: [(a, b) for a in range(3, 14) for b in range(3, 14) if a != b], 2: [(a, b) for a in range(3, 9) for b in range(3, 9) if a != b],
                 3: [(a, b) for a in range(3, 6) for b in range(3, 6) if a != b]}
    for D in (1, 2, 3):
        for (No, Nn) in pairs[D]:
            r = probe_resolution(D, No, Nn, ctx.seed)
            ctx.count(("oracle_res", D, No, Nn))
            if not r["ok"]:
                fails.append({"key": f"C15:resolution:D{D}:{'up' if Nn > No else 'down'}:{No % 2}{Nn % 2}",
                              "what": f"map_between_resolutions {No}->{Nn} (D={D}): {r}", "probe": "resolution",
                              "args": {"D": D, "No": No, "Nn": Nn, "seed": ctx.seed}, "observed": r})
        for N in ([6, 7] if D < 3 else [4, 5]):
            for indexing in (("ij", "xy") if D > 1 else ("ij",)):
                r = probe_interp(D, N, ctx.seed, indexing)
                ctx.count(("oracle_interp", D, N, indexing))
                if not r["ok"]:
                    fails.append({"key": f"C15:interp:D{D}:{indexing}", "what": f"FourierInterpolator (D={D}, N={N}, indexing={indexing}): {r}", "probe": "interp",
                                  "args": {"D": D, "N": N, "seed": ctx.seed, "indexing": indexing}, "observed": r})
    seen, out = set(), []
    for f in fails:
        if f["key"] not in seen:
            seen.add(f["key"])
            out.append(f)
    return out


def replay(probe, args):
    return {"resolution": probe_resolution, "interp": probe_interp}[probe](**args)
