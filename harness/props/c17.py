"""C17 — radial spectrum: every mode lands in its documented bin with Parseval weights."""
from __future__ import annotations

import itertools

import numpy as np

from . import util as U


def _all_k(D, N):
    axes = [range(-(N // 2), (N - 1) // 2 + 1)] * (D - 1) + [range(0, N // 2 + 1)]
    return list(itertools.product(*axes))


def correspondence(ctx):
    import jax.numpy as jnp
    import exponax as ex
    from exponax import spectral as sp
    d = ctx.driver
    rng = np.random.default_rng(ctx.seed)
    sizes = {1: [4, 5, 8, 9], 2: [4, 5, 6, 7], 3: [3, 4, 5]} if ctx.tier == "quick" else \
        {1: list(range(2, 33)), 2: list(range(2, 17)), 3: [2, 3, 4, 5, 6, 7]}
    for D in (1, 2, 3):
        for N in sizes[D]:
            # (1) every stored mode: model bin index vs the bin where the implementation reports the amplitude
            bins_model = d.ask(f"bins {D} {N}")
            wn = np.asarray(sp.build_wavenumbers(D, N)).astype(int).reshape(D, -1)
            grid = np.asarray(ex.make_grid(D, 1.0, N))
            nm = wn.shape[1]
            idxs = range(nm) if (ctx.tier == "thorough" or nm <= 64) else sorted(rng.choice(nm, 64, replace=False))
            for h in idxs:
                k = wn[:, h]
                a, ph = float(rng.uniform(0.5, 2.0)), float(rng.uniform(0, 2 * np.pi))
                u = a * np.cos(2 * np.pi * np.tensordot(k.astype(float), grid, axes=1) + ph)
                spec = np.asarray(ex.get_spectrum(jnp.asarray(u)[None], power=False))[0]
                selfconj = all((2 * kk) % N == 0 for kk in k)
                amp = a * abs(np.cos(ph)) if selfconj else a
                if D == 1:
                    got = int(np.argmax(spec)) if amp > 1e-9 else int(k[0])
                    ctx.compare("get_spectrum(1d) puts mode k at index k", [got], [int(abs(k[0]))], exact=True, detail={"N": N, "k": k.tolist()})
                else:
                    nz = np.nonzero(spec > 1e-9 * max(a, 1))[0]
                    got = int(nz[0]) if len(nz) == 1 else (-1 if len(nz) == 0 else -2)
                    if amp < 1e-6:
                        continue
                    ctx.compare("bin of a single mode: get_spectrum vs Layout.binOf", [got], [bins_model[h]], exact=True,
                                cell=("bin", D, N), detail={"k": k.tolist(), "spectrum": spec.tolist()})
                ctx.count(("bin", D, N, tuple(k.tolist())), True)
            ctx.bump(f"D{D}")
            # (2) numeric: full spectrum of random states, all option combinations, channels independent
            u = rng.normal(size=(2,) + (N,) * D)
            for power in (0, 1):
                for avg in (0, 1):
                    impl = np.asarray(ex.get_spectrum(jnp.asarray(u), power=bool(power), radial_binning="average" if avg else "sum"))
                    for ch in range(2):
                        model = d.ask(f"spectrum {D} {N} {power} {avg} {U.ftoks(u[ch])}")
                        ctx.count(("spectrum", D, N, power, avg), True)
                        ctx.compare("get_spectrum vs Spectrum.spectrum", impl[ch], model, cell=("spectrum", D, N, power, avg))
    ctx.sample({"single_mode_bins": "a*cos(2*pi*k.x + phase) for every stored k; bin read off the amplitude spectrum"})


def probe_parseval(D, N, seed):
    import jax.numpy as jnp
    import exponax as ex
    from exponax import spectral as sp
    rng = np.random.default_rng(seed)
    u = rng.normal(size=(1,) + (N,) * D)
    p = np.asarray(ex.get_spectrum(jnp.asarray(u), power=True))[0]
    uh = np.asarray(sp.fft(jnp.asarray(u)))[0]
    wn = np.asarray(sp.build_wavenumbers(D, N))
    rad = np.sqrt((wn ** 2).sum(axis=0))
    inside = rad < (N // 2) + 0.5
    uin = np.asarray(sp.ifft(jnp.asarray(np.where(inside, uh, 0.0))[None], num_spatial_dims=D, num_points=N))[0]
    if D == 1:
        uin = u[0]
    want = 0.5 * np.mean(uin ** 2)
    err = abs(p.sum() - want)
    # average = sum / count of stored half-spectrum modes in the bin
    ok_avg = True
    if D > 1:
        s = np.asarray(ex.get_spectrum(jnp.asarray(u), power=True, radial_binning="sum"))[0]
        a = np.asarray(ex.get_spectrum(jnp.asarray(u), power=True, radial_binning="average"))[0]
        counts = np.array([np.sum(np.round(rad) == b) for b in range(N // 2 + 1)])
        ok_avg = bool(np.allclose(a * counts, s, rtol=1e-10, atol=1e-14))
    return {"ok": bool(err <= 1e-10 * max(want, 1e-12) + 1e-14 and ok_avg), "err": float(err), "want": float(want), "avg_ok": ok_avg}


def probe_channels(D, N, C, seed):
    """each channel is treated separately: row c of the spectrum of a C-channel state is the spectrum of channel c alone,
    for power / amplitude and both binnings; and average × (number of modes in the bin) = sum, per channel"""
    import jax.numpy as jnp
    import exponax as ex
    from exponax import spectral as sp
    rng = np.random.default_rng(seed)
    u = rng.normal(size=(C,) + (N,) * D) * (1 + np.arange(C)).reshape((C,) + (1,) * D)
    rad = np.sqrt((np.asarray(sp.build_wavenumbers(D, N)) ** 2).sum(axis=0))
    counts = np.array([np.sum(np.round(rad) == b) for b in range(N // 2 + 1)])
    bad = []
    for power in (True, False):
        got = {}
        for rb in ("sum", "average"):
            full = np.asarray(ex.get_spectrum(jnp.asarray(u), power=power, radial_binning=rb))
            got[rb] = full
            if full.shape != (C, N // 2 + 1):
                bad.append(f"shape {full.shape} (power={power}, {rb})")
                continue
            for c in range(C):
                alone = np.asarray(ex.get_spectrum(jnp.asarray(u[c:c + 1]), power=power, radial_binning=rb))[0]
                if not np.allclose(full[c], alone, rtol=1e-10, atol=1e-14):
                    bad.append(f"channel {c} of {C} differs from the same channel alone (power={power}, {rb}): ratio "
                               f"{(full[c] / np.where(alone == 0, 1, alone)).round(6).tolist()}")
        if D > 1 and not bad and not np.allclose(got["average"] * counts[None, :], got["sum"], rtol=1e-10, atol=1e-14):
            bad.append(f"average × count != sum (power={power})")
    return {"ok": not bad, "bad": bad[:4]}


def probe_amplitude(D, N, k, a, phase):
    import jax.numpy as jnp
    import exponax as ex
    grid = np.asarray(ex.make_grid(D, 2.0, N))
    u = a * np.cos(2 * np.pi / 2.0 * np.tensordot(np.asarray(k, dtype=float), grid, axes=1) + phase)
    spec = np.asarray(ex.get_spectrum(jnp.asarray(u)[None], power=False))[0]
    r = float(np.sqrt(sum(x * x for x in k)))
    b = int(np.floor(r + 0.5))
    selfconj = all((2 * kk) % N == 0 for kk in k)
    amp = a * abs(np.cos(phase)) if selfconj else a
    want = np.zeros(N // 2 + 1)
    if b <= N // 2:
        want[b] = amp
    err = float(np.max(np.abs(spec - want)))
    return {"ok": err <= 1e-9 * max(a, 1), "err": err, "bin": b, "spectrum": spec.tolist()}


def oracle(ctx, deep):
    fails = []
    rng = np.random.default_rng(ctx.seed + 9)
    sizes = {1: [8, 9], 2: [6, 7], 3: [4, 5]} if not deep else {1: list(range(3, 20)), 2: list(range(3, 12)), 3: [3, 4, 5, 6]}
    for D in (1, 2, 3):
        for N in sizes[D]:
            r = probe_parseval(D, N, ctx.seed)
            ctx.count(("oracle_parseval", D, N))
            if not r["ok"]:
                fails.append({"key": f"C17:parseval:D{D}", "what": f"sum of the power spectrum != 1/2 mean(u_in^2) (D={D}, N={N}, {r})",
                              "probe": "parseval", "args": {"D": D, "N": N, "seed": ctx.seed}, "observed": r})
            for C in ((2, 3) if not deep else (2, 3, 4)):
                r = probe_channels(D, N, C, ctx.seed)
                ctx.count(("oracle_channels", D, N, C))
                if not r["ok"]:
                    fails.append({"key": f"C17:channels:D{D}", "what": f"get_spectrum of a {C}-channel state (D={D}, N={N}): " + "; ".join(r["bad"])[:400],
                                  "probe": "channels", "args": {"D": D, "N": N, "C": C, "seed": ctx.seed}, "observed": r})
                    break
            ks = _all_k(D, N)
            if not deep and len(ks) > 30:
                ks = [ks[i] for i in rng.choice(len(ks), 30, replace=False)]
            for k in ks:
                a, ph = float(rng.uniform(0.5, 2)), float(rng.uniform(0.1, 1.0))
                r = probe_amplitude(D, N, list(k), a, ph)
                ctx.count(("oracle_amp", D, N, k))
                if not r["ok"]:
                    fails.append({"key": f"C17:bin:D{D}", "what": f"mode k={k} (N={N}) is not reported with amplitude a in bin round(|k|)",
                                  "probe": "amplitude", "args": {"D": D, "N": N, "k": list(k), "a": a, "phase": ph}, "observed": r})
                    break
    seen, out = set(), []
    for f in fails:
        if f["key"] not in seen:
            seen.add(f["key"])
            out.append(f)
    return out


def replay(probe, args):
    return {"parseval": probe_parseval, "amplitude": probe_amplitude, "channels": probe_channels}[probe](**args)
