"""C08 — steppers commute with the symmetries of the periodic box."""
from __future__ import annotations

import itertools

import numpy as np

from . import stepcorr
from . import steppers as S

KOLMOGOROV = {"KolmogorovFlowVorticity", "KolmogorovFlowVelocity"}
ISOTROPIC_SCALAR = ["Burgers", "KortewegDeVries", "KuramotoSivashinsky", "KuramotoSivashinskyConservative", "FisherKPP",
                    "AllenCahn", "CahnHilliard", "SwiftHohenberg", "GrayScott", "GeneralLinearStepper",
                    "GeneralConvectionStepper", "GeneralGradientNormStepper", "GeneralPolynomialStepper",
                    "GeneralNonlinearStepper", "HyperDiffusion", "NavierStokesVelocity"]


def correspondence(ctx):
    # The commutation itself is the theorem; the tie is model == implementation on arbitrary (white-noise, Nyquist
    # content) inputs for every public stepper class and order.
    names = list(S.registry().keys())
    stepcorr.sweep(ctx, names, orders_for=lambda nm: [0] if nm in S.LINEAR else [1, 2, 3, 4],
                   trials=1 if ctx.tier == "quick" else 3, kinds=("noise",))
    ctx.sample({"steppers": names, "states": "white noise"})


def _autonomous(spec):
    if spec.name in KOLMOGOROV:
        return False
    if spec.name == "GeneralVorticityConvectionStepper" and spec.kwargs.get("injection_scale", 0.0) != 0.0:
        return False
    return True


def probe_shift(name, D, N, order, seed):
    import jax.numpy as jnp
    rng = np.random.default_rng(seed)
    spec = S.registry()[name](rng, D, N, order)
    if spec is None:
        return {"ok": True, "skipped": "dimension"}
    st = spec.build()
    u = rng.normal(size=(spec.C,) + (N,) * D)
    shift = tuple(int(x) for x in rng.integers(0, N, D))
    if not _autonomous(spec):
        # forcing varies along the second axis only: translations along the other axes, and along the second axis by
        # whole periods of the forcing
        m = spec.kwargs.get("injection_mode", 1)
        s1 = (N // m) * int(rng.integers(0, m)) if N % m == 0 else 0
        shift = tuple(s1 if ax == 1 else sh for ax, sh in enumerate(shift))
    axes = tuple(range(1, D + 1))
    a = np.asarray(st(jnp.asarray(np.roll(u, shift, axis=axes))))
    b = np.roll(np.asarray(st(jnp.asarray(u))), shift, axis=axes)
    if not (np.all(np.isfinite(a)) and np.all(np.isfinite(b))):
        return {"ok": True, "skipped": "non-finite (unstable random configuration)"}
    sc = float(np.max(np.abs(b))) + 1e-300
    err = float(np.max(np.abs(a - b)))
    return {"ok": bool(err <= 1e-9 * sc * (1 + 1e-5 * spec.zmax())), "err": err, "scale": sc, "shift": shift,
            "kwargs": {k: str(v) for k, v in spec.kwargs.items()}}


def _iso_stepper(name, D, N, L, dt, order, rng_seed):
    """isotropic configuration (scalar coefficients) of a stepper; returns (stepper, C, odd_linear)"""
    import exponax as ex
    st, gen, rea = ex.stepper, ex.stepper.generic, ex.stepper.reaction
    r = np.random.default_rng(rng_seed)
    nu, b = float(r.uniform(0.01, 0.1)), float(r.uniform(-1, 1))
    if name == "Burgers":
        return st.Burgers(D, L, N, dt, diffusivity=nu, convection_scale=b, order=order), D, False
    if name == "KortewegDeVries":
        return st.KortewegDeVries(D, L * 3, N, dt, convection_scale=b, order=order), D, True
    if name == "KuramotoSivashinsky":
        return st.KuramotoSivashinsky(D, L * 6, N, dt, order=order), 1, False
    if name == "KuramotoSivashinskyConservative":
        return st.KuramotoSivashinskyConservative(D, L * 6, N, dt, convection_scale=b, order=order), D, False
    if name == "FisherKPP":
        return rea.FisherKPP(D, L, N, dt, order=order), 1, False
    if name == "AllenCahn":
        return rea.AllenCahn(D, L, N, dt, order=order), 1, False
    if name == "CahnHilliard":
        return rea.CahnHilliard(D, L, N, dt, order=order), 1, False
    if name == "SwiftHohenberg":
        return rea.SwiftHohenberg(D, L * 4, N, dt, order=order), 1, False
    if name == "GrayScott":
        return rea.GrayScott(D, L, N, dt, order=order), 2, False
    if name == "HyperDiffusion":
        return st.HyperDiffusion(D, L, N, dt, hyper_diffusivity=nu * 0.1, diffuse_on_diffuse=bool(r.integers(0, 2))), 1, False
    if name == "GeneralLinearStepper":
        return gen.GeneralLinearStepper(D, L, N, dt, linear_coefficients=(0.0, b, nu, 0.01 * b)), 1, True
    if name == "GeneralConvectionStepper":
        return gen.GeneralConvectionStepper(D, L, N, dt, linear_coefficients=(0.0, 0.0, nu), convection_scale=b, order=order), D, False
    if name == "GeneralGradientNormStepper":
        return gen.GeneralGradientNormStepper(D, L * 6, N, dt, order=order), 1, False
    if name == "GeneralPolynomialStepper":
        return gen.GeneralPolynomialStepper(D, L, N, dt, linear_coefficients=(0.1, 0.0, nu), polynomial_coefficients=(0.0, 0.0, -0.3), order=order), 1, False
    if name == "GeneralNonlinearStepper":
        return gen.GeneralNonlinearStepper(D, L, N, dt, linear_coefficients=(0.0, 0.0, nu), nonlinear_coefficients=(0.2, b, 0.1), order=order), 1, False
    if name == "NavierStokesVelocity":
        return st.NavierStokesVelocity(3, L, N, dt, diffusivity=nu, order=order), 3, False
    raise KeyError(name)


def probe_perm(name, D, N, order, seed):
    import jax.numpy as jnp
    from .c15 import bandlimited
    rng = np.random.default_rng(seed)
    if name == "NavierStokesVelocity" and D != 3:
        return {"ok": True, "skipped": "dimension"}
    st, C, odd = _iso_stepper(name, D, N, 2.0, 0.01, order, seed)
    vector_valued = C == D and name != "GrayScott"
    if odd and N % 2 == 0:
        u, _ = bandlimited(rng, C, D, N, (N - 1) // 2)     # odd-order linear terms: Nyquist-free on even grids
    else:
        u = rng.normal(size=(C,) + (N,) * D)
    worst = 0.0
    base = np.asarray(st(jnp.asarray(u)))
    if not np.all(np.isfinite(base)):
        return {"ok": True, "skipped": "non-finite"}
    for perm in itertools.permutations(range(D)):
        if perm == tuple(range(D)):
            continue
        up = np.transpose(u, (0,) + tuple(1 + p for p in perm))
        if vector_valued:
            up = up[list(perm)]
        got = np.asarray(st(jnp.asarray(up)))
        want = np.transpose(base, (0,) + tuple(1 + p for p in perm))
        if vector_valued:
            want = want[list(perm)]
        worst = max(worst, float(np.max(np.abs(got - want))))
    sc = float(np.max(np.abs(base))) + 1e-300
    return {"ok": bool(worst <= 1e-9 * sc), "err": worst, "scale": sc}


def probe_embed(name, D, N, order, seed):
    """a D-dimensional stepper on a state that is constant along all but one axis reproduces the 1-D stepper"""
    import jax.numpy as jnp
    import exponax as ex
    st, gen, rea = ex.stepper, ex.stepper.generic, ex.stepper.reaction
    rng = np.random.default_rng(seed)
    L, dt = 2.5, 0.01
    nu, b, r = 0.05, 0.7, 0.9
    mk = {
        "Burgers(single)": lambda d: st.Burgers(d, L, N, dt, diffusivity=nu, convection_scale=b, single_channel=True, order=order),
        "KuramotoSivashinsky": lambda d: st.KuramotoSivashinsky(d, L * 6, N, dt, order=order),
        "AllenCahn": lambda d: rea.AllenCahn(d, L, N, dt, order=order),
        "Diffusion": lambda d: st.Diffusion(d, L, N, dt, diffusivity=nu),
        "Dispersion": lambda d: st.Dispersion(d, L, N, dt, dispersivity=0.3),
        # documented symbol: a_0 enters as D*a_0, so the 1-D counterpart carries D*a_0
        "GeneralPolynomialStepper": lambda d: gen.GeneralPolynomialStepper(
            d, L, N, dt, linear_coefficients=(0.3 * (D / d), 0.0, nu), polynomial_coefficients=(0.0, 0.0, -0.3), order=order),
    }.get(name)
    # anisotropic coefficients (full symmetric positive matrix diffusivity, vector velocity / dispersivity): along axis a
    # the 1-D counterpart carries A[a, a] resp. v[a] — off-diagonal entries only act on states varying along two axes
    A = np.array([[0.05, 0.02, -0.01], [0.02, 0.03, 0.015], [-0.01, 0.015, 0.04]])[:D, :D]
    vv = np.array([0.6, -0.4, 0.9])[:D]
    aniso = {
        "Diffusion(matrix)": (lambda: st.Diffusion(D, L, N, dt, diffusivity=jnp.asarray(A)), lambda a: st.Diffusion(1, L, N, dt, diffusivity=float(A[a, a]))),
        "AdvectionDiffusion(vector,matrix)": (lambda: st.AdvectionDiffusion(D, L, N, dt, velocity=jnp.asarray(vv), diffusivity=jnp.asarray(A)),
                                              lambda a: st.AdvectionDiffusion(1, L, N, dt, velocity=float(vv[a]), diffusivity=float(A[a, a]))),
        "Advection(vector)": (lambda: st.Advection(D, L, N, dt, velocity=jnp.asarray(vv)), lambda a: st.Advection(1, L, N, dt, velocity=float(vv[a]))),
        "Dispersion(vector)": (lambda: st.Dispersion(D, L, N, dt, dispersivity=jnp.asarray(vv)), lambda a: st.Dispersion(1, L, N, dt, dispersivity=float(vv[a]))),
    }.get(name)
    if aniso is not None:
        sD, s1_of = aniso[0](), aniso[1]
    else:
        sD, s1c = mk(D), mk(1)
        s1_of = lambda a: s1c
    u1 = rng.normal(size=(1, N))
    if ("Dispersion" in name or "Advection" in name) and N % 2 == 0:
        from .c15 import bandlimited
        u1, _ = bandlimited(rng, 1, 1, N, (N - 1) // 2)
    worst, sc = 0.0, 1e-300
    for ax in range(D):
        want1 = np.asarray(s1_of(ax)(jnp.asarray(u1)))[0]
        shape = [1] * D
        shape[ax] = N
        uD = np.broadcast_to(u1[0].reshape(shape), (N,) * D)[None].copy()
        got = np.asarray(sD(jnp.asarray(uD)))[0]
        want = np.broadcast_to(want1.reshape(shape), (N,) * D)
        worst = max(worst, float(np.max(np.abs(got - want))))
        sc = max(sc, float(np.max(np.abs(want1))))
    return {"ok": bool(worst <= 1e-9 * sc), "err": worst, "scale": sc}


def probe_wave(D, N, seed):
    """the wave stepper (2 channels: height, velocity; isotropic): grid shifts, axis permutations and 1-D embedding"""
    import jax.numpy as jnp
    import exponax as ex
    rng = np.random.default_rng(seed)
    L, dt, c = 2.3, 0.05, 1.4
    st = ex.stepper.Wave(D, L, N, dt, speed_of_sound=c)
    u = rng.normal(size=(2,) + (N,) * D)
    base = np.asarray(st(jnp.asarray(u)))
    sc = float(np.max(np.abs(base))) + 1e-300
    res = {}
    axes = tuple(range(1, D + 1))
    shift = tuple(int(x) for x in rng.integers(0, N, D))
    res["shift"] = float(np.max(np.abs(np.asarray(st(jnp.asarray(np.roll(u, shift, axis=axes)))) - np.roll(base, shift, axis=axes))))
    worst = 0.0
    for perm in itertools.permutations(range(D)):
        if perm == tuple(range(D)):
            continue
        tp = (0,) + tuple(1 + p for p in perm)
        worst = max(worst, float(np.max(np.abs(np.asarray(st(jnp.asarray(np.transpose(u, tp)))) - np.transpose(base, tp)))))
    res["perm"] = worst
    if D > 1:
        s1 = ex.stepper.Wave(1, L, N, dt, speed_of_sound=c)
        u1 = rng.normal(size=(2, N))
        want1 = np.asarray(s1(jnp.asarray(u1)))
        worst = 0.0
        for ax in range(D):
            shape = [2] + [1] * D
            shape[1 + ax] = N
            uD = np.broadcast_to(u1.reshape(shape), (2,) + (N,) * D).copy()
            got = np.asarray(st(jnp.asarray(uD)))
            worst = max(worst, float(np.max(np.abs(got - np.broadcast_to(want1.reshape(shape), (2,) + (N,) * D)))))
        res["embed"] = worst
    bad = {k: v for k, v in res.items() if not v <= 1e-9 * sc}
    return {"ok": not bad, "bad": bad, "all": res, "scale": sc, "shift": shift}


def oracle(ctx, deep):
    fails = []
    for D in (1, 2, 3):
        for N in ((6, 7) if not deep else (5, 6, 7, 8, 9)):
            r = probe_wave(D, N, ctx.seed + D)
            ctx.count(("oracle_wave", D, N))
            if not r["ok"]:
                fails.append({"key": f"C08:wave:{'/'.join(sorted(r['bad']))}", "what": f"Wave (D={D}, N={N}) breaks a box symmetry: {r['bad']} (scale {r['scale']:.3g})",
                              "probe": "wave", "args": {"D": D, "N": N, "seed": ctx.seed + D}, "observed": r})
    R = S.registry()
    rng = np.random.default_rng(ctx.seed + 21)
    names = list(R.keys())
    for idx, name in enumerate(names):
        Ds = (1, 2, 3) if deep else ((idx + ctx.seed) % 3 + 1,)
        if name in ("NavierStokesVorticity", "KolmogorovFlowVorticity", "GeneralVorticityConvectionStepper"):
            Ds = (2,)
        if name in ("NavierStokesVelocity", "KolmogorovFlowVelocity"):
            Ds = (3,)
        for D in Ds:
            N = {1: 12, 2: 8, 3: 6}[D] + int(rng.integers(0, 2))
            orders = [0] if name in S.LINEAR else ([int(rng.integers(1, 5))] if not deep else [1, 2, 3, 4])
            for order in orders:
                r = probe_shift(name, D, N, order, ctx.seed + idx)
                ctx.count(("oracle_shift", name, D, order))
                if not r["ok"]:
                    fails.append({"key": f"C08:shift:{name}", "what": f"{name} (D={D}, N={N}, order={order}) does not commute with the grid shift {r.get('shift')}: {r}"[:500],
                                  "probe": "shift", "args": {"name": name, "D": D, "N": N, "order": order, "seed": ctx.seed + idx}, "observed": r})
    for idx, name in enumerate(ISOTROPIC_SCALAR):
        for D in ((2, 3) if deep or name == "NavierStokesVelocity" else ((idx % 2) + 2,)):
            for N in ((6, 7) if deep else (6 + (idx % 2),)):
                order = 0 if name in ("HyperDiffusion", "GeneralLinearStepper") else 2
                r = probe_perm(name, D, N, order, ctx.seed)
                ctx.count(("oracle_perm", name, D, N))
                if not r["ok"]:
                    fails.append({"key": f"C08:perm:{name}", "what": f"{name} (D={D}, N={N}) does not commute with axis permutations: {r}",
                                  "probe": "perm", "args": {"name": name, "D": D, "N": N, "order": order, "seed": ctx.seed}, "observed": r})
    for name in ["Burgers(single)", "KuramotoSivashinsky", "AllenCahn", "Diffusion", "Dispersion", "GeneralPolynomialStepper",
                 "Diffusion(matrix)", "AdvectionDiffusion(vector,matrix)", "Advection(vector)", "Dispersion(vector)"]:
        for D in (2, 3):
            N = 8 if D == 2 else 6
            order = 0 if ("Diffusion" in name or "Dispersion" in name or "Advection" in name) else 2
            r = probe_embed(name, D, N, order, ctx.seed)
            ctx.count(("oracle_embed", name, D))
            if not r["ok"]:
                fails.append({"key": f"C08:embed:{name}", "what": f"{name}: the {D}-D stepper on a state constant along all but one axis differs from the 1-D stepper: {r}",
                              "probe": "embed", "args": {"name": name, "D": D, "N": N, "order": order, "seed": ctx.seed}, "observed": r})
    seen, out = set(), []
    for f in fails:
        if f["key"] not in seen:
            seen.add(f["key"])
            out.append(f)
    return out


def replay(probe, args):
    return {"shift": probe_shift, "perm": probe_perm, "embed": probe_embed, "wave": probe_wave}[probe](**args)
