"""C13 — specific / generic / normalized / difficulty interfaces give the same dynamics."""
from __future__ import annotations

import numpy as np

from . import stepcorr
from . import steppers as S
from . import util as U

LIST_FUNS = ["normalize_coefficients", "denormalize_coefficients", "normalize_polynomial_scales",
             "denormalize_polynomial_scales"]
SCALAR_FUNS = ["normalize_convection_scale", "denormalize_convection_scale", "normalize_gradient_norm_scale",
               "denormalize_gradient_norm_scale"]
DIFF_LIST = ["reduce_normalized_coefficients_to_difficulty", "extract_normalized_coefficients_from_difficulty"]
DIFF_SCALAR = ["reduce_normalized_convection_scale_to_difficulty", "extract_normalized_convection_scale_from_difficulty",
               "reduce_normalized_gradient_norm_scale_to_difficulty", "extract_normalized_gradient_norm_scale_from_difficulty"]
DIFF_TRIPLE = ["reduce_normalized_nonlinear_scales_to_difficulty", "extract_normalized_nonlinear_scales_from_difficulty"]

FAMILY = ["GeneralLinearStepper", "NormalizedLinearStepper", "DifficultyLinearStepper", "DifficultyLinearStepperSimple",
          "GeneralConvectionStepper", "NormalizedConvectionStepper", "DifficultyConvectionStepper",
          "GeneralGradientNormStepper", "NormalizedGradientNormStepper", "DifficultyGradientNormStepper",
          "GeneralPolynomialStepper", "NormalizedPolynomialStepper", "DifficultyPolynomialStepper",
          "GeneralNonlinearStepper", "NormalizedNonlinearStepper", "DifficultyNonlinearStepper",
          "Burgers", "KortewegDeVries", "KuramotoSivashinsky", "KuramotoSivashinskyConservative", "FisherKPP",
          "AllenCahn", "SwiftHohenberg", "GeneralVorticityConvectionStepper", "NavierStokesVorticity",
          "KolmogorovFlowVorticity"]


def _utils():
    from exponax.stepper.generic import _utils as G
    return G


def correspondence(ctx):
    rng = np.random.default_rng(ctx.seed)
    G = _utils()
    d = ctx.driver
    trials = 12 if ctx.tier == "quick" else 80
    for t in range(trials):
        n = int(rng.integers(0 if t % 5 == 0 else 1, 7))
        cs = [float(x) for x in rng.normal(size=n)]
        L, dt = float(rng.uniform(0.3, 9)), float(10 ** rng.uniform(-3, 1))
        D, N = int(rng.integers(1, 4)), int(rng.integers(3, 200))
        M = float(rng.uniform(0.1, 5))
        b = float(rng.normal())
        for f in LIST_FUNS:
            impl = list(getattr(G, f)(tuple(cs), domain_extent=L, dt=dt))
            model = d.ask(f"convert {f} {n} {U.ftoks(cs)} {U.ftok(L)} {U.ftok(dt)}")
            ctx.count((f, n), n >= 2)
            ctx.compare(f"generic._utils.{f} vs Gen.Convert", impl, model, cell=(f, n), detail={"cs": cs, "L": L, "dt": dt})
        for f in SCALAR_FUNS:
            impl = [getattr(G, f)(b, domain_extent=L, dt=dt)]
            model = d.ask(f"convert {f} {U.ftok(b)} {U.ftok(L)} {U.ftok(dt)}")
            ctx.count((f,), True)
            ctx.compare(f"generic._utils.{f} vs Gen.Convert", impl, model, cell=(f,), detail={"b": b, "L": L, "dt": dt})
        for f in DIFF_LIST:
            impl = list(getattr(G, f)(tuple(cs), num_spatial_dims=D, num_points=N)) if n > 0 else None
            if impl is None:
                continue
            model = d.ask(f"convert {f} {n} {U.ftoks(cs)} {D} {N}")
            ctx.count((f, n, D), n >= 2)
            ctx.compare(f"generic._utils.{f} vs Gen.Convert", impl, model, cell=(f, n, D), detail={"cs": cs, "D": D, "N": N})
        for f in DIFF_SCALAR:
            impl = [getattr(G, f)(b, num_spatial_dims=D, num_points=N, maximum_absolute=M)]
            model = d.ask(f"convert {f} {U.ftok(b)} {D} {N} {U.ftok(M)}")
            ctx.count((f, D), True)
            ctx.compare(f"generic._utils.{f} vs Gen.Convert", impl, model, cell=(f, D), detail={"b": b, "D": D, "N": N, "M": M})
        tri = [float(x) for x in rng.normal(size=3)]
        for f in DIFF_TRIPLE:
            impl = list(getattr(G, f)(tuple(tri), num_spatial_dims=D, num_points=N, maximum_absolute=M))
            model = d.ask(f"convert {f} {U.ftoks(tri)} {D} {N} {U.ftok(M)}")
            ctx.count((f, D), True)
            ctx.compare(f"generic._utils.{f} vs Gen.Convert", impl, model, cell=(f, D), detail={"s": tri, "D": D, "N": N, "M": M})
    ctx.sample({"conversion_case": {"cs": cs, "L": L, "dt": dt, "D": D, "N": N, "M": M}})
    # every member of the specific/generic/normalized/difficulty families against the model evaluated on
    # the *documented* equivalent (steppers.py): the same model definition serves all of them
    # the linear symbol regenerated from EVERY class's `_build_linear_operator` (specific, generic, normalized, difficulty,
    # reaction, Navier-Stokes) against the array the class builds — every boolean option combination
    stepcorr.gensym_sweep(ctx, [n for n in S.registry().keys()])
    stepcorr.sweep(ctx, FAMILY, orders_for=lambda nm: [0] if nm in S.LINEAR else [0, 1, 2, 3, 4],
                   trials=1 if ctx.tier == "quick" else 4, Ds=(1, 2) if ctx.tier == "quick" else (1, 2, 3))


# ----------------------------------------------------------------------------
# oracle on the real code
# ----------------------------------------------------------------------------
def _pair_specs(rng, D, N, order):
    """(specific stepper, generic stepper) pairs of the stepper overview with equal coefficient lists"""
    import exponax as ex
    st, gen, rea = ex.stepper, ex.stepper.generic, ex.stepper.reaction
    L, dt = float(rng.uniform(1, 6)), float(10 ** rng.uniform(-2, -0.5))
    nu, b, r = float(rng.uniform(0.01, 0.2)), float(rng.uniform(-1.5, 1.5)), float(rng.uniform(0.3, 2))
    a3, mu = float(rng.uniform(0.01, 0.3)), float(rng.uniform(0.001, 0.02))
    s2, s4 = float(rng.uniform(0.3, 1.2)), float(rng.uniform(0.3, 1.2))
    v = float(rng.uniform(-2, 2))
    pairs = []
    pairs.append(("Advection~GeneralLinear", 1, st.Advection(D, L, N, dt, velocity=v),
                  gen.GeneralLinearStepper(D, L, N, dt, linear_coefficients=(0.0, -v))))
    pairs.append(("Diffusion~GeneralLinear", 1, st.Diffusion(D, L, N, dt, diffusivity=nu),
                  gen.GeneralLinearStepper(D, L, N, dt, linear_coefficients=(0.0, 0.0, nu))))
    pairs.append(("AdvectionDiffusion~GeneralLinear", 1, st.AdvectionDiffusion(D, L, N, dt, velocity=v, diffusivity=nu),
                  gen.GeneralLinearStepper(D, L, N, dt, linear_coefficients=(0.0, -v, nu))))
    pairs.append(("Dispersion~GeneralLinear", 1, st.Dispersion(D, L, N, dt, dispersivity=a3),
                  gen.GeneralLinearStepper(D, L, N, dt, linear_coefficients=(0.0, 0.0, 0.0, a3))))
    pairs.append(("HyperDiffusion~GeneralLinear", 1, st.HyperDiffusion(D, L, N, dt, hyper_diffusivity=mu),
                  gen.GeneralLinearStepper(D, L, N, dt, linear_coefficients=(0.0, 0.0, 0.0, 0.0, -mu))))
    if D == 1:
        # in one dimension the spatially-mixing forms coincide with the element-wise ones: the mixing flags must not
        # change the specific ~ generic correspondence there
        pairs.append(("Dispersion(advect_on_diffusion)~GeneralLinear[1d]", 1, st.Dispersion(D, L, N, dt, dispersivity=a3, advect_on_diffusion=True),
                      gen.GeneralLinearStepper(D, L, N, dt, linear_coefficients=(0.0, 0.0, 0.0, a3))))
        pairs.append(("HyperDiffusion(diffuse_on_diffuse)~GeneralLinear[1d]", 1,
                      st.HyperDiffusion(D, L, N, dt, hyper_diffusivity=mu, diffuse_on_diffuse=True),
                      gen.GeneralLinearStepper(D, L, N, dt, linear_coefficients=(0.0, 0.0, 0.0, 0.0, -mu))))
        pairs.append(("KdV(mixing flags)~GeneralConvection[1d]", 1,
                      st.KortewegDeVries(D, L, N, dt, convection_scale=b, diffusivity=nu, dispersivity=a3, hyper_diffusivity=mu,
                                         advect_over_diffuse=True, diffuse_over_diffuse=True, order=order),
                      gen.GeneralConvectionStepper(D, L, N, dt, linear_coefficients=(0.0, 0.0, nu, -a3, -mu), convection_scale=b, order=order)))
    for single in (True, False):
        C = 1 if single else D
        pairs.append((f"Burgers~GeneralConvection(single={single})", C,
                      st.Burgers(D, L, N, dt, diffusivity=nu, convection_scale=b, single_channel=single, order=order),
                      gen.GeneralConvectionStepper(D, L, N, dt, linear_coefficients=(0.0, 0.0, nu), convection_scale=b,
                                                   single_channel=single, order=order)))
    pairs.append(("KdV~GeneralConvection", D,
                  st.KortewegDeVries(D, L, N, dt, convection_scale=b, diffusivity=nu, dispersivity=a3,
                                     hyper_diffusivity=mu, order=order),
                  gen.GeneralConvectionStepper(D, L, N, dt, linear_coefficients=(0.0, 0.0, nu, -a3, -mu),
                                               convection_scale=b, order=order)))
    pairs.append(("KSconservative~GeneralConvection", D,
                  st.KuramotoSivashinskyConservative(D, L * 5, N, dt, convection_scale=b, second_order_scale=s2,
                                                     fourth_order_scale=s4, order=order),
                  gen.GeneralConvectionStepper(D, L * 5, N, dt, linear_coefficients=(0.0, 0.0, -s2, 0.0, -s4),
                                               convection_scale=b, conservative=True, order=order)))
    pairs.append(("KS~GeneralGradientNorm", 1,
                  st.KuramotoSivashinsky(D, L * 5, N, dt, gradient_norm_scale=b, second_order_scale=s2,
                                         fourth_order_scale=s4, order=order),
                  gen.GeneralGradientNormStepper(D, L * 5, N, dt, linear_coefficients=(0.0, 0.0, -s2, 0.0, -s4),
                                                 gradient_norm_scale=b, order=order)))
    # documented symbol: a_0 enters as D*a_0
    pairs.append(("FisherKPP~GeneralPolynomial", 1,
                  rea.FisherKPP(D, L, N, dt, diffusivity=nu, reactivity=r, order=order),
                  gen.GeneralPolynomialStepper(D, L, N, dt, linear_coefficients=(r / D, 0.0, nu),
                                               polynomial_coefficients=(0.0, 0.0, -r), order=order)))
    pairs.append(("Burgers(single,conservative)~GeneralNonlinear", 1,
                  st.Burgers(D, L, N, dt, diffusivity=nu, convection_scale=b, single_channel=True, conservative=True, order=order),
                  gen.GeneralNonlinearStepper(D, L, N, dt, linear_coefficients=(0.0, 0.0, nu),
                                              nonlinear_coefficients=(0.0, -b, 0.0), order=order)))
    # the square term of the general nonlinear family: b0 u² is what FisherKPP's −r u² and the polynomial family's c2 u² are
    pairs.append(("FisherKPP~GeneralNonlinear(square term)", 1,
                  rea.FisherKPP(D, L, N, dt, diffusivity=nu, reactivity=r, order=order),
                  gen.GeneralNonlinearStepper(D, L, N, dt, linear_coefficients=(r / D, 0.0, nu),
                                              nonlinear_coefficients=(-r, 0.0, 0.0), order=order)))
    pairs.append(("GeneralPolynomial~GeneralNonlinear(square term)", 1,
                  gen.GeneralPolynomialStepper(D, L, N, dt, linear_coefficients=(0.0, 0.0, nu),
                                               polynomial_coefficients=(0.0, 0.0, b), order=order),
                  gen.GeneralNonlinearStepper(D, L, N, dt, linear_coefficients=(0.0, 0.0, nu),
                                              nonlinear_coefficients=(b, 0.0, 0.0), order=order)))
    if D == 2:
        pairs.append(("NavierStokesVorticity~GeneralVorticityConvection", 1,
                      st.NavierStokesVorticity(D, L, N, dt, diffusivity=nu, vorticity_convection_scale=abs(b) + 0.1,
                                               drag=-0.1, order=order),
                      gen.GeneralVorticityConvectionStepper(D, L, N, dt, linear_coefficients=(-0.1 / D, 0.0, nu),
                                                            vorticity_convection_scale=abs(b) + 0.1, order=order)))
        # the forced variant, POSITIVE and NEGATIVE injection scale (a negative amplitude is a half-period shift of the
        # forcing, as valid as a positive one), injection mode within and above the dealiasing band
        for g, m in ((float(rng.uniform(0.3, 1.5)), 1), (-float(rng.uniform(0.3, 1.5)), max(1, min(2, N // 2 - 1)))):
            pairs.append((f"KolmogorovFlowVorticity~GeneralVorticityConvection(injection_scale={'+' if g > 0 else '-'})", 1,
                          st.KolmogorovFlowVorticity(D, L, N, dt, diffusivity=nu, convection_scale=abs(b) + 0.1, drag=-0.1,
                                                     injection_mode=m, injection_scale=g, order=order),
                          gen.GeneralVorticityConvectionStepper(D, L, N, dt, linear_coefficients=(-0.1 / D, 0.0, nu),
                                                                vorticity_convection_scale=abs(b) + 0.1, injection_mode=m,
                                                                injection_scale=g, order=order)))
    return pairs, (L, dt, nu, b)


def probe_pairs(seed, D, N, order):
    import jax.numpy as jnp
    rng = np.random.default_rng(seed)
    pairs, _ = _pair_specs(rng, D, N, order)
    bad = []
    for name, C, a, b in pairs:
        if name.startswith(("Advection", "Diffusion", "Dispersion", "Hyper")) and order != 2:
            pass
        u = S.random_state(rng, C, D, N, "smooth")
        ya, yb = np.asarray(a(jnp.asarray(u))), np.asarray(b(jnp.asarray(u)))
        err = float(np.max(np.abs(ya - yb)))
        sc = float(np.max(np.abs(ya))) + 1e-12
        if not err <= 1e-9 * sc + 1e-12:
            bad.append({"pair": name, "err": err, "scale": sc})
    return {"ok": not bad, "bad": bad}


def probe_rescaling(seed, D, N, order):
    """(L, dt, coeffs) -> normalized and difficulty steppers give the same step; rescaling L, dt with rescaled coeffs too —
    for EVERY combination of the convection options (a flag lost on the way into one interface shows here)"""
    import jax.numpy as jnp
    import exponax as ex
    gen = ex.stepper.generic
    rng = np.random.default_rng(seed)
    L, dt = float(rng.uniform(1, 6)), float(10 ** rng.uniform(-2, -0.5))
    co = (0.0, float(rng.uniform(-1, 1)), float(rng.uniform(0.01, 0.1)))
    b = float(rng.uniform(-1, 1))
    worst, allerrs, scale = True, {}, 0.0
    for single in (False, True):
        for cons in (False, True):
            C = 1 if single else D
            u = S.random_state(rng, C, D, N, "noise" if D > 1 else "smooth")
            kw = dict(single_channel=single, conservative=cons, order=order)
            g = gen.GeneralConvectionStepper(D, L, N, dt, linear_coefficients=co, convection_scale=b, **kw)
            al = tuple(c * dt / L ** j for j, c in enumerate(co))
            n = gen.NormalizedConvectionStepper(D, N, normalized_linear_coefficients=al, normalized_convection_scale=b * dt / L, **kw)
            gam = tuple(a if j == 0 else a * N ** j * 2 ** (j - 1) * D for j, a in enumerate(al))
            mx = 1.3
            dfc = gen.DifficultyConvectionStepper(D, N, linear_difficulties=gam, convection_difficulty=b * dt / L * mx * N * D,
                                                  maximum_absolute=mx, **kw)
            s_, t_ = 2.5, 0.4
            g2 = gen.GeneralConvectionStepper(D, s_ * L, N, t_ * dt, linear_coefficients=tuple(c * s_ ** j / t_ for j, c in enumerate(co)),
                                              convection_scale=b * s_ / t_, **kw)
            y = np.asarray(g(jnp.asarray(u)))
            sc = float(np.max(np.abs(y))) + 1e-12
            errs = {f"{k}(single={single},conservative={cons})": float(np.max(np.abs(np.asarray(m(jnp.asarray(u))) - y)))
                    for k, m in [("normalized", n), ("difficulty", dfc), ("rescaled", g2)]}
            worst = worst and all(e <= 1e-9 * sc + 1e-12 for e in errs.values())
            allerrs.update({k: e for k, e in errs.items() if not e <= 1e-9 * sc + 1e-12} or {})
            scale = max(scale, sc)
    # the same three interfaces of the gradient-norm and of the general nonlinear family, non-default maximum_absolute
    mx = 1.3
    b2 = float(rng.uniform(-1, 1))
    co = (0.0, 0.0, float(rng.uniform(0.01, 0.1)))
    al = tuple(c * dt / L ** j for j, c in enumerate(co))
    gam = tuple(a if j == 0 else a * N ** j * 2 ** (j - 1) * D for j, a in enumerate(al))
    u = S.random_state(rng, 1, D, N, "smooth")
    fam = []
    g = gen.GeneralGradientNormStepper(D, L, N, dt, linear_coefficients=co, gradient_norm_scale=b2, order=order)
    fam.append(("gradient-norm", g, [
        ("normalized", gen.NormalizedGradientNormStepper(D, N, normalized_linear_coefficients=al, normalized_gradient_norm_scale=b2 * dt / L ** 2, order=order)),
        ("difficulty", gen.DifficultyGradientNormStepper(D, N, linear_difficulties=gam, gradient_norm_difficulty=b2 * dt / L ** 2 * mx * N ** 2 * D,
                                                         maximum_absolute=mx, order=order))]))
    nl = (float(rng.uniform(-0.5, 0.5)), float(rng.uniform(-1, 1)), float(rng.uniform(-1, 1)))
    bet = (nl[0] * dt, nl[1] * dt / L, nl[2] * dt / L ** 2)
    g = gen.GeneralNonlinearStepper(D, L, N, dt, linear_coefficients=co, nonlinear_coefficients=nl, order=order)
    fam.append(("nonlinear", g, [
        ("normalized", gen.NormalizedNonlinearStepper(D, N, normalized_linear_coefficients=al, normalized_nonlinear_coefficients=bet, order=order)),
        ("difficulty", gen.DifficultyNonlinearStepper(D, N, linear_difficulties=gam,
                                                      nonlinear_difficulties=(bet[0], bet[1] * mx * N * D, bet[2] * mx * N ** 2 * D),
                                                      maximum_absolute=mx, order=order))]))
    for fname, g, others in fam:
        y = np.asarray(g(jnp.asarray(u)))
        sc = float(np.max(np.abs(y))) + 1e-12
        for k, m in others:
            e = float(np.max(np.abs(np.asarray(m(jnp.asarray(u))) - y)))
            if not e <= 1e-9 * sc + 1e-12:
                worst = False
                allerrs[f"{fname}:{k}(maximum_absolute={mx})"] = e
        scale = max(scale, sc)
    return {"ok": bool(worst), "errs": allerrs, "scale": scale}


def probe_inverse(seed):
    G = _utils()
    rng = np.random.default_rng(seed)
    cs = tuple(float(x) for x in rng.normal(size=5))
    L, dt, D, N, M = 3.7, 0.03, 2, 48, 1.7
    worst = 0.0
    rt = G.denormalize_coefficients(G.normalize_coefficients(cs, domain_extent=L, dt=dt), domain_extent=L, dt=dt)
    worst = max(worst, max(abs(a - b) for a, b in zip(rt, cs)))
    rt = G.extract_normalized_coefficients_from_difficulty(
        G.reduce_normalized_coefficients_to_difficulty(cs, num_spatial_dims=D, num_points=N), num_spatial_dims=D, num_points=N)
    worst = max(worst, max(abs(a - b) for a, b in zip(rt, cs)))
    nc = G.normalize_coefficients(cs, domain_extent=L, dt=dt)
    doc = [c * dt / L ** j for j, c in enumerate(cs)]
    worst = max(worst, max(abs(a - b) for a, b in zip(nc, doc)))
    dc = G.reduce_normalized_coefficients_to_difficulty(cs, num_spatial_dims=D, num_points=N)
    doc = [c if j == 0 else c * N ** j * 2 ** (j - 1) * D for j, c in enumerate(cs)]
    worst = max(worst, max(abs(a - b) / (abs(b) + 1) for a, b in zip(dc, doc)))
    # every scale conversion against its documented formula (β₁ = b₁Δt/L, β₂ = b₂Δt/L², δ₁ = β₁·M·N·D, δ₂ = β₂·M·N²·D,
    # δ₀ = β₀) with a non-default maximum_absolute, and their inverses
    b = float(rng.normal())
    docs = {
        "normalize_convection_scale": (G.normalize_convection_scale(b, domain_extent=L, dt=dt), b * dt / L),
        "denormalize_convection_scale": (G.denormalize_convection_scale(b, domain_extent=L, dt=dt), b * L / dt),
        "normalize_gradient_norm_scale": (G.normalize_gradient_norm_scale(b, domain_extent=L, dt=dt), b * dt / L ** 2),
        "denormalize_gradient_norm_scale": (G.denormalize_gradient_norm_scale(b, domain_extent=L, dt=dt), b * L ** 2 / dt),
        "reduce_convection": (G.reduce_normalized_convection_scale_to_difficulty(b, num_spatial_dims=D, num_points=N, maximum_absolute=M), b * M * N * D),
        "extract_convection": (G.extract_normalized_convection_scale_from_difficulty(b, num_spatial_dims=D, num_points=N, maximum_absolute=M), b / (M * N * D)),
        "reduce_gradient_norm": (G.reduce_normalized_gradient_norm_scale_to_difficulty(b, num_spatial_dims=D, num_points=N, maximum_absolute=M), b * M * N ** 2 * D),
        "extract_gradient_norm": (G.extract_normalized_gradient_norm_scale_from_difficulty(b, num_spatial_dims=D, num_points=N, maximum_absolute=M), b / (M * N ** 2 * D)),
    }
    s3 = tuple(float(x) for x in rng.normal(size=3))
    red = G.reduce_normalized_nonlinear_scales_to_difficulty(s3, num_spatial_dims=D, num_points=N, maximum_absolute=M)
    ext = G.extract_normalized_nonlinear_scales_from_difficulty(s3, num_spatial_dims=D, num_points=N, maximum_absolute=M)
    for j, (f_r, f_e) in enumerate(((1.0, 1.0), (M * N * D, 1 / (M * N * D)), (M * N ** 2 * D, 1 / (M * N ** 2 * D)))):
        docs[f"reduce_nonlinear[{j}]"] = (red[j], s3[j] * f_r)
        docs[f"extract_nonlinear[{j}]"] = (ext[j], s3[j] * f_e)
    badf = {k: float(abs(a - d) / (abs(d) + 1e-300)) for k, (a, d) in docs.items() if not abs(a - d) <= 1e-12 * abs(d)}
    if badf:
        worst = max(worst, max(badf.values()))
    return {"ok": worst <= 1e-12 and not badf, "worst": worst, "formulas": badf, "D": D, "N": N, "M": M, "L": L, "dt": dt}


def oracle(ctx, deep):
    fails = []
    cases = [(1, 12, 2), (2, 7, 2), (1, 9, 4)] if not deep else [(1, 12, 2), (1, 9, 4), (2, 7, 2), (2, 6, 3), (3, 5, 2), (1, 13, 1), (1, 8, 0)]
    for (D, N, order) in cases:
        r = probe_pairs(ctx.seed + 5, D, N, order)
        ctx.count(("oracle_pairs", D, N, order))
        for b in r["bad"]:
            fails.append({"key": f"C13:pair:{b['pair']}", "what": f"{b['pair']} differ by {b['err']:.2e} (D={D}, N={N}, order={order})",
                          "probe": "pairs", "args": {"seed": ctx.seed + 5, "D": D, "N": N, "order": order}, "observed": r})
        r = probe_rescaling(ctx.seed + 6, D, N, order)
        ctx.count(("oracle_rescale", D, N, order))
        if not r["ok"]:
            fails.append({"key": "C13:rescaling", "what": f"general/normalized/difficulty/rescaled steps differ: {r['errs']}",
                          "probe": "rescaling", "args": {"seed": ctx.seed + 6, "D": D, "N": N, "order": order}, "observed": r})
    r = probe_inverse(ctx.seed)
    if not r["ok"]:
        fails.append({"key": "C13:conversion", "what": f"conversion functions are not inverse / not the documented formula ({r['worst']:.2e}; relative deviation per formula: {r.get('formulas')}; D={r.get('D')}, N={r.get('N')}, M={r.get('M')})"[:500],
                      "probe": "inverse", "args": {"seed": ctx.seed}, "observed": r})
    # dedupe by key
    seen, out = set(), []
    for f in fails:
        if f["key"] not in seen:
            seen.add(f["key"])
            out.append(f)
    return out


def replay(probe, args):
    return {"pairs": probe_pairs, "rescaling": probe_rescaling, "inverse": probe_inverse}[probe](**args)
