"""C14 — rollout, repeat and the wrapper steppers equal the naive loop."""
from __future__ import annotations

import numpy as np

from . import steppers as S
from . import util as U

MOD = 2 ** 31 - 1  # keep integer bookkeeping inside int64 (a, b small, n small)


def _ex():
    import exponax as ex
    return ex


def correspondence(ctx):
    import jax
    import jax.numpy as jnp
    ex = _ex()
    d = ctx.driver
    rng = np.random.default_rng(ctx.seed)
    nmax = 8 if ctx.tier == "quick" else 16
    # exhaustive over n, include_init (no aux), two integer steppers, pytree shapes
    for n in range(0, nmax + 1):
        for incl in (False, True):
            for (a, b) in [(2, 1), (-3, 5)]:
                u0 = int(rng.integers(-4, 5))
                f = lambda u: a * u + b
                model = d.ask(f"loops rollout {n} {int(incl)} {a} {b} {u0}")
                impl = ex.rollout(f, n, include_init=incl)(jnp.asarray(u0, dtype=jnp.int64))
                ctx.count(("rollout", n, incl), n >= 2)
                ctx.compare("rollout vs Loops.rollout", np.asarray(impl), model, exact=True, cell=("rollout", n, incl))
                # pytree state: same stepper leaf-wise, structure preserved
                tree = {"x": jnp.asarray([u0, u0 + 1], dtype=jnp.int64), "y": (jnp.asarray(u0 - 1, dtype=jnp.int64),)}
                ft = lambda t: jax.tree_util.tree_map(f, t)
                out = ex.rollout(ft, n, include_init=incl)(tree)
                same_struct = jax.tree_util.tree_structure(out) == jax.tree_util.tree_structure(tree)
                m1 = d.ask(f"loops rollout {n} {int(incl)} {a} {b} {u0 + 1}")
                m2 = d.ask(f"loops rollout {n} {int(incl)} {a} {b} {u0 - 1}")
                ctx.compare("rollout(pytree) structure", [int(same_struct)], [1], exact=True)
                ctx.compare("rollout(pytree) leaf x[0]", np.asarray(out["x"])[..., 0] if n + incl > 0 else [], model, exact=True)
                ctx.compare("rollout(pytree) leaf x[1]", np.asarray(out["x"])[..., 1] if n + incl > 0 else [], m1, exact=True)
                ctx.compare("rollout(pytree) leaf y", np.asarray(out["y"][0]), m2, exact=True)
                # repeat
                model = d.ask(f"loops repeat {n} {a} {b} {u0}")
                impl = ex.repeat(f, n)(jnp.asarray(u0, dtype=jnp.int64))
                ctx.count(("repeat", n), n >= 2)
                ctx.compare("repeat vs Loops.repeatN", [int(impl)], model, exact=True, cell=("repeat", n))
            for cst in (False, True):
                a, b = 2, -1
                u0 = int(rng.integers(-3, 4))
                aux = [int(x) for x in rng.integers(-5, 6, n)] if not cst else [int(rng.integers(-5, 6))]
                fa = lambda u, x: a * u + b + x
                auxarr = jnp.asarray(aux, dtype=jnp.int64) if not cst else jnp.asarray(aux[0], dtype=jnp.int64)
                if not cst and n == 0:
                    auxarr = jnp.zeros((0,), dtype=jnp.int64)
                model = d.ask(f"loops rollout_aux {n} {int(incl)} {int(cst)} {a} {b} {u0} {len(aux)} " + " ".join(map(str, aux)))
                impl = ex.rollout(fa, n, include_init=incl, takes_aux=True, constant_aux=cst)(jnp.asarray(u0, dtype=jnp.int64), auxarr)
                ctx.count(("rollout_aux", n, incl, cst), n >= 2)
                ctx.compare("rollout(takes_aux) vs Loops.rolloutAux", np.asarray(impl), model, exact=True,
                            cell=("rollout_aux", n, incl, cst), detail={"aux": aux})
                model = d.ask(f"loops repeat_aux {n} {int(cst)} {a} {b} {u0} {len(aux)} " + " ".join(map(str, aux)))
                impl = ex.repeat(fa, n, takes_aux=True, constant_aux=cst)(jnp.asarray(u0, dtype=jnp.int64), auxarr)
                ctx.compare("repeat(takes_aux) vs Loops.repeatAux", [int(impl)], model, exact=True, cell=("repeat_aux", n, cst))
    ctx.sample({"op": "rollout", "stepper": "u -> a*u+b on int64 leaves", "n_range": [0, nmax]})
    # windows: every (T, sub_len)
    Tmax = 8 if ctx.tier == "quick" else 14
    for T in range(1, Tmax + 1):
        for sub in range(1, T + 2):
            model = d.ask(f"loops stack {T} {sub}")
            trj = jnp.arange(T, dtype=jnp.int64)
            try:
                out = ex.stack_sub_trajectories(trj, sub)
                impl = np.asarray(out).ravel().tolist()
                # the window axis layout is part of the contract: (number of windows, window length, ...)
                ctx.compare("stack_sub_trajectories shape = (T - sub_len + 1, sub_len)", list(np.asarray(out).shape), [T - sub + 1, sub],
                            exact=True, cell=("stack_shape", T, sub))
                # pytree + trailing axes keep structure
                tree = {"a": jnp.stack([trj, 10 * trj], axis=-1)}
                o2 = ex.stack_sub_trajectories(tree, sub)
                ok2 = np.array_equal(np.asarray(o2["a"])[..., 0], np.asarray(out)) and \
                    np.array_equal(np.asarray(o2["a"])[..., 1], 10 * np.asarray(out))
                ctx.compare("stack_sub_trajectories(pytree, trailing axis)", [int(ok2)], [1], exact=True)
            except ValueError:
                impl = [-1]
            ctx.count(("stack", T, sub), T >= 2)
            ctx.compare("stack_sub_trajectories vs Loops.stackSub", impl, model, exact=True, cell=("stack", T, sub))
    ctx.exhaustive = True
    # RepeatedStepper: integer inner "stepper" cannot be used (needs BaseStepper) -> numeric, with the model fullstep
    R = S.registry()
    for name, D, N, order, nsub in [("Burgers", 1, 12, 2, 3), ("Diffusion", 2, 6, 0, 4), ("KortewegDeVries", 1, 9, 2, 2)]:
        spec = R[name](rng, D, N, order)
        inner = spec.build()
        rep = ex.RepeatedStepper(inner, nsub)
        u = S.random_state(rng, spec.C, D, N, "smooth")
        out_impl = np.asarray(rep(jnp.asarray(u)))
        # model: the repeated stepper stays in Fourier space between sub-steps; for Nyquist-free smooth states
        # this equals nsub physical-space model steps (C14 statement)
        cur = u
        for _ in range(nsub):
            cur = np.asarray(ctx.driver.ask(spec.fullstep_line(cur)), dtype=float).reshape(u.shape)
        ctx.count(("repeated", name, D, N, nsub))
        ctx.compare(f"RepeatedStepper({name},{nsub}) vs {nsub} model steps", out_impl, cur, cell=("repeated", name))
        ctx.compare("RepeatedStepper.dt", [float(rep.dt)], [spec.dt * nsub], cell=("repeated_dt", name))


def probe_naive(n, incl):
    """rollout against a Python loop on a real stepper"""
    import jax.numpy as jnp
    ex = _ex()
    st = ex.stepper.Burgers(1, 3.0, 16, 0.05)
    u0 = jnp.sin(2 * jnp.pi * jnp.arange(16) / 16)[None, :]
    trj = ex.rollout(st, n, include_init=incl)(u0)
    ref = [u0] if incl else []
    u = u0
    for _ in range(n):
        u = st(u)
        ref.append(u)
    if len(ref) == 0:
        return {"ok": trj.shape[0] == 0}
    ref = jnp.stack(ref)
    last = ex.repeat(st, n)(u0)
    err = float(jnp.max(jnp.abs(trj - ref))) if trj.shape == ref.shape else float("inf")
    err2 = float(jnp.max(jnp.abs(last - u)))
    return {"ok": err <= 1e-12 and err2 <= 1e-12, "err": err, "err_repeat": err2, "shape": list(trj.shape)}


def probe_repeated(nsub, case=0):
    """RepeatedStepper(inner, n) = n calls of inner, effective dt = n*dt — on WHITE-NOISE states (content in the highest
    resolved mode): odd grids for every inner stepper (no Nyquist mode), even grids for even-order symbols (diffusion),
    where the Fourier-space sub-stepping and the physical-space loop agree for every state"""
    import jax.numpy as jnp
    ex = _ex()
    rng = np.random.default_rng(100 + case)
    mk = [
        lambda: (ex.stepper.Burgers(1, 3.0, 15, 0.02), 1, 1, 15, 0.02),
        lambda: (ex.stepper.Diffusion(1, 2.0, 9, 0.05, diffusivity=0.03), 1, 1, 9, 0.05),
        lambda: (ex.stepper.Advection(1, 2.0, 9, 0.05, velocity=0.7), 1, 1, 9, 0.05),
        lambda: (ex.stepper.KortewegDeVries(1, 8.0, 11, 0.01), 1, 1, 11, 0.01),
        lambda: (ex.stepper.Diffusion(2, 2.0, 8, 0.05, diffusivity=0.03), 1, 2, 8, 0.05),
        lambda: (ex.stepper.Burgers(2, 3.0, 7, 0.02, diffusivity=0.05), 2, 2, 7, 0.02),
        lambda: (ex.stepper.Diffusion(3, 2.0, 6, 0.05, diffusivity=0.03), 1, 3, 6, 0.05),
        # cases 7-9: EVEN grids, odd-order symbols, every mode kept by the dealiasing (fraction 1), NYQUIST-FREE states:
        # the nonlinear term never populates the Nyquist bin, so the Fourier-space sub-stepping is the physical loop
        lambda: (ex.stepper.KortewegDeVries(1, 20.0, 16, 0.01, dealiasing_fraction=1.0), 1, 1, 16, 0.01),
        lambda: (ex.stepper.generic.GeneralConvectionStepper(1, 3.0, 16, 0.01, linear_coefficients=(0.0, -0.4, 0.02), dealiasing_fraction=1.0), 1, 1, 16, 0.01),
        lambda: (ex.stepper.KortewegDeVries(2, 20.0, 8, 0.01, single_channel=True, dealiasing_fraction=1.0), 1, 2, 8, 0.01),
        # cases 10-12: steppers whose Fourier step is not diagonal — the wave stepper (two coupled channels, mean height
        # drifting with the mean velocity; white noise has a non-zero mean) on odd grids, and a forced stepper inside
        lambda: (ex.stepper.Wave(1, 3.0, 9, 0.07, speed_of_sound=0.8), 2, 1, 9, 0.07),
        lambda: (ex.stepper.Wave(2, 5.0, 7, 0.11, speed_of_sound=1.3), 2, 2, 7, 0.11),
        lambda: (ex.stepper.Wave(3, 2.0, 5, 0.05), 2, 3, 5, 0.05),
    ][case]
    st, C, D, N, dt = mk()
    rep = ex.RepeatedStepper(st, nsub)
    u0 = jnp.asarray(rng.normal(size=(C,) + (N,) * D) * 0.3) if case else jnp.sin(2 * jnp.pi * jnp.arange(15) / 15)[None, :]
    if case >= 10:
        u0 = u0 + jnp.asarray([0.4, 0.9]).reshape((2,) + (1,) * D)      # mean height and mean velocity well away from zero
    if 7 <= case < 10:
        kk = np.abs(np.fft.fftfreq(N, 1 / N))
        keep = np.ones((N,) * D, dtype=bool)
        for d_ in range(D):
            sh = [1] * D
            sh[d_] = N
            keep &= (kk.reshape(sh) != N // 2)
        u0 = jnp.asarray(np.stack([np.real(np.fft.ifftn(np.fft.fftn(np.asarray(u0)[c]) * keep)) for c in range(C)]))
    u = u0
    for _ in range(nsub):
        u = st(u)
    err = float(jnp.max(jnp.abs(rep(u0) - u)))
    sc = float(jnp.max(jnp.abs(u))) + 1e-300
    return {"ok": err <= 1e-12 * max(1.0, sc) and abs(rep.dt - nsub * dt) < 1e-15, "err": err, "dt": float(rep.dt), "case": case,
            "stepper": type(st).__name__, "D": D, "N": N}


def probe_forced():
    import jax.numpy as jnp
    ex = _ex()
    st = ex.stepper.Burgers(1, 3.0, 15, 0.02)
    fs = ex.ForcedStepper(st)
    u0 = jnp.sin(2 * jnp.pi * jnp.arange(15) / 15)[None, :]
    f = jnp.cos(4 * jnp.pi * jnp.arange(15) / 15)[None, :]
    e1 = float(jnp.max(jnp.abs(fs(u0, 0 * f) - st(u0))))
    e2 = float(jnp.max(jnp.abs(fs(u0, f) - st(u0 + 0.02 * f))))
    return {"ok": e1 <= 1e-13 and e2 <= 1e-13, "e_zero": e1, "e_force": e2}


def probe_aux_shapes(n, incl, cst):
    """auxiliary inputs that are ARRAYS with several rows / PYTREES (a multi-channel forcing, a dict of leaves), held
    constant or consumed in order: exact comparison with the naive Python loop on integer-valued bookkeeping steppers"""
    import jax.numpy as jnp
    import exponax as ex
    rng = np.random.default_rng(100 + n)
    u0 = rng.integers(-3, 4, size=(2, 3)).astype(np.int64)

    def step(u, aux):
        return 2 * u - 1 + aux["p"] * jnp.asarray([[1, 10, 100], [1000, 10000, 100000]]) + aux["q"][None, :] * 7
    if cst:
        aux = {"p": rng.integers(-4, 5, size=(2, 3)).astype(np.int64), "q": rng.integers(-4, 5, size=(3,)).astype(np.int64)}
        per_step = [aux] * n
    else:
        aux = {"p": rng.integers(-4, 5, size=(n, 2, 3)).astype(np.int64), "q": rng.integers(-4, 5, size=(n, 3)).astype(np.int64)}
        per_step = [{"p": aux["p"][i], "q": aux["q"][i]} for i in range(n)]
    jaux = {k: jnp.asarray(v) for k, v in aux.items()}
    got = np.asarray(ex.rollout(step, n, include_init=incl, takes_aux=True, constant_aux=cst)(jnp.asarray(u0), jaux))
    cur, want = u0.copy(), ([u0.copy()] if incl else [])
    for a in per_step:
        cur = np.asarray(step(jnp.asarray(cur), {k: jnp.asarray(v) for k, v in a.items()}))
        want.append(cur.copy())
    want = np.stack(want) if want else np.zeros((0, 2, 3), dtype=np.int64)
    ok = got.shape == want.shape and bool(np.array_equal(got, want))
    rep = np.asarray(ex.repeat(step, n, takes_aux=True, constant_aux=cst)(jnp.asarray(u0), jaux))
    ok = ok and bool(np.array_equal(rep, cur))
    return {"ok": bool(ok), "shape": list(got.shape), "max_abs_diff": int(np.max(np.abs(got - want))) if got.shape == want.shape and got.size else 0}


def probe_windows(T, sub):
    """stack_sub_trajectories against naive slicing: window w is trj[w : w + sub_len], for array and pytree leaves of
    several ranks — shapes included"""
    ex = _ex()
    import jax.numpy as jnp
    base = np.arange(T * 6, dtype=np.int64).reshape(T, 2, 3) * 3 + 1
    tree = {"a": jnp.asarray(base), "b": (jnp.asarray(base[:, 0, :] * 7), jnp.asarray(base[:, 0, 0] - 5))}
    got = ex.stack_sub_trajectories(tree, sub)
    import jax
    leaves_got = jax.tree_util.tree_leaves(got)
    leaves_in = jax.tree_util.tree_leaves(tree)
    bad = []
    for lg, li in zip(leaves_got, leaves_in):
        li = np.asarray(li)
        want = np.stack([li[w:w + sub] for w in range(T - sub + 1)])
        lg = np.asarray(lg)
        if lg.shape != want.shape:
            bad.append(f"shape {lg.shape}, documented {(T - sub + 1, sub) + li.shape[1:]}")
        elif not np.array_equal(lg, want):
            bad.append("window contents differ from trj[w:w+sub_len]")
    return {"ok": not bad, "bad": bad}


def oracle(ctx, deep):
    fails = []
    for T in ([1, 2, 5] if not deep else list(range(1, 9))):
        for sub in sorted({1, 2, T} if not deep else set(range(1, T + 1))):
            if sub > T:
                continue
            r = probe_windows(T, sub)
            ctx.count(("oracle_windows", T, sub))
            if not r["ok"]:
                fails.append({"key": f"C14:windows:sub_len={'1' if sub == 1 else 'T' if sub == T else 'mid'}", "what": f"stack_sub_trajectories(T={T}, sub_len={sub}) is not the stack of the windows trj[w:w+sub_len]: {r['bad']}",
                              "probe": "windows", "args": {"T": T, "sub": sub}, "observed": r})
    for n in ([0, 1, 2, 3] if not deep else list(range(0, 7))):
        for incl in (False, True):
            for cst in (False, True):
                r = probe_aux_shapes(n, incl, cst)
                ctx.count(("oracle_aux_shapes", n, incl, cst))
                if not r["ok"]:
                    fails.append({"key": f"C14:aux:constant_aux={cst}", "what": f"rollout/repeat with array/pytree aux differ from the naive loop (n={n}, include_init={incl}, constant_aux={cst}): {r}",
                                  "probe": "aux_shapes", "args": {"n": n, "incl": incl, "cst": cst}, "observed": r})
    ns = [0, 1, 2, 5] if not deep else list(range(0, 9))
    for n in ns:
        for incl in (False, True):
            r = probe_naive(n, incl)
            ctx.count(("oracle_naive", n, incl))
            if not r["ok"]:
                fails.append({"key": f"C14:rollout:include_init={incl}", "what": f"rollout/repeat differ from the naive loop at n={n}, include_init={incl}",
                              "probe": "naive", "args": {"n": n, "incl": incl}, "observed": r})
    for nsub in ([1, 3] if not deep else [1, 2, 3, 5]):
        for case in range(13):
            r = probe_repeated(nsub, case)
            ctx.count(("oracle_repeated", nsub, case))
            if not r["ok"]:
                fails.append({"key": "C14:repeated", "what": f"RepeatedStepper({r['stepper']} D={r['D']} N={r['N']}, {nsub}) differs from {nsub} inner steps by {r['err']:.2e} on a {'white-noise' if (case < 7 or case >= 10) else 'Nyquist-free'} state",
                              "probe": "repeated", "args": {"nsub": nsub, "case": case}, "observed": r})
                break
    r = probe_forced()
    if not r["ok"]:
        fails.append({"key": "C14:forced", "what": "ForcedStepper differs from step(u + dt f)", "probe": "forced", "args": {}, "observed": r})
    seen, out = set(), []
    for f in fails:
        if f["key"] not in seen:
            seen.add(f["key"])
            out.append(f)
    return out


def replay(probe, args):
    return {"naive": probe_naive, "repeated": probe_repeated, "forced": probe_forced, "aux_shapes": probe_aux_shapes, "windows": probe_windows}[probe](**args)
