"""C01 — linear steppers advance band-limited states by the exact PDE solution."""
from __future__ import annotations

import numpy as np

from . import stepcorr
from . import steppers as S
from . import util as U

DTS = [1e-3, 1.0, 1e3, -0.3]


def py_symbol(terms, k, L):
    """symbol of the documented operator Σ c ∂^α at integer wavenumber vector k (independent of the implementation)"""
    lam = 0.0 + 0.0j
    for c, al in terms:
        t = complex(c)
        for d, a in enumerate(al):
            t *= (1j * 2 * np.pi * k[d] / L) ** a
        lam += t
    return lam


def stable_for(spec, dt):
    """skip configurations in which rounding noise is amplified beyond a rounding-level comparison: the fastest-growing
    wavenumber vector of the WHOLE grid (anti-diffusion when dt < 0, anisotropic / matrix coefficients included) must not
    grow by more than e^10 per step — model and implementation amplify their own rounding errors by that factor"""
    import itertools
    N, D, L = spec.N, spec.D, spec.L
    kk = [int(np.fft.fftfreq(N, 1 / N)[i]) for i in range(N)]
    worst = max((py_symbol(spec.lin[0], list(k), L) * dt).real for k in itertools.product(kk, repeat=D))
    return worst < 10.0


def correspondence(ctx):
    import jax.numpy as jnp
    import exponax as ex
    from exponax import spectral as sp
    rng = np.random.default_rng(ctx.seed)
    R = S.registry()
    d = ctx.driver
    trials = 1 if ctx.tier == "quick" else 4
    for name in S.LINEAR:
        for D in (1, 2, 3):
            for t in range(trials):
                Ns = stepcorr.grid_sizes(ctx.tier, D)
                N = int(Ns[int(rng.integers(0, len(Ns)))])
                spec = R[name](rng, D, N, 0)
                dt = DTS[int(rng.integers(0, len(DTS)))]
                if spec.pos is None and stable_for(spec, dt):
                    spec.dt = dt
                st = spec.build()
                # (i) linear operator array vs the model symbol of the documented operator
                dop = sp.build_derivative_operator(D, spec.L, N)
                lin_impl = np.asarray(st._build_linear_operator(dop))
                lin_model = d.ask_complex(spec.sym_line(0))
                ctx.count(("symbol", name, D, N % 2), True)
                ctx.compare(f"{name}._build_linear_operator vs polySymbol(documented operator)", lin_impl.ravel(), lin_model,
                            cell=("symbol", name, D), detail={"kwargs": {k: str(v) for k, v in spec.kwargs.items()}, "L": spec.L})
                # (ii) the whole step on a random real state (content up to Nyquist included)
                u = S.random_state(rng, 1, D, N, "noise" if t % 2 else "smooth")
                stepcorr.one_step(ctx, spec, u)
                ctx.bump(name)
                ctx.bump(f"dt={spec.dt if spec.dt in DTS else 'drawn'}")
    # (iii) wave stepper, per mode incl. DC, vs Wave.stepMode
    for D in (1, 2, 3):
        for N in ([6, 7] if ctx.tier == "quick" else [4, 5, 6, 7, 8]):
            L, c, dt = float(rng.uniform(1, 6)), float(rng.uniform(0.3, 2)), float(rng.choice([0.01, 1.0, 100.0, -0.4]))
            if N % 2 == 1:
                L = float(rng.choice([10.0, 50.0]))      # long domains: scaled wavenumbers below one
            st = ex.stepper.Wave(D, L, N, dt, speed_of_sound=c)
            M = int(np.prod(sp.wavenumber_shape(D, N)))
            uh = rng.normal(size=(2, M)) + 1j * rng.normal(size=(2, M))
            out = np.asarray(st.step_fourier(jnp.asarray(uh.reshape((2,) + sp.wavenumber_shape(D, N))))).reshape(2, M)
            kn = (2 * np.pi / L) * np.sqrt((np.asarray(sp.build_wavenumbers(D, N)) ** 2).sum(axis=0)).ravel()
            toks = [f"wave_step {U.ftok(c)} {U.ftok(dt)} {M}"]
            for h in range(M):
                toks.append(f"{U.ftok(kn[h])} {1 if h == 0 else 0} {U.ctoks(uh[0, h])} {U.ctoks(uh[1, h])}")
            mo = np.asarray(d.ask_complex(" ".join(toks))).reshape(M, 2).T
            ctx.count(("wave", D, N), True)
            ctx.compare("Wave.step_fourier vs Wave.stepMode", out.ravel(), mo.ravel(), cell=("wave", D, N),
                        detail={"L": L, "c": c, "dt": dt})
    stepcorr.gensym_sweep(ctx, S.LINEAR)
    ctx.sample({"linear_classes": S.LINEAR + ["Wave"], "dts": DTS})


# ----------------------------------------------------------------------------
def _mode_state(rng, D, N, nmodes=3):
    """superposition of modes strictly below Nyquist"""
    kmax = (N - 1) // 2
    modes = []
    for _ in range(nmodes):
        k = [int(rng.integers(-kmax, kmax + 1)) for _ in range(D)]
        modes.append((k, float(rng.normal()), float(rng.uniform(0, 2 * np.pi))))
    return modes


def _eval_modes(modes, D, N, L, lam_of_k=None, t=0.0):
    x = np.stack(np.meshgrid(*[np.arange(N) * L / N] * D, indexing="ij"))
    u = np.zeros((N,) * D)
    for k, a, ph in modes:
        lam = lam_of_k(k) if lam_of_k else 0.0
        arg = 2 * np.pi / L * np.tensordot(np.asarray(k, dtype=float), x, axes=1) + ph + np.imag(lam) * t
        u += a * np.exp(np.real(lam) * t) * np.cos(arg)
    return u[None]


def _forced(forced):
    S.FORCED_FLAGS.clear()
    S.FORCED_FLAGS.update(forced or {})


def option_combos(name, D, N, seed):
    """every combination of the boolean options / argument forms the registry draws for this class"""
    import itertools
    _forced(None)
    del S.DRAWN_FLAGS[:]
    del S.DRAWN_CHOICES[:]
    S.registry()[name](np.random.default_rng(seed), D, N, 0)
    fl = list(dict.fromkeys(S.DRAWN_FLAGS))
    ch = list(dict.fromkeys(S.DRAWN_CHOICES))
    keys = fl + [c for c, _ in ch]
    doms = [[False, True]] * len(fl) + [list(range(n)) for _, n in ch]
    return [dict(zip(keys, c)) for c in itertools.product(*doms)] if keys else [{}]


def probe_exact(name, D, N, dt, seed, forced=None):
    import jax.numpy as jnp
    rng = np.random.default_rng(seed)
    _forced(forced)
    try:
        spec = S.registry()[name](rng, D, N, 0)
    finally:
        _forced(None)
    if spec.pos is None:
        spec.dt = dt
    dt = spec.dt
    st = spec.build()
    modes = _mode_state(rng, D, N)
    lam_of_k = lambda k: py_symbol(spec.lin[0], k, spec.L)
    growth = max((lam_of_k(k) * dt).real for k, _, _ in modes)
    if growth > 30:
        return {"ok": True, "skipped": "growth*dt too large for a rounding-level comparison"}
    u0 = _eval_modes(modes, D, N, spec.L)
    got = np.asarray(st(jnp.asarray(u0)))
    want = _eval_modes(modes, D, N, spec.L, lam_of_k, dt)
    sc = max(float(np.max(np.abs(want))), float(np.max(np.abs(u0))), 1e-300)
    err = float(np.max(np.abs(got - want)))
    # "to rounding": the phase λ·dt itself carries a relative rounding error, so the tolerance scales with 1+|λ dt|
    zmax = max(abs(lam_of_k(k) * dt) for k, _, _ in modes)
    tol = (1e-9 + 1e-14 * zmax) * sc
    # rounding noise sits on EVERY grid mode (also the ones the state does not contain) and is amplified by the
    # fastest-growing mode of the grid (anti-diffusion with dt < 0): allow for it
    import itertools
    kk = [int(np.fft.fftfreq(N, 1 / N)[i]) for i in range(N)]
    gall = max((lam_of_k(list(k)) * dt).real for k in itertools.product(kk, repeat=D))   # per step
    # n calls with dt == one call with n*dt ; -dt undoes dt for the non-dissipative equations
    extra = {}
    if gall < 20:
        tol += 1e-13 * sc * float(np.exp(max(gall, 0.0)))
    else:
        return {"ok": True, "skipped": "rounding noise on the fastest-growing grid mode exceeds a rounding-level comparison"}
    ok = err <= tol
    if spec.pos is None:
        n = 3
        _forced(forced)
        spec_n = S.registry()[name](np.random.default_rng(seed), D, N, 0)
        _forced(None)
        spec_n.dt = n * dt
        if max((lam_of_k(k) * n * dt).real for k, _, _ in modes) < 30 and gall * n < 20:
            one = np.asarray(spec_n.build()(jnp.asarray(u0)))
            cur = jnp.asarray(u0)
            for _ in range(n):
                cur = st(cur)
            e2 = float(np.max(np.abs(np.asarray(cur) - one)))
            extra["semigroup_err"] = e2
            ok = ok and e2 <= 3 * tol + 1e-9 * float(np.max(np.abs(one))) + 1e-13 * sc * float(np.exp(max(gall * n, 0.0)))
            # … also when the n calls are made by the library's own sub-stepping wrapper
            import exponax as ex
            rep = np.asarray(ex.RepeatedStepper(st, n)(jnp.asarray(u0)))
            e2r = float(np.max(np.abs(rep - one)))
            extra["semigroup_err_repeated_stepper"] = e2r
            ok = ok and e2r <= 3 * tol + 1e-9 * float(np.max(np.abs(one))) + 1e-13 * sc * float(np.exp(max(gall * n, 0.0)))
        if name in ("Advection", "Dispersion"):
            _forced(forced)
            spec_m = S.registry()[name](np.random.default_rng(seed), D, N, 0)
            _forced(None)
            spec_m.dt = -dt
            back = np.asarray(spec_m.build()(jnp.asarray(got)))
            e3 = float(np.max(np.abs(back - u0)))
            extra["inverse_err"] = e3
            ok = ok and e3 <= 2 * tol
    return {"ok": bool(ok), "err": err, "scale": sc, "L": spec.L, "dt": dt, "modes": modes, **extra,
            "rounding_allowance": float(1e-14 * zmax * sc + 1e-13 * sc * float(np.exp(max(gall, 0.0)))),
            "kwargs": {k: str(v) for k, v in spec.kwargs.items()}}


def probe_wave(D, N, dt, seed, L=None, repeats=1):
    """`repeats` > 1: the analytic solution after repeats·dt against `repeats` sub-steps of dt made by `RepeatedStepper`
    (n calls with dt = one call with n·dt), with a velocity of non-zero mean (the mean height drifts linearly)"""
    import jax.numpy as jnp
    import exponax as ex
    rng = np.random.default_rng(seed)
    L0, c = float(rng.uniform(1, 6)), float(rng.uniform(0.3, 2))
    L = L0 if L is None else float(L)    # also domains longer than 2π
    st = ex.stepper.Wave(D, L, N, dt, speed_of_sound=c)
    modes_h = _mode_state(rng, D, N, 2)
    modes_v = _mode_state(rng, D, N, 2)
    if repeats > 1:
        st = ex.RepeatedStepper(st, repeats)
        modes_v[0] = ([0] * D, 0.7 + abs(modes_v[0][1]), 0.0)     # mean velocity
        modes_h[0] = ([0] * D, modes_h[0][1], 0.0)                # mean height
        dt = dt * repeats
    x = np.stack(np.meshgrid(*[np.arange(N) * L / N] * D, indexing="ij"))

    def field(modes, fh, fv):
        u = np.zeros((N,) * D)
        return u
    h0 = np.zeros((N,) * D)
    v0 = np.zeros((N,) * D)
    h1 = np.zeros((N,) * D)
    v1 = np.zeros((N,) * D)
    for (k, a, ph), (k2, b, ph2) in zip(modes_h, modes_v):
        for kk, amp_h, amp_v, p in ((k, a, 0.0, ph), (k2, 0.0, b, ph2)):
            om = c * 2 * np.pi / L * np.sqrt(sum(q * q for q in kk))
            arg = 2 * np.pi / L * np.tensordot(np.asarray(kk, dtype=float), x, axes=1) + p
            h0 += amp_h * np.cos(arg)
            v0 += amp_v * np.cos(arg)
            if om == 0:
                h1 += (amp_h + dt * amp_v) * np.cos(arg)
                v1 += amp_v * np.cos(arg)
            else:
                h1 += (np.cos(om * dt) * amp_h + np.sin(om * dt) / om * amp_v) * np.cos(arg)
                v1 += (-om * np.sin(om * dt) * amp_h + np.cos(om * dt) * amp_v) * np.cos(arg)
    got = np.asarray(st(jnp.asarray(np.stack([h0, v0]))))
    want = np.stack([h1, v1])
    sc = max(float(np.max(np.abs(want))), 1e-12)
    err = float(np.max(np.abs(got - want)))
    zmax = abs(c * 2 * np.pi / L * np.sqrt(D) * (N // 2) * dt)
    return {"ok": bool(err <= (1e-9 + 1e-14 * zmax) * sc), "err": err, "scale": sc, "L": L, "c": c, "rounding_allowance": float(1e-14 * zmax * sc)}


def oracle(ctx, deep):
    fails = []
    names = S.LINEAR
    cases = [(1, 12), (2, 7), (3, 5)] if not deep else [(1, 8), (1, 9), (1, 13), (2, 6), (2, 7), (3, 4), (3, 5)]
    for name in names:
        for (D, N) in cases:
            # every combination of the class's boolean options and argument forms (a spatially-mixing flag that has no
            # effect, a matrix form read wrongly …) — all of them for D >= 2, where they differ
            combos = option_combos(name, D, N, ctx.seed + 11) if D >= 2 else [None]
            hit = False
            for forced in combos:
                for dt in ([1.0, 1e3] if not deep else DTS):
                    r = probe_exact(name, D, N, dt, ctx.seed + 11, forced)
                    ctx.count(("oracle_exact", name, D, N, dt, repr(forced)))
                    if not r["ok"]:
                        fails.append({"key": f"C01:exact:{name}", "what": f"{name} (D={D}, N={N}, dt={r.get('dt')}) differs from the analytic solution of the documented PDE: {r}"[:600],
                                      "probe": "exact", "args": {"name": name, "D": D, "N": N, "dt": dt, "seed": ctx.seed + 11, "forced": forced}, "observed": r})
                        hit = True
                        break
                if hit:
                    break
    for (D, N) in cases:
        for dt, L in ((0.5, None), (100.0, None), (-0.3, None), (0.5, 20.0), (3.0, 50.0)):
            r = probe_wave(D, N, dt, ctx.seed, L)
            ctx.count(("oracle_wave", D, N, dt, L))
            if not r["ok"]:
                fails.append({"key": "C01:exact:Wave", "what": f"Wave (D={D}, N={N}, dt={dt}, L={L if L else 'random in (1,6)'}) differs from the analytic solution: {r}",
                              "probe": "wave", "args": {"D": D, "N": N, "dt": dt, "seed": ctx.seed, "L": L}, "observed": r})
        for dt, n in ((0.5, 2), (0.13, 5)):
            r = probe_wave(D, N, dt, ctx.seed, None, n)
            ctx.count(("oracle_wave_repeated", D, N, dt, n))
            if not r["ok"]:
                fails.append({"key": "C01:semigroup:Wave", "what": f"Wave (D={D}, N={N}): {n} sub-steps of dt={dt} (RepeatedStepper) differ from the analytic solution after {n}*dt, mean velocity non-zero: {r}",
                              "probe": "wave", "args": {"D": D, "N": N, "dt": dt, "seed": ctx.seed, "L": None, "repeats": n}, "observed": r})
    seen, out = set(), []
    for f in fails:
        if f["key"] not in seen:
            seen.add(f["key"])
            out.append(f)
    return out


def replay(probe, args):
    return {"exact": probe_exact, "wave": probe_wave}[probe](**args)
