"""C18 — initial-condition generators honour their documented contract."""
from __future__ import annotations

import numpy as np

from . import util as U


def gens(D):
    from exponax import ic
    g = {
        "WhiteNoise": lambda **kw: ic.WhiteNoise(D),
        "RandomTruncatedFourierSeries": lambda **kw: ic.RandomTruncatedFourierSeries(D, **kw),
        "GaussianRandomField": lambda **kw: ic.GaussianRandomField(D, **kw),
        "DiffusedNoise": lambda **kw: ic.DiffusedNoise(D, **kw),
        "RandomDiscontinuities": lambda **kw: ic.RandomDiscontinuities(D, **kw),
        "RandomGaussianBlobs": lambda **kw: ic.RandomGaussianBlobs(D, **kw),
    }
    if D == 1:
        g["RandomSineWaves1d"] = lambda **kw: ic.RandomSineWaves1d(1, **kw)
    return g


def correspondence(ctx):
    import jax
    import jax.numpy as jnp
    import jax.random as jr
    from exponax import ic
    from exponax.ic._base_ic import normalize_ic
    d = ctx.driver
    rng = np.random.default_rng(ctx.seed)
    # normalize_ic for every legal option combination
    for t in range(6 if ctx.tier == "quick" else 30):
        shape = [(9,), (4, 5), (3, 3, 4)][t % 3]
        u = rng.normal(size=(1,) + shape) + rng.normal()
        for z in (0, 1):
            for sd in (0, 1):
                for mx in (0, 1):
                    if (sd and mx) or (sd and not z):
                        continue
                    impl = np.asarray(normalize_ic(jnp.asarray(u), zero_mean=bool(z), std_one=bool(sd), max_one=bool(mx))).ravel()
                    model = d.ask(f"normalize {z} {sd} {mx} {u.size} {U.ftoks(u)}")
                    ctx.count(("normalize", z, sd, mx, len(shape)), True)
                    ctx.compare("normalize_ic vs IC.normalizeIc", impl, model, cell=("normalize", z, sd, mx))
    # clamping wrapper on top of a generator
    for D in (1, 2, 1, 2, 1):
        # sign-changing, strictly positive and strictly negative inner draws
        base = ic.RandomTruncatedFourierSeries(D, cutoff=3, **[{}, {"offset_range": (3.0, 4.0)}, {"offset_range": (-5.0, -4.0)}][int(rng.integers(0, 3))])
        for lim in [(0.0, 1.0), (-2.0, 3.5)]:
            key = jr.PRNGKey(int(rng.integers(0, 1000)))
            inner = np.asarray(base(10, key=key))
            out = np.asarray(ic.ClampingICGenerator(base, limits=lim)(10, key=key)).ravel()
            model = d.ask(f"clamp {U.ftok(lim[0])} {U.ftok(lim[1])} {inner.size} {U.ftoks(inner)}")
            ctx.count(("clamp", D, lim), True)
            ctx.compare("ClampingICGenerator vs IC.clamp", out, model, cell=("clamp", D))
    # truncated Fourier series: replicate the draws, compare the deterministic pipeline
    for D in (1, 2, 3):
        for N in ([8, 9] if D < 3 else [5, 6]):
            for cutoff in (2, 3):
                for off in ((0.0, 0.0), (1.5, 1.5 + 1e-12)):
                    key = jr.PRNGKey(int(rng.integers(0, 1000)))
                    g = ic.RandomTruncatedFourierSeries(D, cutoff=cutoff, offset_range=off)
                    out = np.asarray(g(N, key=key))
                    nk, ok_ = jr.split(key)
                    noise = np.asarray(ic.WhiteNoise(D)(N, key=nk))
                    offset = float(jr.uniform(ok_, shape=(1,), minval=off[0], maxval=off[1])[0])
                    model = np.asarray(d.ask(f"trunc {D} {N} {cutoff} {U.ftok(offset)} {U.ftoks(noise)}"))
                    if off == (0.0, 0.0):
                        model = np.asarray(d.ask(f"normalize 1 0 0 {model.size} {U.ftoks(model)}"))
                    ctx.count(("trunc", D, N % 2, cutoff, off[0] != 0), True)
                    ctx.compare("RandomTruncatedFourierSeries vs IC.truncatedSeries", out.ravel(), model, cell=("trunc", D, N, cutoff))
    ctx.sample({"generators": list(gens(1).keys()) + ["ClampingICGenerator", "ScaledICGenerator", "RandomMultiChannelICGenerator"]})


def probe_contract(name, D, N, seed):
    import jax.numpy as jnp
    import jax.random as jr
    from exponax import ic
    from exponax import spectral as sp
    import exponax as ex
    key = jr.PRNGKey(seed)
    res = {}
    G = gens(D)
    g = G[name]()
    u = np.asarray(g(N, key=key))
    res["shape"] = list(u.shape)
    ok = u.shape == (1,) + (N,) * D and bool(np.all(np.isfinite(u)))
    u2 = np.asarray(g(N, key=key))
    ok = ok and bool(np.array_equal(u, u2))
    res["deterministic"] = bool(np.array_equal(u, u2))
    if name not in ("WhiteNoise",):
        # normalisation options
        try:
            zkw = {"zero_mean": True} if name not in ("RandomTruncatedFourierSeries", "RandomSineWaves1d") else {}
            a = np.asarray(G[name](**zkw, std_one=True)(N, key=key))
            res["std_one"] = [float(a.mean()), float(a.std())]
            ok = ok and abs(a.mean()) < 1e-10 and abs(a.std() - 1) < 1e-10
            b = np.asarray(G[name](**zkw, max_one=True)(N, key=key))
            res["max_one"] = float(np.max(np.abs(b)))
            ok = ok and abs(np.max(np.abs(b)) - 1) < 1e-10
        except TypeError:
            pass
    if name in ("RandomSineWaves1d", "RandomTruncatedFourierSeries"):
        # the options must hold TOGETHER with a non-zero mean offset: unit maximum / unit std refer to the returned field
        for okw, label in (({"max_one": True}, "max_one+offset"), ({"std_one": True}, "std_one+offset")):
            try:
                gg = G[name](offset_range=(0.5, 1.5), **okw)
            except (TypeError, ValueError):
                continue      # documented as an invalid combination for this generator
            w = np.asarray(gg(N, key=key))
            if "max_one" in okw:
                res[label] = float(np.max(np.abs(w)))
                ok = ok and abs(res[label] - 1) < 1e-10
            else:
                res[label] = float(w.std())
                ok = ok and abs(res[label] - 1) < 1e-10
            if hasattr(gg, "gen_ic_fun") and name == "RandomSineWaves1d":
                grid = ex.make_grid(D, gg.domain_extent, N)
                wf = np.asarray(gg.gen_ic_fun(key=key)(grid))
                res[label + ":function_form"] = float(np.max(np.abs(wf - w)))
                ok = ok and res[label + ":function_form"] < 1e-12
    if name == "RandomTruncatedFourierSeries":
        off = 2.25
        c = np.asarray(ic.RandomTruncatedFourierSeries(D, cutoff=3, offset_range=(off, off + 1e-12))(N, key=key))
        res["offset_mean"] = float(c.mean())
        ok = ok and abs(c.mean() - off) < 1e-9
        ch = np.asarray(sp.fft(jnp.asarray(u)))[0]
        wn = np.asarray(sp.build_wavenumbers(D, N))
        outside = np.max(np.abs(wn), axis=0) > 5   # default cutoff 5
        res["outside_band"] = float(np.max(np.abs(ch[outside]))) if outside.any() else 0.0
        ok = ok and res["outside_band"] < 1e-9
    if name == "GaussianRandomField":
        # power-law shaping of the white-noise spectrum (same draw)
        noise = np.asarray(ic.WhiteNoise(D)(N, key=key))
        gg = ic.GaussianRandomField(D, powerlaw_exponent=3.0, zero_mean=False)
        v = np.asarray(gg(N, key=key))
        nh = np.asarray(sp.fft(jnp.asarray(noise)))[0]
        vh = np.asarray(sp.fft(jnp.asarray(v)))[0]
        k = 2 * np.pi * np.sqrt((np.asarray(sp.build_wavenumbers(D, N)) ** 2).sum(axis=0))
        amp = np.where(k > 0, k ** (-1.5), 1.0)
        # compare away from the columns the c2r transform symmetrises
        want = np.asarray(sp.fft(sp.ifft(jnp.asarray((nh * amp)[None]), num_spatial_dims=D, num_points=N)))[0]
        res["powerlaw"] = float(np.max(np.abs(vh - want)))
        ok = ok and res["powerlaw"] < 1e-9 * (np.max(np.abs(want)) + 1)
    if name in ("RandomDiscontinuities", "RandomGaussianBlobs", "RandomSineWaves1d"):
        f = g.gen_ic_fun(key=key)
        grid = ex.make_grid(D, g.domain_extent, N)
        w = np.asarray(f(grid))
        res["function_form"] = float(np.max(np.abs(w - u))) if w.shape == u.shape else "shape " + str(w.shape)
        ok = ok and w.shape == u.shape and float(np.max(np.abs(w - u))) < 1e-12
    res["ok"] = bool(ok)
    return res


def probe_wrappers(D, N, seed):
    import jax.random as jr
    from exponax import ic
    key = jr.PRNGKey(seed)
    base = ic.RandomTruncatedFourierSeries(D, cutoff=3)
    u = np.asarray(base(N, key=key))
    res = {}
    c = np.asarray(ic.ClampingICGenerator(base, limits=(-1.5, 4.0))(N, key=key))
    res["clamp"] = [float(c.min()), float(c.max())]
    ok = abs(c.min() + 1.5) < 1e-12 and abs(c.max() - 4.0) < 1e-12 and c.shape == u.shape
    # ... whatever the sign of the inner draw: strictly positive (offset series, Gaussian blobs, a nested clamp with a
    # positive lower limit), strictly negative, scaled
    inners = {"offset+": ic.RandomTruncatedFourierSeries(D, cutoff=3, offset_range=(3.0, 4.0)),
              "offset-": ic.RandomTruncatedFourierSeries(D, cutoff=2, offset_range=(-6.0, -5.0)),
              "blobs": ic.RandomGaussianBlobs(D, num_blobs=2),
              "nested": ic.ClampingICGenerator(base, limits=(0.2, 0.8)),
              "scaled-nested": ic.ScaledICGenerator(ic.ClampingICGenerator(base, limits=(0.5, 1.0)), scale=-3.0)}
    for lab, g in inners.items():
        for lim in ((0.0, 1.0), (-1.5, 0.5), (0.2, 0.8)):
            cc = np.asarray(ic.ClampingICGenerator(g, limits=lim)(N, key=key))
            e = max(abs(float(cc.min()) - lim[0]), abs(float(cc.max()) - lim[1]))
            res[f"clamp[{lab}]{lim}"] = e
            ok = ok and e < 1e-12 and cc.shape == (1,) + (N,) * D
    s = np.asarray(ic.ScaledICGenerator(base, scale=2.5)(N, key=key))
    res["scaled"] = float(np.max(np.abs(s - 2.5 * u)))
    ok = ok and res["scaled"] < 1e-12
    m = np.asarray(ic.RandomMultiChannelICGenerator((base, ic.GaussianRandomField(D), ic.ScaledICGenerator(base, 2.0)))(N, key=key))
    res["multi_shape"] = list(m.shape)
    ok = ok and m.shape == (3,) + (N,) * D
    # function form = sampled form for the WRAPPERS too (same key): a multi-channel generator of generators that offer
    # a function form, scaled ones among them (how the key is split over the channels is not part of the contract)
    import exponax as ex
    subs = [ic.RandomGaussianBlobs(D), ic.ScaledICGenerator(ic.RandomGaussianBlobs(D, one_complement=True), 1.7), ic.RandomDiscontinuities(D)]
    for C in (1, 2, 3):
        mg = ic.RandomMultiChannelICGenerator(tuple(subs[:C]))
        sampled = np.asarray(mg(N, key=key))
        fun = np.asarray(mg.gen_ic_fun(key=key)(ex.make_grid(D, 1.0, N)))
        e = float(np.max(np.abs(sampled - fun))) if sampled.shape == fun.shape else float("inf")
        res[f"multi_function_form_C{C}"] = e
        ok = ok and e < 1e-12
    # the normalisation options act on the field as a whole: zero mean removes the mean mode ONLY (every other Fourier
    # mode of the draw is untouched), unit std / unit max rescale by one global constant
    import jax.numpy as jnp
    from exponax.ic._base_ic import normalize_ic   # noqa: PLC0415  (public behaviour of every generator's options)
    rng = np.random.default_rng(seed)
    w = rng.normal(size=(1,) + (N,) * D) + 0.7
    z = np.asarray(normalize_ic(jnp.asarray(w), zero_mean=True, std_one=False, max_one=False))
    res["zero_mean_only_mean_mode"] = float(np.max(np.abs(z - (w - w.mean()))))
    ok = ok and res["zero_mean_only_mean_mode"] < 1e-12
    z = np.asarray(normalize_ic(jnp.asarray(w), zero_mean=True, std_one=True, max_one=False))
    res["std_one_global"] = float(np.max(np.abs(z - (w - w.mean()) / w.std())))
    ok = ok and res["std_one_global"] < 1e-12
    z = np.asarray(normalize_ic(jnp.asarray(w), zero_mean=False, std_one=False, max_one=True))
    res["max_one_global"] = float(np.max(np.abs(z - w / np.max(np.abs(w)))))
    ok = ok and res["max_one_global"] < 1e-12
    # through a generator: the zero-mean draw keeps every non-mean mode of the un-normalised draw
    from exponax import spectral as sp
    g0 = np.asarray(ic.GaussianRandomField(D, powerlaw_exponent=2.5, zero_mean=False)(N, key=key))
    g1 = np.asarray(ic.GaussianRandomField(D, powerlaw_exponent=2.5, zero_mean=True)(N, key=key))
    h0 = np.asarray(sp.fft(jnp.asarray(g0)))[0].ravel()
    h1 = np.asarray(sp.fft(jnp.asarray(g1)))[0].ravel()
    res["generator_zero_mean_modes"] = float(np.max(np.abs(h1[1:] - h0[1:]))) / (float(np.max(np.abs(h0))) + 1e-300)
    ok = ok and res["generator_zero_mean_modes"] < 1e-10 and abs(h1[0]) < 1e-9 * (float(np.max(np.abs(h0))) + 1)
    # the same for DiffusedNoise; and with zero_mean=False the draw is NOT centred: diffusion keeps the mean mode, so its
    # mean is the mean of the underlying white-noise draw (also together with max_one)
    d0 = np.asarray(ic.DiffusedNoise(D, zero_mean=False)(N, key=key))
    d1 = np.asarray(ic.DiffusedNoise(D, zero_mean=True)(N, key=key))
    e0 = np.asarray(sp.fft(jnp.asarray(d0)))[0].ravel()
    e1 = np.asarray(sp.fft(jnp.asarray(d1)))[0].ravel()
    res["diffused_zero_mean_modes"] = float(np.max(np.abs(e1[1:] - e0[1:]))) / (float(np.max(np.abs(e0))) + 1e-300)
    # (how the key reaches the noise is not part of the contract: only that an un-centred draw has a generic, non-zero
    # mean — for N^D independent normals |mean| ~ N^(-D/2) — and that centring removes exactly it)
    res["diffused_uncentred_mean"] = 0.0 if abs(float(d0.mean())) > 1e-7 * float(np.max(np.abs(d0))) else 1.0
    res["diffused_centred_is_uncentred_minus_mean"] = float(np.max(np.abs(d1 - (d0 - d0.mean()))))
    dm = np.asarray(ic.DiffusedNoise(D, zero_mean=False, max_one=True)(N, key=key))
    res["diffused_uncentred_max_one"] = float(np.max(np.abs(dm - d0 / np.max(np.abs(d0)))))
    ok = ok and res["diffused_zero_mean_modes"] < 1e-10 and abs(e1[0]) < 1e-9 * (float(np.max(np.abs(e0))) + 1) \
        and res["diffused_uncentred_mean"] < 1e-12 and res["diffused_uncentred_max_one"] < 1e-12 and res["diffused_centred_is_uncentred_minus_mean"] < 1e-12
    res["ok"] = bool(ok)
    return res


def probe_sine_coarse(N, seed):
    """unit standard deviation / unit maximum of the sine-wave generators where the sampled sum does NOT have zero mean:
    grids with N <= cutoff (the wavenumber N aliases onto the constant), non-integer wavenumbers; also through a scaling
    wrapper.  "unit standard deviation" is a statement about the returned array, whatever its mean is"""
    import jax.random as jr
    from exponax import ic
    key = jr.PRNGKey(seed)
    res = {}
    a = np.asarray(ic.RandomSineWaves1d(1, cutoff=5, std_one=True)(N, key=key))
    res["random_std"] = abs(float(a.std()) - 1.0)
    b = np.asarray(ic.RandomSineWaves1d(1, cutoff=5, max_one=True)(N, key=key))
    res["random_max"] = abs(float(np.max(np.abs(b))) - 1.0)
    x = np.arange(max(N, 8)) / max(N, 8) * 3.0
    g = ic.SineWaves1d(3.0, (1.0, 0.4), (0.5, 2.0), (0.3, 1.1), std_one=True)
    c = np.asarray(g(x[None]))
    res["noninteger_std"] = abs(float(c.std()) - 1.0)
    g2 = ic.SineWaves1d(3.0, (1.0, 0.4), (0.5, 2.0), (0.3, 1.1), max_one=True)
    res["noninteger_max"] = abs(float(np.max(np.abs(np.asarray(g2(x[None]))))) - 1.0)
    sc = np.asarray(ic.ScaledICGenerator(ic.RandomSineWaves1d(1, cutoff=5, std_one=True), 2.5)(N, key=key))
    res["scaled_std"] = abs(float(sc.std()) - 2.5)
    bad = {k: v for k, v in res.items() if not v < 1e-10}
    return {"ok": not bad, "bad": bad, "all": res}


def probe_ic_set(D, N, seed):
    """`build_ic_set` = the key-threading loop of the regenerated `Gen.Base.build_ic_set` (bit for bit): sample i is the
    generator at the second half of the split of the key carried after i samples; S samples with the single-draw shape;
    a shorter set is a prefix of a longer one; the same key gives the same set"""
    import jax.random as jr
    import exponax as ex
    from exponax import ic
    res, ok = {}, True
    for gname, g in [("trunc", ic.RandomTruncatedFourierSeries(D, cutoff=3, offset_range=(0.5, 1.5))),
                     ("grf", ic.GaussianRandomField(D, powerlaw_exponent=2.5)),
                     ("multi", ic.RandomMultiChannelICGenerator([ic.RandomTruncatedFourierSeries(D, cutoff=2), ic.DiffusedNoise(D)]))]:
        key = jr.PRNGKey(seed + 11)
        S = 4
        got = np.asarray(ex.build_ic_set(g, num_points=N, num_samples=S, key=key))
        k, want = key, []
        for _ in range(S):
            k, sub = jr.split(k)
            want.append(np.asarray(g(N, key=sub)))
        want = np.stack(want)
        res[gname + "_shape"] = list(got.shape)
        ok = ok and got.shape == want.shape and got.shape[0] == S and got.shape[2:] == (N,) * D
        d = float(np.max(np.abs(got - want))) if got.shape == want.shape else float("inf")
        res[gname + "_vs_loop"] = d
        ok = ok and d <= 1e-13 * (float(np.max(np.abs(want))) + 1)
        shorter = np.asarray(ex.build_ic_set(g, num_points=N, num_samples=2, key=key))
        dp = float(np.max(np.abs(shorter - got[:2]))) if shorter.shape == got[:2].shape else float("inf")
        res[gname + "_prefix"] = dp
        again = np.asarray(ex.build_ic_set(g, num_points=N, num_samples=S, key=key))
        res[gname + "_deterministic"] = float(np.max(np.abs(again - got)))
        distinct = float(np.max(np.abs(got[0] - got[1])))
        res[gname + "_distinct"] = distinct
        ok = ok and dp <= 1e-13 * (float(np.max(np.abs(want))) + 1) and res[gname + "_deterministic"] == 0.0 and distinct > 0 \
            and bool(np.all(np.isfinite(got)))
    res["ok"] = bool(ok)
    return res


def oracle(ctx, deep):
    fails = []
    for N in (3, 4, 5) + ((2, 6, 7) if deep else ()):
        try:
            r = probe_sine_coarse(N, ctx.seed)
        except Exception as e:  # noqa: BLE001
            r = {"ok": False, "bad": {"exception": f"{type(e).__name__}: {str(e)[:200]}"}}
        ctx.count(("oracle_sine_coarse", N))
        if not r["ok"]:
            fails.append({"key": "C18:sine-waves:non-zero-mean", "what": f"sine-wave generator on a grid / with wavenumbers where the sampled sum has a non-zero mean (N={N}): unit std / unit maximum not realised: {r['bad']}",
                          "probe": "sine_coarse", "args": {"N": N, "seed": ctx.seed}, "observed": r})
    for D in (1, 2) + ((3,) if deep else ()):
        try:
            r = probe_ic_set(D, {1: 16, 2: 9, 3: 6}[D], ctx.seed)
        except Exception as e:  # noqa: BLE001
            r = {"ok": False, "exception": f"{type(e).__name__}: {str(e)[:200]}"}
        ctx.count(("oracle_ic_set", D))
        if not r["ok"]:
            fails.append({"key": f"C18:build_ic_set:D{D}", "what": f"build_ic_set (D={D}) is not the key-threading loop over the generator: {r}"[:500],
                          "probe": "ic_set", "args": {"D": D, "N": {1: 16, 2: 9, 3: 6}[D], "seed": ctx.seed}, "observed": r})
    for D in (1, 2, 3):
        N = {1: 16, 2: 12, 3: 12}[D]
        for name in gens(D):
            for seed in ([ctx.seed] if not deep else [ctx.seed, ctx.seed + 1, ctx.seed + 2]):
                for NN in ([N] if not deep else [N, N + 1]):
                    try:
                        r = probe_contract(name, D, NN, seed)
                    except Exception as e:  # noqa: BLE001
                        r = {"ok": False, "exception": f"{type(e).__name__}: {str(e)[:200]}"}
                    ctx.count(("oracle_contract", name, D, NN, seed))
                    if not r["ok"]:
                        fails.append({"key": f"C18:{name}:D{D}", "what": f"ic.{name} (D={D}, N={NN}) breaks its contract: {r}"[:500],
                                      "probe": "contract", "args": {"name": name, "D": D, "N": NN, "seed": seed}, "observed": r})
        r = probe_wrappers(D, N, ctx.seed)
        if not r["ok"]:
            fails.append({"key": f"C18:wrappers:D{D}", "what": f"ic wrappers (D={D}): {r}", "probe": "wrappers",
                          "args": {"D": D, "N": N, "seed": ctx.seed}, "observed": r})
    seen, out = set(), []
    for f in fails:
        if f["key"] not in seen:
            seen.add(f["key"])
            out.append(f)
    return out


def replay(probe, args):
    return {"contract": probe_contract, "wrappers": probe_wrappers, "ic_set": probe_ic_set, "sine_coarse": probe_sine_coarse}[probe](**args)
