"""C10 — incompressibility is enforced and preserved."""
from __future__ import annotations

import numpy as np

from . import stepcorr
from . import steppers as S
from . import util as U


def spectral_divergence(u, L=1.0):
    """max |Σ_d i k_d û_d| over the stored modes, relative to max |û|·|k|"""
    import jax.numpy as jnp
    from exponax import spectral as sp
    D = u.shape[0]
    N = u.shape[-1]
    uh = np.asarray(sp.fft(jnp.asarray(u)))
    k = np.asarray(sp.build_wavenumbers(D, N))
    div = (1j * 2 * np.pi / L * k * uh).sum(axis=0)
    scale = float(np.max(np.abs(uh))) * 2 * np.pi / L * (N / 2) + 1e-300
    return float(np.max(np.abs(div))) / scale


def nyquist_free(rng, D, N):
    """a smooth random vector field with every Nyquist wavenumber removed (even N: any component equal to ±N/2) — the
    property's hypothesis for the physical-space routines; on small even grids a 'smooth' state still reaches N/2"""
    u = S.random_state(rng, D, D, N, "smooth")
    if N % 2 == 0:
        k = np.fft.fftfreq(N, 1 / N)
        keep = np.ones((N,) * D, dtype=bool)
        for d in range(D):
            sh = [1] * D
            sh[d] = N
            keep &= (np.abs(k).reshape(sh) != N // 2)
        u = np.stack([np.real(np.fft.ifftn(np.fft.fftn(u[c]) * keep)) for c in range(D)])
    return u


def correspondence(ctx):
    import jax.numpy as jnp
    from exponax import nonlin_fun as nf
    from exponax import spectral as sp
    rng = np.random.default_rng(ctx.seed)
    d = ctx.driver
    sizes = {2: [4, 5, 6, 7], 3: [4, 5]} if ctx.tier == "quick" else {2: list(range(3, 13)), 3: [3, 4, 5, 6, 7]}
    for D in (2, 3):
        for N in sizes[D]:
            L = float(rng.uniform(0.5, 7))
            s = 2 * np.pi / L
            dop = sp.build_derivative_operator(D, L, N)
            M = int(np.prod(sp.wavenumber_shape(D, N)))
            uh = rng.normal(size=(D, M)) + 1j * rng.normal(size=(D, M))
            ler = nf.Leray(D, N, derivative_operator=dop)
            out = np.asarray(ler(jnp.asarray(uh.reshape((D,) + sp.wavenumber_shape(D, N))))).reshape(D, M)
            model = d.ask_complex(f"nonlin {D} {N} {U.ftok(s)} 0 0 {D} leray {U.cctoks(uh)}")
            ctx.count(("leray", D, N), True)
            ctx.compare("Leray.__call__ vs Nonlin.leray", out.ravel(), model, cell=("leray", D, N))
            # make_incompressible (physical space, L-independent) vs rfftn -> leray -> irfftn of the model
            u = rng.normal(size=(D,) + (N,) * D)
            mi = np.asarray(sp.make_incompressible(jnp.asarray(u)))
            uh_m = np.array([d.ask_complex(f"rfftn {D} {N} {U.ftoks(u[c])}") for c in range(D)])
            proj = np.asarray(d.ask_complex(f"nonlin {D} {N} {U.ftok(2 * np.pi)} 0 0 {D} leray {U.cctoks(uh_m)}")).reshape(D, M)
            back = np.array([d.ask(f"irfftn {D} {N} {U.cctoks(proj[c])}") for c in range(D)]).reshape(u.shape)
            ctx.count(("make_incompressible", D, N), True)
            ctx.compare("make_incompressible vs irfftn∘leray∘rfftn (model)", mi, back, cell=("make_incompressible", D, N))
            if D == 3:
                pc = nf.ProjectedConvection3d(D, N, derivative_operator=dop, dealiasing_fraction=2 / 3)
                o = np.asarray(pc(jnp.asarray(uh.reshape((3,) + sp.wavenumber_shape(D, N))))).reshape(3, M)
                model = d.ask_complex(f"nonlin {D} {N} {U.ftok(s)} 2 3 3 proj3d 0 {U.cctoks(uh)}")
                ctx.count(("proj3d", N), True)
                ctx.compare("ProjectedConvection3d vs Nonlin.projected3d", o.ravel(), model, cell=("proj3d", N))
    stepcorr.sweep(ctx, ["NavierStokesVelocity", "KolmogorovFlowVelocity"], orders_for=lambda nm: [1, 2, 3, 4],
                   trials=2 if ctx.tier == "quick" else 6, Ds=(3,))
    ctx.sample({"objects": ["Leray", "make_incompressible", "ProjectedConvection3d", "NavierStokesVelocity", "KolmogorovFlowVelocity"]})


def probe_projection(D, N, seed, amp=1.0):
    """`amp`: the projection is LINEAR, so every statement is relative to the size of the field — also for tiny fields"""
    import jax.numpy as jnp
    from exponax import nonlin_fun as nf
    from exponax import spectral as sp
    rng = np.random.default_rng(seed)
    u = nyquist_free(rng, D, N) * float(amp)
    L = 2.3
    dop = sp.build_derivative_operator(D, L, N)
    ler = nf.Leray(D, N, derivative_operator=dop)
    p1 = np.asarray(sp.make_incompressible(jnp.asarray(u)))
    p2 = np.asarray(sp.ifft(ler(sp.fft(jnp.asarray(u))), num_spatial_dims=D, num_points=N))
    sc = float(np.max(np.abs(u)))
    res = {
        "div_make_incompressible": spectral_divergence(p1),
        "div_leray": spectral_divergence(p2),
        "agree": float(np.max(np.abs(p1 - p2))) / sc,
        "idempotent": float(np.max(np.abs(np.asarray(sp.make_incompressible(jnp.asarray(p1))) - p1))) / sc,
    }
    # indexing="xy" (the numpy.meshgrid convention: channel 0 <-> axis 1, channel 1 <-> axis 0, the others unchanged):
    # the divergence in that convention, computed with plain numpy FFTs, vanishes, and the result is the "ij" projection
    # of the field with channels 0 and 1 exchanged
    ax = [1, 0] + list(range(2, D))
    pxy = np.asarray(sp.make_incompressible(jnp.asarray(u), indexing="xy"))
    kk = np.fft.fftfreq(N, 1 / N)
    div = np.zeros((N,) * D, dtype=complex)
    for c in range(D):
        sh = [1] * D
        sh[ax[c]] = N
        div = div + 1j * kk.reshape(sh) * np.fft.fftn(pxy[c])
    res["div_xy"] = float(np.max(np.abs(div))) / (float(np.max(np.abs(np.fft.fftn(u[0])))) * (N / 2) + 1e-300)
    sw = u[ax]
    res["xy_is_swapped_ij"] = float(np.max(np.abs(pxy[ax] - np.asarray(sp.make_incompressible(jnp.asarray(sw)))))) / sc
    res["ok"] = all(v <= 1e-10 for v in res.values())
    return res


def probe_ns(name, order, N, steps, seed):
    import jax.numpy as jnp
    from exponax import spectral as sp
    rng = np.random.default_rng(seed)
    spec = S.registry()[name](rng, 3, N, order)
    st = spec.build()
    u = np.asarray(sp.make_incompressible(jnp.asarray(nyquist_free(rng, 3, N))))
    if N >= 9:
        # energy in every retained mode (a white-noise field, Nyquist components removed, then projected)
        w = rng.normal(size=(3,) + (N,) * 3)
        k = np.fft.fftfreq(N, 1 / N)
        keep = np.ones((N,) * 3, dtype=bool)
        for d in range(3):
            sh = [1, 1, 1]
            sh[d] = N
            keep &= (np.abs(k).reshape(sh) < N / 2)
        w = np.stack([np.real(np.fft.ifftn(np.fft.fftn(w[c]) * keep)) for c in range(3)])
        u = np.asarray(sp.make_incompressible(jnp.asarray(0.3 * w)))
    cur = jnp.asarray(u)
    worst = 0.0
    for _ in range(steps):
        cur = st(cur)
        worst = max(worst, spectral_divergence(np.asarray(cur), spec.L))
    fin = bool(np.all(np.isfinite(np.asarray(cur))))
    return {"ok": bool(worst <= 1e-10 and fin), "max_rel_divergence": worst, "finite": fin}


def probe_proj3d(N, seed, amp=1.0):
    import jax.numpy as jnp
    from exponax import nonlin_fun as nf
    from exponax import spectral as sp
    rng = np.random.default_rng(seed)
    L = 1.7
    dop = sp.build_derivative_operator(3, L, N)
    pc = nf.ProjectedConvection3d(3, N, derivative_operator=dop, dealiasing_fraction=2 / 3)
    u = rng.normal(size=(3, N, N, N)) * float(amp)   # every input, not only divergence-free ones; the term is quadratic
    out = np.asarray(pc(sp.fft(jnp.asarray(u))))
    k = np.asarray(sp.build_wavenumbers(3, N))
    div = (1j * 2 * np.pi / L * k * out).sum(axis=0)
    rel = float(np.max(np.abs(div))) / (float(np.max(np.abs(out))) * 2 * np.pi / L * N / 2 + 1e-300)
    return {"ok": rel <= 1e-10, "rel_divergence": rel}


def oracle(ctx, deep):
    fails = []
    for D, N in ([(2, 8), (2, 9), (3, 5), (3, 6)] if not deep else [(2, n) for n in range(4, 14)] + [(3, n) for n in range(4, 9)]):
        r = probe_projection(D, N, ctx.seed)
        ctx.count(("oracle_projection", D, N))
        if not r["ok"]:
            fails.append({"key": f"C10:projection:D{D}", "what": f"Leray / make_incompressible contract broken (D={D}, N={N}): {r}",
                          "probe": "projection", "args": {"D": D, "N": N, "seed": ctx.seed}, "observed": r})
    # small amplitudes (the statements are scale-free: a threshold on absolute sizes anywhere would show here)
    for D, N in [(2, 8), (3, 5)] + ([(2, 9), (3, 6)] if deep else []):
        for amp in (1e-6, 1e-10, 1e-13):
            r = probe_projection(D, N, ctx.seed, amp)
            ctx.count(("oracle_projection_amp", D, N, amp))
            if not r["ok"]:
                fails.append({"key": f"C10:projection-small:D{D}", "what": f"Leray / make_incompressible contract broken for a field of amplitude {amp:g} (D={D}, N={N}; all measures relative to the field): {r}",
                              "probe": "projection", "args": {"D": D, "N": N, "seed": ctx.seed, "amp": amp}, "observed": r})
    for amp in (1e-3, 1e-6):
        r = probe_proj3d(6, ctx.seed, amp)
        ctx.count(("oracle_proj3d_amp", amp))
        if not r["ok"]:
            fails.append({"key": "C10:proj3d-small", "what": f"ProjectedConvection3d output is not divergence-free for an input of amplitude {amp:g} (N=6; relative to the output): {r}",
                          "probe": "proj3d", "args": {"N": 6, "seed": ctx.seed, "amp": amp}, "observed": r})
    for N in ([5, 6] if not deep else [4, 5, 6, 7, 8]):
        r = probe_proj3d(N, ctx.seed)
        ctx.count(("oracle_proj3d", N))
        if not r["ok"]:
            fails.append({"key": "C10:proj3d", "what": f"ProjectedConvection3d output is not divergence-free (N={N}): {r}",
                          "probe": "proj3d", "args": {"N": N, "seed": ctx.seed}, "observed": r})
    # N = 12: the smallest even grid on which products of two retained modes (|k| <= 3 under the 2/3 rule) reach the
    # Nyquist plane N/2 = 6 — what the post-dealiasing of the nonlinear term has to remove
    for name in ("NavierStokesVelocity", "KolmogorovFlowVelocity"):
        for order, N in ([(2, 6), (4, 6), (2, 12), (3, 9)] if not deep else [(o, n) for o in (1, 2, 3, 4) for n in (6, 9, 12)]):
            steps = 5 if not deep else (20 if N == 6 else 5)
            r = probe_ns(name, order, N, steps, ctx.seed)
            ctx.count(("oracle_ns", name, order, N))
            if not r["ok"]:
                fails.append({"key": f"C10:preserve:{name}", "what": f"{name} order {order} (N={N}) does not keep the state divergence-free: {r}",
                              "probe": "ns", "args": {"name": name, "order": order, "N": N, "steps": steps, "seed": ctx.seed}, "observed": r})
    seen, out = set(), []
    for f in fails:
        if f["key"] not in seen:
            seen.add(f["key"])
            out.append(f)
    return out


def replay(probe, args):
    return {"projection": probe_projection, "ns": probe_ns, "proj3d": probe_proj3d}[probe](**args)
