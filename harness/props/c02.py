"""C02 — ETDRK-p is the Cox–Matthews scheme with exact φ coefficients."""
from __future__ import annotations

import numpy as np

from . import util as U

ORDERS = [1, 2, 3, 4]
NCOEF = {0: 0, 1: 1, 2: 2, 3: 5, 4: 6}


def z_cover(rng, tier):
    """dense cover of the z = λ·dt plane named in the property"""
    n = 6 if tier == "quick" else 40
    zs = [0.0, -1e-8, 1e-8, 1e-3, -1e-3, 20.0, -1.0, 1.0, -1e9, -1e15 if False else -1e6]
    zs += list(-np.logspace(-6, 9, n))                     # negative real axis
    zs += list(np.logspace(-6, np.log10(20.0), n))         # positive real up to 20
    zs += list(1j * np.concatenate([np.logspace(-4, 4, n), -np.logspace(-4, 4, n)]))  # imaginary axis
    ang = rng.uniform(np.pi / 2, 3 * np.pi / 2, 2 * n)     # left half plane rays
    rad = 10 ** rng.uniform(-4, 6, 2 * n)
    zs += list(rad * np.exp(1j * ang))
    zs += [0.3 + 0.4j, -0.9 + 0.2j, 1.5j, -2.0 + 0.1j]     # near / around the contour radius
    return np.array(zs, dtype=complex)


def impl_integrator(order, dt, lam, M, r, nonlin=None):
    import jax.numpy as jnp
    from exponax import etdrk
    L = jnp.asarray(lam, dtype=complex)[None, :]
    if order == 0:
        return etdrk.ETDRK0(dt, L)
    cls = getattr(etdrk, f"ETDRK{order}")
    return cls(dt, L, nonlin if nonlin is not None else (lambda v: 0 * v),
               num_circle_points=M, circle_radius=r)


def impl_coefs(integ, order):
    out = [np.asarray(integ._exp_term)[0]]
    if order >= 3:
        out.append(np.asarray(integ._half_exp_term)[0])
    for i in range(1, NCOEF[order] + 1):
        out.append(np.asarray(getattr(integ, f"_coef_{i}"))[0])
    return out


def correspondence(ctx):
    rng = np.random.default_rng(ctx.seed)
    d = ctx.driver
    zs = z_cover(rng, ctx.tier)
    configs = [(16, 1.0), (32, 2.0), (15, 1.0)] if ctx.tier == "quick" else [(16, 1.0), (32, 2.0), (16, 2.0), (64, 1.0), (8, 0.5), (15, 1.0), (33, 2.0)]
    dts = [0.1, 1.0] if ctx.tier == "quick" else [1e-3, 0.1, 1.0, 7.5]
    for order in [0] + ORDERS:
        for (M, r) in configs:
            for dt in dts:
                lam = zs / dt
                integ = impl_integrator(order, dt, lam, M, r)
                ic = impl_coefs(integ, order)
                model = [[] for _ in ic]
                for k, l in enumerate(lam):
                    row = d.ask_complex(f"etd_coefs {order} {M} {U.ftok(r)} {U.ftok(dt)} {U.ctoks(l)}")
                    for i in range(len(ic)):
                        model[i].append(row[i])
                for i in range(len(ic)):
                    cell = ("coef", order, i, M, r, dt)
                    ctx.count(cell, n=len(lam))
                    # per-entry comparison relative to the entry (values span 30 orders of magnitude)
                    a = np.asarray(ic[i], dtype=complex)
                    b = np.asarray(model[i], dtype=complex)
                    tol = 1e-9 * np.maximum(np.abs(a), np.abs(b)) + 1e-300
                    fin = np.isfinite(a) & np.isfinite(b)
                    bad = (~fin & ~((~np.isfinite(a)) & (~np.isfinite(b)))) | (fin & (np.abs(a - b) > tol))
                    ctx.traces += 1
                    if bad.any():
                        j = int(np.argmax(bad))
                        ctx.mismatch(f"ETDRK{order} stored array #{i} (0=_exp_term) vs Gen.Etdrk",
                                     {"z": complex(zs[j]), "dt": dt, "M": M, "r": r,
                                      "impl": complex(a[j]), "model": complex(b[j])})
                ctx.bump(f"order{order}")
    ctx.sample({"z_cover_size": int(len(zs)), "first": [complex(z) for z in zs[:5]]})

    # the BaseStepper glue as the translator read it (harness/translate_base.py → Generated/BaseStepperGen.lean) against
    # the objects the implementation builds: integrator class per order, unsupported orders, copied attributes, dx, and
    # the contour arguments reaching the integrator (its stored coefficients = those of a directly built ETDRK-p)
    import translate_base as TB
    try:
        TB.translate_base({})
        facts = dict(TB.LAST_FACTS)
    except Exception as e:  # noqa: BLE001
        facts = None
        ctx.mismatch("translate_base could not read exponax/_base_stepper.py", {"error": f"{type(e).__name__}: {e}"[:300]})
    if facts is not None:
        import exponax as ex
        import jax.numpy as jnp
        for order in range(0, 7):
            M, r = (16, 1.0) if order % 2 == 0 else (24, 1.5)
            kw = dict(order=order, num_circle_points=M, circle_radius=r)
            want_cls = facts["integrator_class"].get(order)
            try:
                st = ex.stepper.KuramotoSivashinskyConservative(1, 7.0, 10, 0.13, **kw)
                got_cls = type(st._integrator).__name__
            except NotImplementedError:
                st, got_cls = None, None
            ctx.count(("base_glue", "class", order))
            if got_cls != want_cls:
                ctx.mismatch("BaseStepper order dispatch vs Gen.Base.BaseStepper_init_integrator_class",
                             {"order": order, "impl": got_cls, "model": want_cls})
            if st is None:
                continue
            vals = {"num_spatial_dims": 1, "domain_extent": 7.0, "num_points": 10, "dt": 0.13, "num_channels": 1}
            for attr, par in facts["copies"].items():
                ctx.count(("base_glue", "copy", attr))
                if getattr(st, attr) != vals[par]:
                    ctx.mismatch("BaseStepper attribute copy vs Gen.Base.BaseStepper_init_copies", {"attr": attr, "impl": getattr(st, attr), "model": vals[par]})
            if "dx" in facts["attrs"] and abs(float(st.dx) - 0.7) > 1e-15:
                ctx.mismatch("BaseStepper.dx vs Gen.Base.BaseStepper_init_attr_dx", {"impl": float(st.dx), "model": 0.7})
            if order >= 1:
                dop = ex.spectral.build_derivative_operator(1, 7.0, 10)
                lin = st._build_linear_operator(dop)
                direct = getattr(ex.etdrk, want_cls)(0.13, lin, st._build_nonlinear_fun(dop), num_circle_points=M, circle_radius=r)
                for name in ["_exp_term", "_half_exp_term"] + [f"_coef_{i}" for i in range(1, 7)]:
                    if hasattr(direct, name):
                        ctx.count(("base_glue", "contour", order, name))
                        a_, b_ = np.asarray(getattr(st._integrator, name)), np.asarray(getattr(direct, name))
                        if a_.shape != b_.shape or not np.array_equal(a_, b_):
                            ctx.mismatch("stepper's stored ETDRK attribute vs the integrator built with the user's (dt, M, r)",
                                         {"order": order, "attr": name, "M": M, "r": r})
        ctx.sample({"base_glue_facts": {k: (v if not isinstance(v, dict) else {str(a): b for a, b in v.items()}) for k, v in facts.items()}})

    # stage formulas with a user-defined nonlinear callable N(v) = a v^2 + b v + c
    n = 7
    for order in [0] + ORDERS:
        for trial in range(3 if ctx.tier == "quick" else 12):
            lam = (rng.normal(size=n) * 3 - 1) + 1j * rng.normal(size=n) * (trial % 2)
            dt = float(10 ** rng.uniform(-2, 0))
            a, b, c = [complex(rng.normal(), rng.normal()) for _ in range(3)]
            u = rng.normal(size=n) + 1j * rng.normal(size=n)
            import jax.numpy as jnp
            nonlin = (lambda v: a * v * v + b * v + c)
            integ = impl_integrator(order, dt, lam, 16, 1.0, nonlin)
            out_impl = np.asarray(integ.step_fourier(jnp.asarray(u)[None, :]))[0]
            ic = impl_coefs(integ, order)
            toks = [f"etd_step {order} {n}"]
            for arr in ic:
                toks += [U.ctoks(x) for x in arr]
            toks += [U.ctoks(a), U.ctoks(b), U.ctoks(c)]
            toks += [U.ctoks(x) for x in u]
            out_model = d.ask_complex(" ".join(toks))
            ctx.count(("step", order, trial % 2), n=1)
            ctx.compare(f"ETDRK{order}.step_fourier vs Gen.Etdrk.E{order}step (user-defined nonlinearity)",
                        out_impl, out_model, cell=("step", order, trial))
    ctx.sample({"step_nonlinearity": "N(v) = a*v*v + b*v + c, random complex a,b,c, n=7 modes"})


# ----------------------------------------------------------------------------
# oracle: property-level probes on the real code
# ----------------------------------------------------------------------------
def phi_ref(z):
    """φ1, φ2, φ3 in extended precision (Taylor for small |z|, closed form otherwise)"""
    z = np.clongdouble(z)
    if abs(z) < 1.0:
        out = []
        for k in (1, 2, 3):
            term = np.clongdouble(1.0)
            fact = np.longdouble(1.0)
            for i in range(1, k + 1):
                fact *= i
            term = np.clongdouble(1.0) / fact
            s = np.clongdouble(0.0)
            for nn in range(0, 60):
                s += term
                term = term * z / (nn + k + 1)
            out.append(s)
        return out
    e = np.exp(z)
    p1 = (e - 1) / z
    p2 = (e - 1 - z) / z ** 2
    p3 = (e - 1 - z - z * z / 2) / z ** 3
    return [p1, p2, p3]


def expected_coefs(order, z):
    p1, p2, p3 = phi_ref(z)
    h1 = phi_ref(z / 2)[0] / 2
    if order == 1:
        return [p1]
    if order == 2:
        return [p1, p2]
    if order == 3:
        return [h1, p1, p1 - 3 * p2 + 4 * p3, 4 * p2 - 8 * p3, 4 * p3 - p2]
    return [h1, h1, h1, p1 - 3 * p2 + 4 * p3, p2 - 2 * p3, 4 * p3 - p2]


def probe_phi(order, z, dt=0.5, M=16, r=1.0):
    """stored coefficients / dt  vs  exact φ-combinations at z (contour of M points, radius r)"""
    integ = impl_integrator(order, dt, np.array([z / dt]), M, r)
    got = [complex(c[0]) / dt for c in impl_coefs(integ, order)[(2 if order >= 3 else 1):]]
    exp = [complex(x) for x in expected_coefs(order, z)]
    worst = 0.0
    for g, e in zip(got, exp):
        err = abs(g - e) / (abs(e) + 1e-12)
        worst = max(worst, err)
    e_ok = abs(complex(impl_coefs(integ, order)[0][0]) - complex(np.exp(np.clongdouble(z)))) <= 1e-9 * abs(np.exp(z.real if isinstance(z, complex) else z)) + 1e-300
    return {"ok": bool(worst <= 1e-7 and e_ok), "worst_rel_err": worst, "got": got, "expected": exp}


def probe_order(order):
    """measured convergence order on u' = λu + u² − ... stiff scalar system with complex λ"""
    import jax.numpy as jnp
    lam = np.array([-3.0 + 2.0j, -0.5 - 1.0j, 0.7j])
    u0 = np.array([0.4 + 0.1j, -0.3 + 0.2j, 0.2 - 0.1j])
    nonlin = (lambda v: 0.5 * v * v + 0.3 * jnp.roll(v, 1, axis=-1) - 0.1)
    T = 1.0

    def run(nsteps, o):
        integ = impl_integrator(o, T / nsteps, lam, 16, 1.0, nonlin)
        u = jnp.asarray(u0)[None, :]
        for _ in range(nsteps):
            u = integ.step_fourier(u)
        return np.asarray(u)[0]
    from scipy.integrate import solve_ivp
    rhs = lambda t, v: lam * v + 0.5 * v * v + 0.3 * np.roll(v, 1) - 0.1
    sol = solve_ivp(rhs, (0.0, T), u0.astype(complex), method="DOP853", rtol=1e-13, atol=1e-15)
    ref = sol.y[:, -1]
    e1 = np.max(np.abs(run(16, order) - ref))
    e2 = np.max(np.abs(run(32, order) - ref))
    rate = float(np.log2(e1 / e2))
    return {"ok": bool(rate > order - 0.35), "rate": rate, "e1": float(e1), "e2": float(e2)}


def probe_order0(order):
    """zero nonlinearity reduces every order to the linear propagation"""
    import jax.numpy as jnp
    lam = np.array([-2.0 + 1.0j, 0.3j, -1e4, 0.0])
    u = np.array([1.0 + 2.0j, -0.5j, 0.25, 3.0])
    integ = impl_integrator(order, 0.3, lam, 16, 1.0, lambda v: 0 * v)
    out = np.asarray(integ.step_fourier(jnp.asarray(u)[None, :]))[0]
    exp = np.exp(0.3 * lam) * u
    err = float(np.max(np.abs(out - exp)))
    return {"ok": bool(err <= 1e-12), "err": err}


def probe_step(order, z, dt=0.5):
    """one step of the implementation vs the Cox–Matthews scheme written out with independently computed φ functions
    (this also exercises the propagators exp(z), exp(z/2) as they are USED in the stages)"""
    import jax.numpy as jnp
    z = complex(z)
    if z.real > 20:
        return {"ok": True, "skipped": "growth"}
    Nf = lambda v: 0.5 * v * v + 0.3
    u = np.clongdouble(0.4 - 0.3j)
    integ = impl_integrator(order, dt, np.array([z / dt]), 16, 1.0, lambda v: 0.5 * v * v + 0.3)
    got = complex(np.asarray(integ.step_fourier(jnp.asarray([[complex(u)]])))[0, 0])
    p1, p2, p3 = phi_ref(z)
    h1 = phi_ref(z / 2)[0] / 2
    E, Eh = np.exp(np.clongdouble(z)), np.exp(np.clongdouble(z) / 2)
    if order == 1:
        want = E * u + dt * p1 * Nf(u)
    elif order == 2:
        a = E * u + dt * p1 * Nf(u)
        want = a + dt * p2 * (Nf(a) - Nf(u))
    elif order == 3:
        a = Eh * u + dt * h1 * Nf(u)
        b = E * u + dt * p1 * (2 * Nf(a) - Nf(u))
        want = E * u + dt * ((p1 - 3 * p2 + 4 * p3) * Nf(u) + (4 * p2 - 8 * p3) * Nf(a) + (4 * p3 - p2) * Nf(b))
    else:
        a = Eh * u + dt * h1 * Nf(u)
        b = Eh * u + dt * h1 * Nf(a)
        c = Eh * a + dt * h1 * (2 * Nf(b) - Nf(u))
        want = E * u + dt * ((p1 - 3 * p2 + 4 * p3) * Nf(u) + 2 * (p2 - 2 * p3) * (Nf(a) + Nf(b)) + (4 * p3 - p2) * Nf(c))
    want = complex(want)
    err = abs(got - want) / (abs(want) + 1e-12)
    return {"ok": bool(err <= 1e-7), "rel_err": float(err), "got": got, "expected": want}


def probe_stepper_order(name, D, N, order, seed):
    """a public stepper constructed with `order=p` takes the Cox–Matthews ETDRK-p step (p = 0: pure linear propagation) of
    ITS OWN linear operator and nonlinear term, with exact φ functions — for every family (specific, general, normalized,
    difficulty): the requested order must reach the integrator"""
    import jax.numpy as jnp
    from exponax import spectral as sp
    from . import steppers as S
    rng = np.random.default_rng(seed)
    spec = S.registry()[name](rng, D, N, order)
    if spec is None:
        return {"ok": True, "skipped": "dimension"}
    st = spec.build()
    dop = sp.build_derivative_operator(D, st.domain_extent, N)
    lin = np.asarray(st._build_linear_operator(dop)).astype(complex)
    nl = st._build_nonlinear_fun(dop)
    dt = float(st.dt)
    u = S.random_state(rng, spec.C, D, N, "smooth")
    uh = np.asarray(sp.fft(jnp.asarray(u)))
    Nf = lambda v: np.asarray(nl(jnp.asarray(v)))   # noqa: E731
    z = dt * np.broadcast_to(lin, uh.shape)
    if float(np.max(z.real)) > 20:
        return {"ok": True, "skipped": "growth"}
    ph = np.vectorize(lambda w: tuple(complex(x) for x in phi_ref(w)), otypes=[complex, complex, complex])
    p1, p2, p3 = ph(z)
    h1 = ph(z / 2)[0] / 2
    E, Eh = np.exp(z), np.exp(z / 2)
    if order == 0:
        want = E * uh
    elif order == 1:
        want = E * uh + dt * p1 * Nf(uh)
    elif order == 2:
        a = E * uh + dt * p1 * Nf(uh)
        want = a + dt * p2 * (Nf(a) - Nf(uh))
    elif order == 3:
        a = Eh * uh + dt * h1 * Nf(uh)
        b = E * uh + dt * p1 * (2 * Nf(a) - Nf(uh))
        want = E * uh + dt * ((p1 - 3 * p2 + 4 * p3) * Nf(uh) + (4 * p2 - 8 * p3) * Nf(a) + (4 * p3 - p2) * Nf(b))
    else:
        a = Eh * uh + dt * h1 * Nf(uh)
        b = Eh * uh + dt * h1 * Nf(a)
        c = Eh * a + dt * h1 * (2 * Nf(b) - Nf(uh))
        want = E * uh + dt * ((p1 - 3 * p2 + 4 * p3) * Nf(uh) + 2 * (p2 - 2 * p3) * (Nf(a) + Nf(b)) + (4 * p3 - p2) * Nf(c))
    got = np.asarray(st.step_fourier(jnp.asarray(uh)))
    sc = float(np.max(np.abs(want))) + 1e-300
    err = float(np.max(np.abs(got - want))) / sc
    return {"ok": bool(err <= 1e-8), "rel_err": err, "requested_order": order, "kwargs": {k: str(v) for k, v in spec.kwargs.items()}}


PROBES = {"phi": probe_phi, "order": probe_order, "order0": probe_order0, "step": probe_step, "stepper_order": probe_stepper_order}


def oracle(ctx, deep):
    fails = []
    from . import steppers as S
    nonlinear = [n for n in S.registry().keys() if n not in S.LINEAR]
    fixed = ["Burgers", "NormalizedConvectionStepper", "DifficultyConvectionStepper", "GeneralNonlinearStepper", "NormalizedGradientNormStepper",
             "DifficultyPolynomialStepper", "KuramotoSivashinsky", "FisherKPP"]
    names = nonlinear if deep else [n for n in fixed if n in nonlinear] + [n for i, n in enumerate(nonlinear) if (i + ctx.seed) % 5 == 0]
    for i, name in enumerate(dict.fromkeys(names)):
        D = 2 if "Vorticity" in name else (3 if "Velocity" in name else 1)
        N = {1: 12, 2: 6, 3: 5}[D]
        for order in ([0, 1, 2, 3, 4] if deep or name in fixed else [(i + ctx.seed) % 5]):
            r = probe_stepper_order(name, D, N, order, ctx.seed + i)
            ctx.count(("oracle_stepper_order", name, order))
            if not r["ok"]:
                fails.append({"key": f"C02:stepper-order:{name}", "what": f"{name}(order={order}) does not take the Cox–Matthews ETDRK{order} step of its own operator and nonlinear term (rel err {r['rel_err']:.2e})",
                              "probe": "stepper_order", "args": {"name": name, "D": D, "N": N, "order": order, "seed": ctx.seed + i}, "observed": r})
                break
    zs = [0.0, -1.0, 2.5, -40.0, -1e6, 1.0j, -3.0j, 30.0j, -2.0 + 5.0j, -1e3 + 1e3j, 1e-5, 0.5j]
    if deep:
        rng = np.random.default_rng(ctx.seed + 1)
        zs += list(z_cover(rng, "quick"))
    for order in ORDERS:
        for z in zs:
            z = complex(z)
            if z.real > 20:
                continue
            r = probe_phi(order, z)
            ctx.count(("oracle_phi", order, z))
            if not r["ok"]:
                kind = "complex" if z.imag != 0 else "real"
                fails.append({"key": f"C02:phi:order{order}:{kind}-symbol",
                              "what": f"ETDRK{order} stored coefficient differs from the exact phi-combination at z={z} "
                                      f"(rel err {r['worst_rel_err']:.2e})",
                              "probe": "phi", "args": {"order": order, "z": [z.real, z.imag]}, "observed": r})
                break
        # non-default contours: the coefficients are the same phi-combinations whatever circle they are integrated over
        for (M, rad) in ((32, 2.0), (16, 0.5), (64, 1.0), (15, 1.0), (33, 1.0), (25, 2.0)):   # even and ODD node counts
            hit = False
            for z in (0.0, -1.0, -40.0, 1.0j, -3.0j, 30.0j, -2.0 + 5.0j, 1e-5, -1e3 + 1e3j):
                z = complex(z)
                r = probe_phi(order, z, 0.5, M, rad)
                ctx.count(("oracle_phi_contour", order, M, rad))
                if not r["ok"]:
                    fails.append({"key": f"C02:phi-contour:order{order}",
                                  "what": f"ETDRK{order}(num_circle_points={M}, circle_radius={rad}) stored coefficient differs from the exact phi-combination at z={z} "
                                          f"(rel err {r['worst_rel_err']:.2e})",
                                  "probe": "phi", "args": {"order": order, "z": [z.real, z.imag], "M": M, "r": rad}, "observed": r})
                    hit = True
                    break
            if hit:
                break
        for z in zs + [3.25j, -0.01 - 3.162j, -0.003 + 3.17j, 6.4j, -7.0j]:
            z = complex(z)
            r = probe_step(order, z)
            ctx.count(("oracle_step", order, z))
            if not r["ok"]:
                fails.append({"key": f"C02:step:order{order}",
                              "what": f"one ETDRK{order} step differs from the Cox–Matthews scheme with exact phi functions at z={z} (rel err {r['rel_err']:.2e})",
                              "probe": "step", "args": {"order": order, "z": [z.real, z.imag]}, "observed": r})
                break
        r = probe_order0(order)
        if not r["ok"]:
            fails.append({"key": f"C02:order0:order{order}", "what": f"ETDRK{order} with zero nonlinearity is not the propagator",
                          "probe": "order0", "args": {"order": order}, "observed": r})
        if True:
            r = probe_order(order)
            ctx.count(("oracle_order", order))
            if not r["ok"]:
                fails.append({"key": f"C02:order:order{order}", "what": f"ETDRK{order} measured convergence rate {r['rate']:.2f} < {order}",
                              "probe": "order", "args": {"order": order}, "observed": r})
    return fails


def replay(probe, args):
    if probe == "phi":
        return probe_phi(args["order"], complex(*args["z"]), 0.5, args.get("M", 16), args.get("r", 1.0))
    if probe == "step":
        return probe_step(args["order"], complex(*args["z"]))
    return PROBES[probe](**args)
