"""C16 — error metrics are consistent quadratures of the documented norms."""
from __future__ import annotations

import numpy as np

from . import util as U

FAMILIES = {  # name: (mode, p, q)
    "MAE": (0, 1.0, 1.0), "nMAE": (1, 1.0, 1.0), "sMAE": (2, 1.0, 1.0),
    "MSE": (0, 2.0, 1.0), "nMSE": (1, 2.0, 1.0), "sMSE": (2, 2.0, 1.0),
    "RMSE": (0, 2.0, 0.5), "nRMSE": (1, 2.0, 0.5), "sRMSE": (2, 2.0, 0.5),
}
FOURIER = {"fourier_MAE": (0, 1.0, 1.0), "fourier_nMAE": (1, 1.0, 1.0), "fourier_MSE": (0, 2.0, 1.0),
           "fourier_nMSE": (1, 2.0, 1.0), "fourier_RMSE": (0, 2.0, 0.5), "fourier_nRMSE": (1, 2.0, 0.5)}


def model_spatial(d, D, N, L, p, q, arr):
    return [d.ask(f"metric_spatial {D} {N} {U.ftok(L)} {U.ftok(p)} {U.ftok(q)} {U.ftoks(arr[c])}")[0] for c in range(arr.shape[0])]


def model_fourier(d, D, N, L, p, q, arr, band=None, deriv=None):
    s = 2 * np.pi / L
    hb, lo, hi = (1, band[0], band[1]) if band else (0, 0, 0)
    hd, m = (1, deriv) if deriv is not None else (0, 0.0)
    return [d.ask(f"metric_fourier {D} {N} {U.ftok(L)} {U.ftok(s)} {U.ftok(p)} {U.ftok(q)} {hb} {lo} {hi} {hd} {U.ftok(m)} {U.ftok(1e-5)} "
                  f"{U.ftoks(arr[c])}")[0] for c in range(arr.shape[0])]


def combine(d, mode, dn, rn, sn):
    n = len(dn)
    return d.ask(f"combine {mode} {n} {U.ftoks(dn)} {U.ftoks(rn)} {U.ftoks(sn)}")[0]


def correspondence(ctx):
    import jax.numpy as jnp
    from exponax import metrics as M
    d = ctx.driver
    rng = np.random.default_rng(ctx.seed)
    sizes = {1: [6, 7, 12], 2: [4, 5, 6], 3: [3, 4]} if ctx.tier == "quick" else {1: list(range(3, 20)), 2: list(range(3, 10)), 3: [3, 4, 5, 6]}
    for D in (1, 2, 3):
        for N in sizes[D]:
            C = int(rng.integers(1, 4))
            L = float(rng.uniform(0.5, 6))
            u = rng.normal(size=(C,) + (N,) * D)
            r = rng.normal(size=(C,) + (N,) * D)
            for name, (mode, p, q) in FAMILIES.items():
                impl = float(getattr(M, name)(jnp.asarray(u), jnp.asarray(r), domain_extent=L))
                dn = model_spatial(d, D, N, L, p, q, u - r)
                rn = model_spatial(d, D, N, L, p, q, r)
                sn = model_spatial(d, D, N, L, p, q, u)
                ctx.count(("spatial", name, D, N % 2), True)
                ctx.compare(f"metrics.{name} vs Metrics.spatialAggregator+combine", [impl], [combine(d, mode, dn, rn, sn)], cell=("spatial", name, D))
            for name, (mode, p, q) in FOURIER.items():
                band = None
                deriv = None
                kw = {}
                bm = int(rng.integers(0, 5))    # none / both / low only / high only / low = 0 only
                if bm in (1, 2, 3, 4):
                    lo = int(rng.integers(0, N // 2 + 1)) if bm != 4 else 0
                    hi = int(rng.integers(lo, N // 2 + 2))
                    if bm == 1:
                        band = (lo, hi)
                        kw.update(low=lo, high=hi)
                    elif bm in (2, 4):           # documented default of the missing upper limit: everything up to Nyquist
                        band = (lo, N // 2 + 1)
                        kw.update(low=lo)
                    else:                         # documented default of the missing lower limit: 0
                        band = (0, hi)
                        kw.update(high=hi)
                if rng.uniform() < 0.5:
                    deriv = float(rng.integers(1, 3))
                    kw.update(derivative_order=deriv)
                if mode == 1 and band is not None:
                    # make sure the reference has content in the band (normalised metrics divide by it)
                    pass
                impl = float(getattr(M, name)(jnp.asarray(u), jnp.asarray(r), domain_extent=L, **kw))
                dn = model_fourier(d, D, N, L, p, q, u - r, band, deriv)
                rn = model_fourier(d, D, N, L, p, q, r, band, deriv)
                ctx.count(("fourier", name, D, N % 2, band is not None, deriv), True)
                if mode == 1 and min(abs(x) for x in rn) < 1e-12:
                    continue
                ctx.compare(f"metrics.{name} vs Metrics.fourierAggregator+combine", [impl], [combine(d, mode, dn, rn, rn)],
                            cell=("fourier", name, D), detail={"band": band, "deriv": deriv, "N": N, "L": L})
            impl = float(M.correlation(jnp.asarray(u), jnp.asarray(r)))
            cm = np.mean([d.ask(f"correlation {D} {N} {U.ftoks(u[c])} {U.ftoks(r[c])}")[0] for c in range(C)])
            ctx.count(("correlation", D, N), True)
            ctx.compare("metrics.correlation vs Metrics.correlationChannel", [impl], [cm], cell=("correlation", D, N))
    ctx.sample({"families": list(FAMILIES) + list(FOURIER) + ["correlation"]})


def probe_consistency(D, N, seed):
    import jax.numpy as jnp
    from exponax import metrics as M
    rng = np.random.default_rng(seed)
    C, L = 2, 1.7
    u = rng.normal(size=(C,) + (N,) * D)
    r = rng.normal(size=(C,) + (N,) * D)
    ju, jr = jnp.asarray(u), jnp.asarray(r)
    res = {}
    scale0 = float(M.MSE(ju, jr, domain_extent=2 * L)) + 1.0   # relative deviations are stored multiplied by the common scale
    # Parseval: spatial == Fourier for the p=2 families
    res["parseval_MSE"] = abs(float(M.MSE(ju, jr, domain_extent=L)) - float(M.fourier_MSE(ju, jr, domain_extent=L)))
    res["parseval_RMSE"] = abs(float(M.RMSE(ju, jr, domain_extent=L)) - float(M.fourier_RMSE(ju, jr, domain_extent=L)))
    res["parseval_nMSE"] = abs(float(M.nMSE(ju, jr, domain_extent=L)) - float(M.fourier_nMSE(ju, jr, domain_extent=L)))
    # L^D scaling
    res["L_scaling"] = abs(float(M.MSE(ju, jr, domain_extent=2 * L)) - 2 ** D * float(M.MSE(ju, jr, domain_extent=L)))
    # channel additivity
    res["channel_add"] = abs(float(M.MSE(ju, jr, domain_extent=L)) - sum(float(M.MSE(ju[c:c + 1], jr[c:c + 1], domain_extent=L)) for c in range(C)))
    # band additivity over a partition 0..N//2+1 (outer exponent 1)
    cuts = [0, 1, max(2, N // 4 + 1), N // 2 + 1]
    cuts = sorted(set(cuts))
    tot = 0.0
    for a, b in zip(cuts[:-1], cuts[1:]):
        tot += float(M.fourier_MSE(ju, jr, domain_extent=L, low=a if a == 0 else a, high=b - 1 if b != cuts[-1] else b))
    # bands are [low, high] inclusive: [0,c1-1], [c1, c2-1], ..., [ck, N//2+1]
    res["band_add"] = abs(tot - float(M.fourier_MSE(ju, jr, domain_extent=L)))
    # one-sided bands: a missing limit means "no limit on that side"
    full = float(M.fourier_MSE(ju, jr, domain_extent=L))
    res["band_low0_only"] = abs(float(M.fourier_MSE(ju, jr, domain_extent=L, low=0)) - full)
    res["band_high_max_only"] = abs(float(M.fourier_MSE(ju, jr, domain_extent=L, high=N // 2 + 1)) - full)
    kcut = max(1, N // 4)
    res["band_one_sided_split"] = abs(float(M.fourier_MSE(ju, jr, domain_extent=L, high=kcut))
                                      + float(M.fourier_MSE(ju, jr, domain_extent=L, low=kcut + 1)) - full)
    res["band_one_sided_split_H1"] = abs(float(M.H1_MSE(ju, jr, domain_extent=L, high=kcut))
                                         + float(M.H1_MSE(ju, jr, domain_extent=L, low=kcut + 1)) - float(M.H1_MSE(ju, jr, domain_extent=L)))
    # axioms
    res["zero"] = abs(float(M.MSE(ju, ju)))
    res["symmetric"] = abs(float(M.MSE(ju, jr)) - float(M.MSE(jr, ju))) + abs(float(M.sMAE(ju, jr)) - float(M.sMAE(jr, ju)))
    a = 3.7
    res["homogeneous"] = abs(float(M.RMSE(a * ju, a * jr)) - a * float(M.RMSE(ju, jr))) + abs(float(M.MAE(a * ju, a * jr)) - a * float(M.MAE(ju, jr)))
    res["scale_free"] = abs(float(M.nRMSE(a * ju, a * jr)) - float(M.nRMSE(ju, jr))) + abs(float(M.sMSE(a * ju, a * jr)) - float(M.sMSE(ju, jr)))
    # the relative (normalized / symmetric) variants at a domain extent != 1: symmetric in the arguments, independent of L
    # (the L^D factors cancel), and equal to the documented quotient of the absolute metric at the same L
    for nm, absn in (("sMAE", "MAE"), ("sMSE", "MSE"), ("sRMSE", "RMSE")):
        f = getattr(M, nm)
        fa = getattr(M, absn)
        v1 = float(f(ju, jr, domain_extent=L))
        res[f"{nm}:symmetric@L"] = abs(v1 - float(f(jr, ju, domain_extent=L)))
        res[f"{nm}:L-independent"] = abs(v1 - float(f(ju, jr, domain_extent=1.0)))
        # per channel: 2 |u-v| / (|u| + |v|), summed over channels
        want = sum(2 * float(fa(ju[c:c + 1], jr[c:c + 1], domain_extent=L)) /
                   (float(fa(ju[c:c + 1], 0 * ju[c:c + 1], domain_extent=L)) + float(fa(jr[c:c + 1], 0 * jr[c:c + 1], domain_extent=L)))
                   for c in range(C))
        res[f"{nm}:quotient@L"] = abs(v1 - want)
    for nm in ("nMAE", "nMSE", "nRMSE"):
        f = getattr(M, nm)
        res[f"{nm}:L-independent"] = abs(float(f(ju, jr, domain_extent=L)) - float(f(ju, jr, domain_extent=1.0)))
    # Sobolev
    res["sobolev"] = abs(float(M.H1_MSE(ju, jr, domain_extent=L)) - float(M.fourier_MSE(ju, jr, domain_extent=L)) -
                         float(M.fourier_MSE(ju, jr, domain_extent=L, derivative_order=1)))
    # "the derivative contributions (the entries of the gradient) are summed up": with a derivative order the Fourier
    # metric is the SUM over the axes d of the plain metric of ∂_d^m(u) against ∂_d^m(r) — for every outer exponent
    # (MSE-, RMSE- and normalized types). Odd N: no Nyquist mode, so the spectral derivative is the exact one.
    if N % 2 == 1:
        import exponax as ex
        for m_ in (1, 2):
            du = [np.stack([np.asarray(ex.derivative(ju[c:c + 1], L, order=m_))[d] for c in range(C)]) for d in range(D)]
            dr = [np.stack([np.asarray(ex.derivative(jr[c:c + 1], L, order=m_))[d] for c in range(C)]) for d in range(D)]
            for fn_f, fn_s in (("fourier_MSE", "MSE"), ("fourier_RMSE", "RMSE"), ("fourier_MAE", None), ("fourier_nRMSE", "nRMSE")):
                if fn_s is None:
                    continue
                got = float(getattr(M, fn_f)(ju, jr, domain_extent=L, derivative_order=m_))
                if fn_s.startswith("n"):
                    # normalized: per channel, (sum_d |∂_d(u-r)|) / (sum_d |∂_d r|)
                    want = sum(sum(float(M.RMSE(jnp.asarray(du[d][c:c + 1]), jnp.asarray(dr[d][c:c + 1]), domain_extent=L)) for d in range(D)) /
                               sum(float(M.RMSE(jnp.asarray(dr[d][c:c + 1]), domain_extent=L)) for d in range(D)) for c in range(C))
                else:
                    want = sum(float(getattr(M, fn_s)(jnp.asarray(du[d]), jnp.asarray(dr[d]), domain_extent=L)) for d in range(D))
                res[f"gradient_sum:{fn_f}:order{m_}"] = abs(got - want) / max(1.0, abs(want)) * scale0
        res["sobolev_RMSE"] = abs(float(M.H1_RMSE(ju, jr, domain_extent=L)) - float(M.fourier_RMSE(ju, jr, domain_extent=L)) -
                                  float(M.fourier_RMSE(ju, jr, domain_extent=L, derivative_order=1)))
    # every Sobolev metric on every frequency band: the plain Fourier metric on that band plus the Fourier metric of
    # the first derivative on THE SAME band
    for nm in ("MAE", "nMAE", "MSE", "nMSE", "RMSE", "nRMSE"):
        for (lo, hi) in ((None, None), (2, None), (None, 2), (1, 3), (2, 2), (3, max(3, N // 2))):
            kw = {k_: v_ for k_, v_ in (("low", lo), ("high", hi)) if v_ is not None}
            h1 = float(getattr(M, "H1_" + nm)(ju, jr, domain_extent=L, **kw))
            parts = float(getattr(M, "fourier_" + nm)(ju, jr, domain_extent=L, **kw)) + float(getattr(M, "fourier_" + nm)(ju, jr, domain_extent=L, derivative_order=1, **kw))
            res[f"sobolev_band:H1_{nm}:low={lo}:high={hi}"] = abs(h1 - parts) / max(1.0, abs(parts)) * scale0
    # correlation
    c = float(M.correlation(ju, jr))
    res["corr_range"] = max(0.0, abs(c) - 1.0)
    res["corr_pos"] = abs(float(M.correlation(ju, 2.5 * ju)) - 1.0)
    res["corr_neg"] = abs(float(M.correlation(ju, -0.3 * ju)) + 1.0)
    pos = float(M.MSE(ju, jr)) > 0
    scale = float(M.MSE(ju, jr, domain_extent=2 * L)) + 1.0
    bad = {k: v for k, v in res.items() if v > 1e-10 * scale}
    return {"ok": bool(not bad and pos), "bad": bad, "all": res}


def probe_resolution_independent(D, seed):
    """a band-limited pair sampled at two resolutions gives the same p=2 metric"""
    import jax.numpy as jnp
    from exponax import metrics as M
    from .c15 import bandlimited
    rng = np.random.default_rng(seed)
    N1, N2 = (8, 13) if D == 1 else ((6, 9) if D == 2 else (5, 6))
    u1, fu = bandlimited(rng, 1, D, N1, 2)
    r1, fr = bandlimited(rng, 1, D, N1, 2)
    g2 = np.stack(np.meshgrid(*[np.arange(N2) / N2] * D, indexing="ij"))
    a = float(M.MSE(jnp.asarray(u1), jnp.asarray(r1)))
    b = float(M.MSE(jnp.asarray(fu(g2)), jnp.asarray(fr(g2))))
    return {"ok": bool(abs(a - b) <= 1e-10 * (abs(a) + 1)), "a": a, "b": b}


def probe_mean_metric(D, N, seed):
    """`mean_metric(fn, u_batch, v_batch, **kw)` = arithmetic mean over the batch of `fn(u_i, v_i, **kw)` (the regenerated
    `Gen.Base.mean_metric`); one member: the metric itself; keyword arguments reach every member"""
    import jax.numpy as jnp
    from exponax import metrics as M
    rng = np.random.default_rng(seed)
    B = 3 + seed % 3
    u = rng.normal(size=(B, 2) + (N,) * D)
    v = rng.normal(size=(B, 2) + (N,) * D)
    res = {}
    for name, kw in [("MSE", {}), ("nRMSE", {}), ("MAE", {"domain_extent": 2.5}), ("fourier_nRMSE", {}),
                     ("H1_MSE", {"domain_extent": 0.7}), ("correlation", {})]:
        fn = getattr(M, name)
        got = float(M.mean_metric(fn, jnp.asarray(u), jnp.asarray(v), **kw))
        per = [float(fn(jnp.asarray(u[i]), jnp.asarray(v[i]), **kw)) for i in range(B)]
        res[name] = abs(got - float(np.mean(per))) / (abs(float(np.mean(per))) + 1.0)
        one = float(M.mean_metric(fn, jnp.asarray(u[:1]), jnp.asarray(v[:1]), **kw))
        res[name + "_single"] = abs(one - per[0]) / (abs(per[0]) + 1.0)
    bad = {k: x for k, x in res.items() if not x < 1e-12}
    return {"ok": not bad, "bad": bad, "all": res}


def oracle(ctx, deep):
    fails = []
    for (D, N) in [(1, 9), (2, 6)] + ([(3, 4), (1, 16)] if deep else []):
        r = probe_mean_metric(D, N, ctx.seed)
        ctx.count(("oracle_mean_metric", D, N))
        if not r["ok"]:
            fails.append({"key": "C16:mean_metric", "what": f"mean_metric is not the batch mean of the per-member metric (D={D}, N={N}): {r['bad']}",
                          "probe": "mean_metric", "args": {"D": D, "N": N, "seed": ctx.seed}, "observed": r})
    cases = [(1, 8), (1, 9), (2, 6), (2, 7), (3, 4), (3, 5)] if not deep else [(1, n) for n in range(4, 16)] + [(2, n) for n in range(4, 10)] + [(3, 4), (3, 5), (3, 6)]
    for (D, N) in cases:
        r = probe_consistency(D, N, ctx.seed)
        ctx.count(("oracle_consistency", D, N))
        if not r["ok"]:
            for k in r["bad"] or {"positive": 1}:
                fails.append({"key": f"C16:{k}", "what": f"metric consistency '{k}' violated (D={D}, N={N}): {r['bad']}",
                              "probe": "consistency", "args": {"D": D, "N": N, "seed": ctx.seed}, "observed": r})
    for D in (1, 2, 3):
        r = probe_resolution_independent(D, ctx.seed)
        if not r["ok"]:
            fails.append({"key": "C16:resolution", "what": f"band-limited pair: MSE depends on the resolution (D={D}): {r}",
                          "probe": "resolution_independent", "args": {"D": D, "seed": ctx.seed}, "observed": r})
    seen, out = set(), []
    for f in fails:
        if f["key"] not in seen:
            seen.add(f["key"])
            out.append(f)
    return out


def replay(probe, args):
    return {"consistency": probe_consistency, "resolution_independent": probe_resolution_independent,
            "mean_metric": probe_mean_metric}[probe](**args)
