"""
Registry of the public stepper classes with, for each, a seeded constructor-argument
generator and the *documented* PDE it solves expressed in the vocabulary of the Lean
model: linear operator as monomials (coefficient, exponents α) meaning
Σ c·Π_d ∂_d^{α_d}, nonlinear term as a model spec string, dealiasing fraction.

This table is the hand-written specification (from the class docstrings / the stepper
overview); the implementation side is never consulted to build it.
"""
from __future__ import annotations

from fractions import Fraction

import numpy as np

from . import util as U


# ---- polynomial symbols ------------------------------------------------------
def e(D, d, p):
    a = [0] * D
    a[d] = p
    return tuple(a)


def lap(D, coef, order=2):
    """coef · Σ_d ∂_d^order"""
    return [(coef, e(D, d, order)) for d in range(D)]


def const(D, coef):
    return [(coef, tuple([0] * D))]


def grad_inner(D, v, order=1):
    return [(v[d], e(D, d, order)) for d in range(D)]


def pmul(a, b):
    out = {}
    for ca, ea in a:
        for cb, eb in b:
            k = tuple(x + y for x, y in zip(ea, eb))
            out[k] = out.get(k, 0.0) + ca * cb
    return [(c, k) for k, c in out.items()]


def pscale(s, a):
    return [(s * c, k) for c, k in a]


def general_linear(D, coefs):
    """Σ_j a_j Σ_d ∂_d^j  (so a_0 enters as D·a_0, as the documented symbol says)"""
    out = []
    for j, a in enumerate(coefs):
        out += lap(D, a, j) if j > 0 else [(a, tuple([0] * D))] * D
    return out


def frac_of(x):
    f = Fraction(x).limit_denominator(1000)
    if float(f) != x:
        f = Fraction(x)
    return f.numerator, f.denominator


DRIVER = None          # set by run_check: the model side evaluates the translated cutoff formula in binary64
_EFF_CACHE = {}


def effective_fraction(N, frac, driver=None):
    """The implementation evaluates `frac*(N//2) - 1` in binary64 (e.g. N=49, frac=2/3 gives 14.999999999999998,
    so the retained band is K=14, one less than the rational 15).  The model's mask takes a rational fraction;
    it is driven with (K+1, N//2), the rational whose cutoff is the float-derived K.  K itself comes from the
    driver executing the *translated* cutoff arithmetic (Gen.Misc.dealias_cutoff) on IEEE doubles."""
    d = driver or DRIVER
    key = (N, float(frac))
    if key not in _EFF_CACHE:
        c = d.ask(f"cutoff {N} {U.ftok(frac)}")[0]
        K = int(np.floor(c)) if c >= 0 else -1
        _EFF_CACHE[key] = (K + 1, max(N // 2, 1))
    return _EFF_CACHE[key]


# ---- documented conversions (C13) -------------------------------------------
def normalized_from_difficulty(gammas, D, N):
    return [g if j == 0 else g / (N ** j * 2 ** (j - 1) * D) for j, g in enumerate(gammas)]


class Spec:
    def __init__(self, name, cls, kwargs, D, N, L, dt, order, C, lin, nonlin, frac, pos=None, M=16, r=1.0):
        self.name, self.cls, self.kwargs = name, cls, kwargs
        self.D, self.N, self.L, self.dt, self.order, self.C = D, N, L, dt, order, C
        self.lin, self.nonlin, self.frac = lin, nonlin, frac
        self.pos = pos  # positional args override
        self.M, self.r = M, r

    def build(self):
        if self.pos is not None:
            return self.cls(*self.pos, **self.kwargs)
        return self.cls(self.D, self.L, self.N, self.dt, **self.kwargs)

    def cfg_tokens(self):
        fp, fq = (0, 0) if self.frac is None else effective_fraction(self.N, self.frac)
        s = 2 * np.pi / self.L
        return f"{self.D} {self.N} {U.ftok(s)} {fp} {fq}"

    def terms_tokens(self, terms):
        out = [str(len(terms))]
        for c, al in terms:
            out.append(U.ctoks(c))
            out += [str(a) for a in al]
        return " ".join(out)

    def fullstep_line(self, u):
        parts = [f"fullstep {self.order} {self.M} {U.ftok(self.r)} {U.ftok(self.dt)}", self.cfg_tokens(), str(self.C),
                 str(len(self.lin))]
        parts += [self.terms_tokens(t) for t in self.lin]
        parts.append(self.nonlin)
        parts.append(U.ftoks(u))
        return " ".join(parts)

    def sym_line(self, ch=0):
        s = 2 * np.pi / self.L
        return f"sym_poly {self.D} {self.N} {U.ftok(s)} {self.terms_tokens(self.lin[ch])}"

    def nonlin_line(self, uhat):
        return f"nonlin {self.cfg_tokens()} {self.C} {self.nonlin} {U.cctoks(uhat)}"

    def zmax(self):
        """largest |λ·dt| over the grid (documented symbol): rounding of exp(z) is relative to 1+|z|"""
        import itertools
        kmax = self.N // 2
        best = 0.0
        for terms in self.lin:
            for k in itertools.product(*[(0, 1, kmax, -kmax)] * self.D):
                lam = 0j
                for c, al in terms:
                    t = complex(c)
                    for d, a in enumerate(al):
                        t *= (1j * 2 * np.pi * k[d] / self.L) ** a
                    lam += t
                best = max(best, abs(lam * self.dt))
        return best

    def cell(self):
        return (self.name, self.D, self.N, self.order, self.N % 2)


def _f(rng, lo, hi):
    return float(rng.uniform(lo, hi))


# --- boolean option draws: recorded (so a sweep can enumerate every combination) and overridable -----------------------
FORCED_FLAGS = {}     # name -> bool, set by stepcorr.sweep while it enumerates combinations
DRAWN_FLAGS = []      # names drawn while building the last Spec


def flag(rng, name):
    v = bool(rng.integers(0, 2))     # always consume the draw: the rest of the configuration stays the same
    DRAWN_FLAGS.append(name)
    return FORCED_FLAGS.get(name, v)


# --- the FORM of an argument (scalar / per-axis vector / full matrix ...): same mechanism with n alternatives ----------
DRAWN_CHOICES = []    # (name, n) drawn while building the last Spec


def choice(rng, name, n):
    v = int(rng.integers(0, n))
    DRAWN_CHOICES.append((name, n))
    return int(FORCED_FLAGS.get(name, v))


def registry():
    """name -> generator(rng, D, N, order) -> Spec  (None when the class does not support D)"""
    import exponax as ex
    st, gen, rea = ex.stepper, ex.stepper.generic, ex.stepper.reaction
    R = {}

    def base(rng):
        return _f(rng, 0.7, 7.0), float(10 ** rng.uniform(-2.5, -0.3))

    # ---------------- linear ----------------
    def advection(rng, D, N, order):
        L, dt = base(rng)
        mode = choice(rng, "velocity_form", 2)
        if mode == 0:
            v = _f(rng, -2, 2)
            kw, vv = {"velocity": v}, [v] * D
        else:
            import jax.numpy as jnp
            vv = [float(x) for x in rng.uniform(-2, 2, D)]
            kw = {"velocity": jnp.asarray(vv)}
        return Spec("Advection", st.Advection, kw, D, N, L, dt, 0, 1, [pscale(-1.0, grad_inner(D, vv))], "zero", None)
    R["Advection"] = advection

    def diff_matrix(rng, D):
        import jax.numpy as jnp
        mode = choice(rng, "diffusivity_form", 3)
        if mode == 0:
            nu = _f(rng, 0.001, 0.5)
            return nu, np.eye(D) * nu
        if mode == 1:
            v = rng.uniform(0.001, 0.5, D)
            return jnp.asarray(v), np.diag(v)
        B = rng.normal(size=(D, D)) * 0.3
        A = B @ B.T + 0.01 * np.eye(D)
        return jnp.asarray(A), A

    def quad_terms(D, A):
        out = []
        for i in range(D):
            for j in range(D):
                a = [0] * D
                a[i] += 1
                a[j] += 1
                out.append((float(A[i, j]), tuple(a)))
        return out

    def diffusion(rng, D, N, order):
        L, dt = base(rng)
        arg, A = diff_matrix(rng, D)
        return Spec("Diffusion", st.Diffusion, {"diffusivity": arg}, D, N, L, dt, 0, 1, [quad_terms(D, A)], "zero", None)
    R["Diffusion"] = diffusion

    def advdiff(rng, D, N, order):
        L, dt = base(rng)
        import jax.numpy as jnp
        arg, A = diff_matrix(rng, D)
        vv = [float(x) for x in rng.uniform(-2, 2, D)]
        return Spec("AdvectionDiffusion", st.AdvectionDiffusion, {"diffusivity": arg, "velocity": jnp.asarray(vv)},
                    D, N, L, dt, 0, 1, [pscale(-1.0, grad_inner(D, vv)) + quad_terms(D, A)], "zero", None)
    R["AdvectionDiffusion"] = advdiff

    def dispersion(rng, D, N, order):
        L, dt = base(rng)
        import jax.numpy as jnp
        mix = flag(rng, "mix")
        xi = [float(x) for x in rng.uniform(-1, 1, D)]
        terms = pmul(grad_inner(D, xi, 1), lap(D, 1.0, 2)) if mix else grad_inner(D, xi, 3)
        return Spec("Dispersion", st.Dispersion, {"dispersivity": jnp.asarray(xi), "advect_on_diffusion": mix},
                    D, N, L, dt, 0, 1, [terms], "zero", None)
    R["Dispersion"] = dispersion

    def hyper(rng, D, N, order):
        L, dt = base(rng)
        mix = flag(rng, "mix")
        mu = _f(rng, 1e-4, 0.05)
        terms = pscale(-mu, pmul(lap(D, 1.0), lap(D, 1.0))) if mix else lap(D, -mu, 4)
        return Spec("HyperDiffusion", st.HyperDiffusion, {"hyper_diffusivity": mu, "diffuse_on_diffuse": mix},
                    D, N, L, dt, 0, 1, [terms], "zero", None)
    R["HyperDiffusion"] = hyper

    def gen_lin_coefs(rng, maxdeg=4):
        n = int(rng.integers(1, maxdeg + 2))
        co = []
        for j in range(n):
            sign = -1.0 if j % 4 == 0 else (1.0 if j % 4 == 2 else rng.choice([-1.0, 1.0]))
            co.append(float(sign * rng.uniform(0, 0.3) * 0.1 ** (j // 2)))
        return co

    def general_linear_s(rng, D, N, order):
        L, dt = base(rng)
        co = gen_lin_coefs(rng)
        return Spec("GeneralLinearStepper", gen.GeneralLinearStepper, {"linear_coefficients": tuple(co)},
                    D, N, L, dt, 0, 1, [general_linear(D, co)], "zero", None)
    R["GeneralLinearStepper"] = general_linear_s

    def normalized_linear(rng, D, N, order):
        co = gen_lin_coefs(rng)
        return Spec("NormalizedLinearStepper", gen.NormalizedLinearStepper, {"normalized_linear_coefficients": tuple(co)},
                    D, N, 1.0, 1.0, 0, 1, [general_linear(D, co)], "zero", None, pos=(D, N))
    R["NormalizedLinearStepper"] = normalized_linear

    def difficulty_linear(rng, D, N, order):
        g = [c * 5 for c in gen_lin_coefs(rng)]
        al = normalized_from_difficulty(g, D, N)
        return Spec("DifficultyLinearStepper", gen.DifficultyLinearStepper, {"linear_difficulties": tuple(g)},
                    D, N, 1.0, 1.0, 0, 1, [general_linear(D, al)], "zero", None, pos=(D, N))
    R["DifficultyLinearStepper"] = difficulty_linear

    def difficulty_linear_simple(rng, D, N, order):
        o = int(rng.integers(0, 4))
        diff = _f(rng, -3, -0.1) if o % 4 in (0, 3) else (_f(rng, 0.1, 3) if o == 2 else _f(rng, -3, 3))
        g = [0.0] * o + [diff]
        al = normalized_from_difficulty(g, D, N)
        return Spec("DifficultyLinearStepperSimple", gen.DifficultyLinearStepperSimple, {"difficulty": diff, "order": o},
                    D, N, 1.0, 1.0, 0, 1, [general_linear(D, al)], "zero", None, pos=(D, N))
    R["DifficultyLinearStepperSimple"] = difficulty_linear_simple

    # ---------------- convection family ----------------
    def conv_flags(rng, D):
        single = flag(rng, "single_channel")
        cons = flag(rng, "conservative")
        C = 1 if single else D
        return single, cons, C

    def conv_spec(scale, single, cons):
        return f"conv {U.ftok(scale)} {int(single)} {int(cons)}"

    def burgers(rng, D, N, order):
        L, dt = base(rng)
        single, cons, C = conv_flags(rng, D)
        nu, b = _f(rng, 0.01, 0.3), _f(rng, -1.5, 1.5)
        return Spec("Burgers", st.Burgers, {"diffusivity": nu, "convection_scale": b, "single_channel": single,
                                            "conservative": cons, "order": order},
                    D, N, L, dt, order, C, [lap(D, nu)], conv_spec(b, single, cons), 2 / 3)
    R["Burgers"] = burgers

    def kdv(rng, D, N, order):
        L, dt = base(rng)
        single, cons, C = conv_flags(rng, D)
        b, nu, a3, mu = _f(rng, -6, 2), _f(rng, 0, 0.1), _f(rng, 0.01, 0.5), _f(rng, 0.001, 0.02)
        aod, dod = flag(rng, "advect_over_diffuse"), flag(rng, "diffuse_over_diffuse")
        disp = pmul(grad_inner(D, [a3] * D, 1), lap(D, 1.0)) if aod else grad_inner(D, [a3] * D, 3)
        hyp = pscale(mu, pmul(lap(D, 1.0), lap(D, 1.0))) if dod else lap(D, mu, 4)
        terms = lap(D, nu) + pscale(-1.0, disp) + pscale(-1.0, hyp)
        return Spec("KortewegDeVries", st.KortewegDeVries,
                    {"convection_scale": b, "diffusivity": nu, "dispersivity": a3, "hyper_diffusivity": mu,
                     "advect_over_diffuse": aod, "diffuse_over_diffuse": dod, "single_channel": single,
                     "conservative": cons, "order": order},
                    D, N, L, dt, order, C, [terms], conv_spec(b, single, cons), 2 / 3)
    R["KortewegDeVries"] = kdv

    def ks(rng, D, N, order):
        L, dt = base(rng)
        L = L * 4
        g, s2, s4 = _f(rng, 0.3, 1.5), _f(rng, 0.3, 1.2), _f(rng, 0.3, 1.2)
        return Spec("KuramotoSivashinsky", st.KuramotoSivashinsky,
                    {"gradient_norm_scale": g, "second_order_scale": s2, "fourth_order_scale": s4, "order": order},
                    D, N, L, dt, order, 1, [lap(D, -s2) + lap(D, -s4, 4)], f"gradnorm {U.ftok(g)} 1", 2 / 3)
    R["KuramotoSivashinsky"] = ks

    def ksc(rng, D, N, order):
        L, dt = base(rng)
        L = L * 4
        single, cons, C = conv_flags(rng, D)
        b, s2, s4 = _f(rng, 0.3, 1.5), _f(rng, 0.3, 1.2), _f(rng, 0.3, 1.2)
        return Spec("KuramotoSivashinskyConservative", st.KuramotoSivashinskyConservative,
                    {"convection_scale": b, "second_order_scale": s2, "fourth_order_scale": s4,
                     "single_channel": single, "conservative": cons, "order": order},
                    D, N, L, dt, order, C, [lap(D, -s2) + lap(D, -s4, 4)], conv_spec(b, single, cons), 2 / 3)
    R["KuramotoSivashinskyConservative"] = ksc

    def general_conv(rng, D, N, order):
        L, dt = base(rng)
        single, cons, C = conv_flags(rng, D)
        co, b = gen_lin_coefs(rng), _f(rng, -1.5, 1.5)
        return Spec("GeneralConvectionStepper", gen.GeneralConvectionStepper,
                    {"linear_coefficients": tuple(co), "convection_scale": b, "single_channel": single,
                     "conservative": cons, "order": order},
                    D, N, L, dt, order, C, [general_linear(D, co)], conv_spec(b, single, cons), 2 / 3)
    R["GeneralConvectionStepper"] = general_conv

    def normalized_conv(rng, D, N, order):
        single, cons, C = conv_flags(rng, D)
        co, b = [c * 0.1 for c in gen_lin_coefs(rng)], _f(rng, -0.3, 0.3)
        return Spec("NormalizedConvectionStepper", gen.NormalizedConvectionStepper,
                    {"normalized_linear_coefficients": tuple(co), "normalized_convection_scale": b,
                     "single_channel": single, "conservative": cons, "order": order},
                    D, N, 1.0, 1.0, order, C, [general_linear(D, co)], conv_spec(b, single, cons), 2 / 3, pos=(D, N))
    R["NormalizedConvectionStepper"] = normalized_conv

    def difficulty_conv(rng, D, N, order):
        single, cons, C = conv_flags(rng, D)
        g = [c * 3 for c in gen_lin_coefs(rng)]
        delta, mx = _f(rng, -4, 4), _f(rng, 0.5, 2.0)
        al = normalized_from_difficulty(g, D, N)
        b = delta / (mx * N * D)
        return Spec("DifficultyConvectionStepper", gen.DifficultyConvectionStepper,
                    {"linear_difficulties": tuple(g), "convection_difficulty": delta, "maximum_absolute": mx,
                     "single_channel": single, "conservative": cons, "order": order},
                    D, N, 1.0, 1.0, order, C, [general_linear(D, al)], conv_spec(b, single, cons), 2 / 3, pos=(D, N))
    R["DifficultyConvectionStepper"] = difficulty_conv

    # ---------------- gradient norm family ----------------
    def general_gn(rng, D, N, order):
        L, dt = base(rng)
        co, b = gen_lin_coefs(rng), _f(rng, -1.5, 1.5)
        return Spec("GeneralGradientNormStepper", gen.GeneralGradientNormStepper,
                    {"linear_coefficients": tuple(co), "gradient_norm_scale": b, "order": order},
                    D, N, L, dt, order, 1, [general_linear(D, co)], f"gradnorm {U.ftok(b)} 1", 2 / 3)
    R["GeneralGradientNormStepper"] = general_gn

    def normalized_gn(rng, D, N, order):
        co, b = [c * 0.05 for c in gen_lin_coefs(rng)], _f(rng, -0.05, 0.05)
        return Spec("NormalizedGradientNormStepper", gen.NormalizedGradientNormStepper,
                    {"normalized_linear_coefficients": tuple(co), "normalized_gradient_norm_scale": b, "order": order},
                    D, N, 1.0, 1.0, order, 1, [general_linear(D, co)], f"gradnorm {U.ftok(b)} 1", 2 / 3, pos=(D, N))
    R["NormalizedGradientNormStepper"] = normalized_gn

    def difficulty_gn(rng, D, N, order):
        g = [c * 3 for c in gen_lin_coefs(rng)]
        delta, mx = _f(rng, -2, 2), _f(rng, 0.5, 2.0)
        al = normalized_from_difficulty(g, D, N)
        b = delta / (mx * N ** 2 * D)
        return Spec("DifficultyGradientNormStepper", gen.DifficultyGradientNormStepper,
                    {"linear_difficulties": tuple(g), "gradient_norm_difficulty": delta, "maximum_absolute": mx, "order": order},
                    D, N, 1.0, 1.0, order, 1, [general_linear(D, al)], f"gradnorm {U.ftok(b)} 1", 2 / 3, pos=(D, N))
    R["DifficultyGradientNormStepper"] = difficulty_gn

    # ---------------- polynomial family ----------------
    def poly_spec(co):
        return f"poly {len(co)} " + " ".join(U.ftok(c) for c in co)

    def poly_coefs(rng):
        n = int(rng.integers(2, 5))
        return [float(x) for x in rng.uniform(-1, 1, n)]

    def general_poly(rng, D, N, order):
        L, dt = base(rng)
        co, pc = gen_lin_coefs(rng), poly_coefs(rng)
        return Spec("GeneralPolynomialStepper", gen.GeneralPolynomialStepper,
                    {"linear_coefficients": tuple(co), "polynomial_coefficients": tuple(pc), "order": order},
                    D, N, L, dt, order, 1, [general_linear(D, co)], poly_spec(pc), 2 / 3)
    R["GeneralPolynomialStepper"] = general_poly

    def normalized_poly(rng, D, N, order):
        co, pc = [c * 0.1 for c in gen_lin_coefs(rng)], [c * 0.1 for c in poly_coefs(rng)]
        return Spec("NormalizedPolynomialStepper", gen.NormalizedPolynomialStepper,
                    {"normalized_linear_coefficients": tuple(co), "normalized_polynomial_coefficients": tuple(pc), "order": order},
                    D, N, 1.0, 1.0, order, 1, [general_linear(D, co)], poly_spec(pc), 2 / 3, pos=(D, N))
    R["NormalizedPolynomialStepper"] = normalized_poly

    def difficulty_poly(rng, D, N, order):
        g, pc = [c * 3 for c in gen_lin_coefs(rng)], [c * 0.1 for c in poly_coefs(rng)]
        al = normalized_from_difficulty(g, D, N)
        return Spec("DifficultyPolynomialStepper", gen.DifficultyPolynomialStepper,
                    {"linear_difficulties": tuple(g), "polynomial_difficulties": tuple(pc), "order": order},
                    D, N, 1.0, 1.0, order, 1, [general_linear(D, al)], poly_spec(pc), 2 / 3, pos=(D, N))
    R["DifficultyPolynomialStepper"] = difficulty_poly

    # ---------------- general nonlinear family ----------------
    def gnl_spec(s):
        return f"general {U.ftok(s[0])} {U.ftok(s[1])} {U.ftok(s[2])} 1"

    def general_nl(rng, D, N, order):
        L, dt = base(rng)
        co, s = gen_lin_coefs(rng), [float(x) for x in rng.uniform(-1, 1, 3)]
        return Spec("GeneralNonlinearStepper", gen.GeneralNonlinearStepper,
                    {"linear_coefficients": tuple(co), "nonlinear_coefficients": tuple(s), "order": order},
                    D, N, L, dt, order, 1, [general_linear(D, co)], gnl_spec(s), 2 / 3)
    R["GeneralNonlinearStepper"] = general_nl

    def normalized_nl(rng, D, N, order):
        co, s = [c * 0.1 for c in gen_lin_coefs(rng)], [float(x) for x in rng.uniform(-0.2, 0.2, 3)]
        return Spec("NormalizedNonlinearStepper", gen.NormalizedNonlinearStepper,
                    {"normalized_linear_coefficients": tuple(co), "normalized_nonlinear_coefficients": tuple(s), "order": order},
                    D, N, 1.0, 1.0, order, 1, [general_linear(D, co)], gnl_spec(s), 2 / 3, pos=(D, N))
    R["NormalizedNonlinearStepper"] = normalized_nl

    def difficulty_nl(rng, D, N, order):
        g = [c * 3 for c in gen_lin_coefs(rng)]
        nd, mx = [float(x) for x in rng.uniform(-2, 2, 3)], _f(rng, 0.5, 2.0)
        al = normalized_from_difficulty(g, D, N)
        s = [nd[0], nd[1] / (mx * N * D), nd[2] / (mx * N ** 2 * D)]
        return Spec("DifficultyNonlinearStepper", gen.DifficultyNonlinearStepper,
                    {"linear_difficulties": tuple(g), "nonlinear_difficulties": tuple(nd), "maximum_absolute": mx, "order": order},
                    D, N, 1.0, 1.0, order, 1, [general_linear(D, al)], gnl_spec(s), 2 / 3, pos=(D, N))
    R["DifficultyNonlinearStepper"] = difficulty_nl

    # ---------------- Navier–Stokes family ----------------
    def ns_vort(rng, D, N, order):
        if D != 2:
            return None
        L, dt = base(rng)
        nu, b, drag = _f(rng, 0.001, 0.05), _f(rng, 0.5, 1.5), _f(rng, -0.2, 0.0)
        return Spec("NavierStokesVorticity", st.NavierStokesVorticity,
                    {"diffusivity": nu, "vorticity_convection_scale": b, "drag": drag, "order": order},
                    D, N, L, dt, order, 1, [lap(D, nu) + const(D, drag)], f"vort {U.ftok(b)} 0", 2 / 3)
    R["NavierStokesVorticity"] = ns_vort

    def kolm_vort(rng, D, N, order):
        if D != 2:
            return None
        L, dt = base(rng)
        nu, b, drag = _f(rng, 0.001, 0.05), _f(rng, 0.5, 1.5), _f(rng, -0.2, 0.0)
        m, gam = int(rng.integers(1, max(2, N // 3))), _f(rng, 0.3, 1.5)
        return Spec("KolmogorovFlowVorticity", st.KolmogorovFlowVorticity,
                    {"diffusivity": nu, "convection_scale": b, "drag": drag, "injection_mode": m, "injection_scale": gam, "order": order},
                    D, N, L, dt, order, 1, [lap(D, nu) + const(D, drag)], f"vort {U.ftok(b)} 1 {m} {U.ftok(gam)}", 2 / 3)
    R["KolmogorovFlowVorticity"] = kolm_vort

    def general_vort(rng, D, N, order):
        if D != 2:
            return None
        L, dt = base(rng)
        co, b = gen_lin_coefs(rng), _f(rng, 0.5, 1.5)
        inj = flag(rng, "inject")
        m, gam = int(rng.integers(1, max(2, N // 3))), (_f(rng, 0.3, 1.5) if inj else 0.0)
        nl = f"vort {U.ftok(b)} 1 {m} {U.ftok(gam)}" if inj else f"vort {U.ftok(b)} 0"
        return Spec("GeneralVorticityConvectionStepper", gen.GeneralVorticityConvectionStepper,
                    {"linear_coefficients": tuple(co), "vorticity_convection_scale": b, "injection_mode": m,
                     "injection_scale": gam, "order": order},
                    D, N, L, dt, order, 1, [general_linear(D, co)], nl, 2 / 3)
    R["GeneralVorticityConvectionStepper"] = general_vort

    def ns_vel(rng, D, N, order):
        if D != 3:
            return None
        L, dt = base(rng)
        nu, drag = _f(rng, 0.001, 0.05), _f(rng, -0.2, 0.0)
        return Spec("NavierStokesVelocity", st.NavierStokesVelocity, {"diffusivity": nu, "drag": drag, "order": order},
                    D, N, L, dt, order, 3, [lap(D, nu) + const(D, drag)], "proj3d 0", 2 / 3)
    R["NavierStokesVelocity"] = ns_vel

    def kolm_vel(rng, D, N, order):
        if D != 3:
            return None
        L, dt = base(rng)
        nu, drag = _f(rng, 0.001, 0.05), _f(rng, -0.2, 0.0)
        m, gam = int(rng.integers(1, max(2, N // 3))), _f(rng, 0.3, 1.5)
        return Spec("KolmogorovFlowVelocity", st.KolmogorovFlowVelocity,
                    {"diffusivity": nu, "drag": drag, "injection_mode": m, "injection_scale": gam, "order": order},
                    D, N, L, dt, order, 3, [lap(D, nu) + const(D, drag)], f"proj3d 1 {m} {U.ftok(gam)}", 2 / 3)
    R["KolmogorovFlowVelocity"] = kolm_vel

    # ---------------- reaction ----------------
    def fisher(rng, D, N, order):
        L, dt = base(rng)
        nu, r = _f(rng, 0.001, 0.05), _f(rng, 0.2, 2.0)
        return Spec("FisherKPP", rea.FisherKPP, {"diffusivity": nu, "reactivity": r, "order": order},
                    D, N, L, dt, order, 1, [lap(D, nu) + const(D, r)], poly_spec([0.0, 0.0, -r]), 2 / 3)
    R["FisherKPP"] = fisher

    def allen(rng, D, N, order):
        L, dt = base(rng)
        nu, c1, c3 = _f(rng, 0.001, 0.05), _f(rng, 0.2, 1.5), _f(rng, -1.5, -0.2)
        return Spec("AllenCahn", rea.AllenCahn, {"diffusivity": nu, "first_order_coefficient": c1,
                                                 "third_order_coefficient": c3, "order": order},
                    D, N, L, dt, order, 1, [lap(D, nu) + const(D, c1)], poly_spec([0.0, 0.0, 0.0, c3]), 1 / 2)
    R["AllenCahn"] = allen

    def cahn(rng, D, N, order):
        L, dt = base(rng)
        nu, gam, c1, c3 = _f(rng, 0.001, 0.05), _f(rng, 1e-4, 5e-3), _f(rng, -1.5, -0.5), _f(rng, 0.5, 1.5)
        terms = lap(D, nu * c1) + pscale(-nu * gam, pmul(lap(D, 1.0), lap(D, 1.0)))
        return Spec("CahnHilliard", rea.CahnHilliard, {"diffusivity": nu, "gamma": gam, "first_order_coefficient": c1,
                                                       "third_order_coefficient": c3, "order": order},
                    D, N, L, dt, order, 1, [terms], f"cahn {U.ftok(nu * c3)}", 1 / 2)
    R["CahnHilliard"] = cahn

    def grayscott(rng, D, N, order):
        L, dt = base(rng)
        n1, n2, f, k = _f(rng, 1e-5, 1e-2), _f(rng, 1e-5, 1e-2), _f(rng, 0.01, 0.08), _f(rng, 0.03, 0.08)
        return Spec("GrayScott", rea.GrayScott, {"diffusivity_1": n1, "diffusivity_2": n2, "feed_rate": f,
                                                 "kill_rate": k, "order": order},
                    D, N, L, dt, order, 2, [lap(D, n1), lap(D, n2)], f"grayscott {U.ftok(f)} {U.ftok(k)}", 1 / 2)
    R["GrayScott"] = grayscott

    def swift(rng, D, N, order):
        L, dt = base(rng)
        L = L * 3
        r, kc = _f(rng, 0.1, 0.9), _f(rng, 0.5, 1.2)
        pc = [0.0, 0.0, _f(rng, 0.2, 1.0), _f(rng, -1.0, -0.2)]
        terms = const(D, r - kc * kc) + lap(D, -2 * kc) + pscale(-1.0, pmul(lap(D, 1.0), lap(D, 1.0)))
        return Spec("SwiftHohenberg", rea.SwiftHohenberg, {"reactivity": r, "critical_number": kc,
                                                           "polynomial_coefficients": tuple(pc), "order": order},
                    D, N, L, dt, order, 1, [terms], poly_spec(pc), 1 / 2)
    R["SwiftHohenberg"] = swift

    if hasattr(rea, "BelousovZhabotinsky"):
        def bz(rng, D, N, order):
            L, dt = base(rng)
            d = [float(x) for x in rng.uniform(1e-5, 1e-2, 3)]
            return Spec("BelousovZhabotinsky", rea.BelousovZhabotinsky, {"diffusivities": tuple(d), "order": order},
                        D, N, L, dt, order, 3, [lap(D, d[0]), lap(D, d[1]), lap(D, d[2])], "bz", 1 / 2)
        R["BelousovZhabotinsky"] = bz
    return R


LINEAR = ["Advection", "Diffusion", "AdvectionDiffusion", "Dispersion", "HyperDiffusion", "GeneralLinearStepper",
          "NormalizedLinearStepper", "DifficultyLinearStepper", "DifficultyLinearStepperSimple"]


def const_sym_is_D_times(spec):
    return True


def random_state(rng, C, D, N, kind="smooth"):
    """real state (C, N, ..., N): 'smooth' = a few low modes, 'noise' = white noise (content up to Nyquist)"""
    shape = (C,) + (N,) * D
    if kind == "noise":
        return rng.normal(size=shape)
    x = np.stack(np.meshgrid(*[np.arange(N) / N] * D, indexing="ij"))
    u = np.zeros(shape)
    for c in range(C):
        for _ in range(3):
            k = rng.integers(-2, 3, D)
            ph = rng.uniform(0, 2 * np.pi)
            u[c] += rng.normal() * np.cos(2 * np.pi * np.tensordot(k, x, axes=1) + ph)
        u[c] += rng.normal() * 0.3
    return u
