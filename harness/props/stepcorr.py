"""model (driver `fullstep`) vs implementation `stepper(u)` for registry steppers"""
from __future__ import annotations

import numpy as np

from . import steppers as S
from . import util as U


def one_step(ctx, spec, u, what=None, tol=None):
    import jax.numpy as jnp
    stepper = spec.build()
    out_impl = np.asarray(stepper(jnp.asarray(u)))
    vals = ctx.driver.ask(spec.fullstep_line(u))
    out_model = np.asarray(vals, dtype=float).reshape(out_impl.shape)
    nontrivial = bool(np.count_nonzero(u) >= 2)
    ctx.count(spec.cell(), nontrivial)
    # both sides evaluate exp(z) in binary64: agreement is relative to (1 + |z|) ulps
    kw = {"rtol": (tol if tol is not None else 1e-9) + 4e-15 * spec.zmax()}
    ok = ctx.compare(what or f"{spec.name}.__call__ vs model fullstep", out_impl, out_model, cell=spec.cell(),
                     detail={"kwargs": {k: (v if isinstance(v, (int, float, bool, tuple)) else np.asarray(v).tolist())
                                        for k, v in spec.kwargs.items()},
                             "L": spec.L, "dt": spec.dt}, **kw)
    return ok, stepper, out_impl


def grid_sizes(tier, D):
    if tier == "quick":
        return {1: [8, 9, 12, 13], 2: [6, 7, 9], 3: [4, 5, 6]}[D]
    return {1: list(range(4, 27)), 2: list(range(4, 13)), 3: [4, 5, 6, 7, 8]}[D]


def sweep(ctx, names, orders_for=None, trials=1, kinds=("smooth", "noise"), Ds=(1, 2, 3), max_cases=None):
    rng = np.random.default_rng(ctx.seed + 17)
    R = S.registry()
    n = 0
    for name in names:
        gen = R[name]
        for D in Ds:
            Ns = grid_sizes(ctx.tier, D)
            for t in range(trials):
                N = int(Ns[(rng.integers(0, 1000) + t) % len(Ns)])
                orders = orders_for(name) if orders_for else [2]
                order = int(orders[rng.integers(0, len(orders))])
                st0 = rng.bit_generator.state
                S.FORCED_FLAGS.clear()
                del S.DRAWN_FLAGS[:]
                del S.DRAWN_CHOICES[:]
                spec = gen(rng, D, N, order)
                if spec is None:
                    continue
                kind = kinds[(t + D) % len(kinds)]
                u = S.random_state(rng, spec.C, D, N, kind)
                one_step(ctx, spec, u)
                # every combination of the boolean constructor options this class draws (conservative / single_channel /
                # spatial-mixing flags / injection on-off), same remaining configuration: a flag that is dropped or
                # swapped on the way into one interface must not depend on the luck of the seed
                names_drawn = list(dict.fromkeys(S.DRAWN_FLAGS))
                choices_drawn = list(dict.fromkeys(S.DRAWN_CHOICES))
                if t == 0 and (names_drawn or choices_drawn) and len(names_drawn) + len(choices_drawn) <= 3:
                    import itertools
                    st1 = rng.bit_generator.state
                    keys = names_drawn + [c[0] for c in choices_drawn]
                    domains = [(False, True)] * len(names_drawn) + [tuple(range(c[1])) for c in choices_drawn]
                    for combo in itertools.product(*domains):
                        rng.bit_generator.state = st0
                        S.FORCED_FLAGS.clear()
                        S.FORCED_FLAGS.update(dict(zip(keys, combo)))
                        sp2 = gen(rng, D, N, order)
                        if sp2 is None or repr(sorted((k, str(v)) for k, v in sp2.kwargs.items())) == repr(sorted((k, str(v)) for k, v in spec.kwargs.items())):
                            continue
                        u2 = S.random_state(rng, sp2.C, D, N, "noise" if D > 1 else kind)
                        one_step(ctx, sp2, u2)
                        ctx.bump("flag-combination")
                    S.FORCED_FLAGS.clear()
                    rng.bit_generator.state = st1
                ctx.bump(f"{name}")
                ctx.bump(f"D{D}")
                ctx.bump(f"Nmod12={N % 12}")
                ctx.bump(f"order{spec.order}")
                n += 1
                if n == 1:
                    ctx.sample({"stepper": name, "D": D, "N": N, "order": spec.order, "L": spec.L, "dt": spec.dt,
                                "kwargs": {k: str(v) for k, v in spec.kwargs.items()}, "state": kind})
                if max_cases and n >= max_cases:
                    return n
    return n


_SIG = None


def gensym_check(ctx, spec):
    """the linear operator REGENERATED from the class's `_build_linear_operator` source (Gen.Steppers.*, evaluated by the
    compiled driver at every stored mode with the attribute values of the built stepper) against the array the
    implementation builds: validates the translator itself, class by class"""
    global _SIG
    import json
    import os
    from exponax import spectral as sp
    import common as C
    if _SIG is None:
        _SIG = json.load(open(os.path.join(C.LEAN_DIR, "ExponaxModel", "Generated", "steppers_signatures.json")))
    st = spec.build()
    cls = type(st).__name__
    ent = _SIG.get(cls)
    if ent is None:
        ctx.mismatch("stepper class without a regenerated linear operator", {"class": cls})
        return False
    prov = ent.get("inherits", cls)
    ent = _SIG[prov]
    D, N, L = st.num_spatial_dims, st.num_points, float(st.domain_extent)
    dop = sp.build_derivative_operator(D, L, N)
    impl = np.asarray(st._build_linear_operator(dop))
    M = int(np.prod(impl.shape[1:]))
    toks = []
    for attr, kind in ent["params"]:
        val = getattr(st, attr)
        if kind == "K":
            a = np.asarray(val)
            if a.size == M and a.size > 1:
                toks.append("p " + U.cctoks(a.ravel()))
            else:
                toks.append("s " + U.ctoks(complex(a.reshape(-1)[0])))
        elif kind == "L" or kind.startswith("T"):
            a = np.asarray(val, dtype=complex).ravel()
            toks.append(f"v {a.size} " + U.cctoks(a))
        elif kind == "M":
            a = np.asarray(val, dtype=complex)
            toks.append(f"m {a.shape[0]} {a.shape[1]} " + U.cctoks(a.ravel()))
        elif kind == "B":
            toks.append(f"b {int(bool(val))}")
        elif kind == "N":
            toks.append(f"n {int(val)}")
        else:
            ctx.mismatch("unknown parameter kind in steppers_signatures.json", {"class": cls, "attr": attr, "kind": kind})
            return False
    line = f"gensym {prov} {D} {N} {U.ftok(2 * np.pi / L)} {len(toks)} " + " ".join(toks)
    vals = np.asarray(ctx.driver.ask_complex(line))
    Cc = impl.shape[0]
    model = vals.reshape(M, Cc).T.reshape(impl.shape)
    ctx.count(("gensym", cls, D, N % 2), True)
    return ctx.compare(f"{cls}._build_linear_operator vs regenerated Gen.Steppers.{prov}_linear_operator", impl, model,
                       cell=("gensym", cls, D), detail={"class": cls, "D": D, "N": N, "L": L})


def gensym_sweep(ctx, names, Ds=(1, 2, 3)):
    rng = np.random.default_rng(ctx.seed + 23)
    R = S.registry()
    for name in names:
        for D in Ds:
            N = int(rng.choice(grid_sizes("quick", D)))
            S.FORCED_FLAGS.clear()
            del S.DRAWN_FLAGS[:]
            del S.DRAWN_CHOICES[:]
            st0 = rng.bit_generator.state
            spec = R[name](rng, D, N, 2 if name not in S.LINEAR else 0)
            if spec is None:
                continue
            gensym_check(ctx, spec)
            drawn = list(dict.fromkeys(S.DRAWN_FLAGS))
            cdrawn = list(dict.fromkeys(S.DRAWN_CHOICES))
            if (drawn or cdrawn) and len(drawn) + len(cdrawn) <= 3:
                import itertools
                st1 = rng.bit_generator.state
                keys = drawn + [c[0] for c in cdrawn]
                domains = [(False, True)] * len(drawn) + [tuple(range(c[1])) for c in cdrawn]
                for combo in itertools.product(*domains):
                    rng.bit_generator.state = st0
                    S.FORCED_FLAGS.clear()
                    S.FORCED_FLAGS.update(dict(zip(keys, combo)))
                    sp2 = R[name](rng, D, N, 2 if name not in S.LINEAR else 0)
                    if sp2 is not None:
                        gensym_check(ctx, sp2)
                S.FORCED_FLAGS.clear()
                rng.bit_generator.state = st1
