"""C07 — steppers are differentiable with correct derivatives — PARTIAL (JAX's AD engine is external)."""
from __future__ import annotations

import numpy as np

from . import steppers as S


def correspondence(ctx):
    """linear steppers: the Jacobian is the linear map itself — jvp(u; v) must equal the MODEL step of v"""
    import jax
    import jax.numpy as jnp
    rng = np.random.default_rng(ctx.seed)
    R = S.registry()
    for name in S.LINEAR:
        for D in (1, 2, 3):
            N = {1: 10, 2: 6, 3: 5}[D] + int(rng.integers(0, 2))
            spec = R[name](rng, D, N, 0)
            st = spec.build()
            u = S.random_state(rng, 1, D, N, "noise")
            v = S.random_state(rng, 1, D, N, "noise")
            _, jv = jax.jvp(st, (jnp.asarray(u),), (jnp.asarray(v),))
            model = np.asarray(ctx.driver.ask(spec.fullstep_line(v)), dtype=float).reshape(v.shape)
            ctx.count(("jvp_linear", name, D), True)
            ctx.compare(f"jvp of {name} w.r.t. the state vs model step of the tangent", np.asarray(jv), model,
                        cell=("jvp_linear", name, D), rtol=1e-9 + 4e-15 * spec.zmax())
            # reverse mode is the adjoint: <w, J v> = <J^T w, v>
            w = S.random_state(rng, 1, D, N, "noise")
            _, vjp = jax.vjp(st, jnp.asarray(u))
            jtw = np.asarray(vjp(jnp.asarray(w))[0])
            lhs, rhs = float(np.sum(w * model)), float(np.sum(jtw * v))
            ctx.compare(f"vjp of {name} is the adjoint of the model step", [rhs], [lhs], cell=("vjp_linear", name, D),
                        rtol=1e-8 + 1e-13 * spec.zmax(), atol=1e-10 * float(np.linalg.norm(w) * np.linalg.norm(v)))
    ctx.sample({"linear_classes": S.LINEAR, "what": "jvp(u; v) == model_step(v); <w, Jv> == <J^T w, v>"})


ORDER = [2]   # ETDRK order used by the nonlinear entries of PARAMS (the oracle cycles 1..4)
PARAMS = {
    # name: (D, constructor(param_dict, dt), {param: value})
    "Diffusion": (2, lambda ex, p, dt: ex.stepper.Diffusion(2, 2.0, 8, dt, diffusivity=p["diffusivity"] * __import__("jax").numpy.ones(2)), {"diffusivity": 0.07}),
    "Advection": (1, lambda ex, p, dt: ex.stepper.Advection(1, 2.0, 12, dt, velocity=p["velocity"] * __import__("jax").numpy.ones(1)), {"velocity": 0.8}),
    "Dispersion": (1, lambda ex, p, dt: ex.stepper.Dispersion(1, 4.0, 11, dt, dispersivity=p["dispersivity"] * __import__("jax").numpy.ones(1)), {"dispersivity": 0.3}),
    "Wave": (1, lambda ex, p, dt: ex.stepper.Wave(1, 2.0, 11, dt, speed_of_sound=p["speed_of_sound"]), {"speed_of_sound": 1.3}),
    "Burgers": (1, lambda ex, p, dt: ex.stepper.Burgers(1, 3.0, 12, dt, diffusivity=p["diffusivity"], convection_scale=p["convection_scale"], order=ORDER[0]),
                {"diffusivity": 0.08, "convection_scale": 0.9}),
    # stiff: the fastest modes have exp(L dt) = 0 exactly in binary64 (nu k_max^2 dt > 745) — the step is finite and
    # so is every derivative (d exp(L dt) = L exp(L dt) d(dt) = 0 there)
    "Burgers@stiff": (1, lambda ex, p, dt: ex.stepper.Burgers(1, 1.0, 64, dt, diffusivity=p["diffusivity"], convection_scale=p["convection_scale"], order=ORDER[0]),
                      {"diffusivity": 0.5, "convection_scale": 0.9}),
    "KortewegDeVries": (1, lambda ex, p, dt: ex.stepper.KortewegDeVries(1, 8.0, 12, dt, dispersivity=p["dispersivity"], convection_scale=p["convection_scale"], order=ORDER[0]),
                        {"dispersivity": 0.4, "convection_scale": -2.0}),
    "KuramotoSivashinsky": (1, lambda ex, p, dt: ex.stepper.KuramotoSivashinsky(1, 20.0, 12, dt, gradient_norm_scale=p["gradient_norm_scale"], second_order_scale=p["second_order_scale"], order=ORDER[0]),
                            {"gradient_norm_scale": 0.8, "second_order_scale": 1.1}),
    "FisherKPP": (2, lambda ex, p, dt: ex.stepper.reaction.FisherKPP(2, 3.0, 6, dt, diffusivity=p["diffusivity"], reactivity=p["reactivity"], order=ORDER[0]),
                  {"diffusivity": 0.02, "reactivity": 1.2}),
    "GrayScott": (1, lambda ex, p, dt: ex.stepper.reaction.GrayScott(1, 2.0, 12, dt, feed_rate=p["feed_rate"], kill_rate=p["kill_rate"], order=ORDER[0]),
                  {"feed_rate": 0.04, "kill_rate": 0.06}),
    "GeneralNonlinearStepper": (1, lambda ex, p, dt: ex.stepper.generic.GeneralNonlinearStepper(
        1, 3.0, 12, dt, linear_coefficients=(0.0, p["a1"], p["a2"]), nonlinear_coefficients=(p["b0"], p["b1"], 0.1), order=ORDER[0]),
        {"a1": -0.3, "a2": 0.05, "b0": 0.2, "b1": -0.7}),
    "NavierStokesVorticity": (2, lambda ex, p, dt: ex.stepper.NavierStokesVorticity(2, 3.0, 8, dt, diffusivity=p["diffusivity"], drag=p["drag"], order=ORDER[0]),
                              {"diffusivity": 0.03, "drag": -0.05}),
    "NavierStokesVelocity": (3, lambda ex, p, dt: ex.stepper.NavierStokesVelocity(3, 3.0, 5, dt, diffusivity=p["diffusivity"], order=ORDER[0]),
                             {"diffusivity": 0.03}),
    # the drag of the Navier-Stokes classes AT ITS DEFAULT VALUE 0.0 (2-D vorticity, 3-D velocity, forced 3-D velocity)
    "NavierStokesVelocity@drag0": (3, lambda ex, p, dt: ex.stepper.NavierStokesVelocity(3, 3.0, 5, dt, diffusivity=p["diffusivity"], drag=p["drag"], order=ORDER[0]),
                                   {"diffusivity": 0.03, "drag": 0.0}),
    "KolmogorovFlowVelocity@drag0": (3, lambda ex, p, dt: ex.stepper.KolmogorovFlowVelocity(3, 3.0, 5, dt, diffusivity=p["diffusivity"], drag=p["drag"], order=ORDER[0]),
                                     {"diffusivity": 0.03, "drag": 0.0}),
    "NavierStokesVorticity@drag0": (2, lambda ex, p, dt: ex.stepper.NavierStokesVorticity(2, 3.0, 8, dt, diffusivity=p["diffusivity"], drag=p["drag"], order=ORDER[0]),
                                    {"diffusivity": 0.03, "drag": 0.0}),
    # coefficient lists in which terms are SWITCHED OFF by an exact zero (the usual way to write them): the derivative
    # with respect to a coefficient whose value is exactly 0.0 is as well defined as anywhere else
    "GeneralLinearStepper": (2, lambda ex, p, dt: ex.stepper.generic.GeneralLinearStepper(
        2, 3.0, 6, dt, linear_coefficients=(p["a0"], p["a1"], p["a2"], p["a3"])), {"a0": 0.0, "a1": -0.4, "a2": 0.02, "a3": 0.0}),
    "NormalizedLinearStepper": (1, lambda ex, p, dt: ex.stepper.generic.NormalizedLinearStepper(
        1, 12, normalized_linear_coefficients=(p["a0"] * dt, p["a1"] * dt, p["a2"] * dt, p["a3"] * dt)), {"a0": 0.0, "a1": -0.5, "a2": 0.0, "a3": 0.01}),
    "DifficultyLinearStepper": (1, lambda ex, p, dt: ex.stepper.generic.DifficultyLinearStepper(
        1, 12, linear_difficulties=(p["g0"] * dt, p["g1"] * dt, p["g2"] * dt)), {"g0": 0.0, "g1": 0.0, "g2": 3.0}),
    "GeneralNonlinearStepper@0": (1, lambda ex, p, dt: ex.stepper.generic.GeneralNonlinearStepper(
        1, 3.0, 12, dt, linear_coefficients=(p["a0"], 0.0, p["a2"]), nonlinear_coefficients=(p["b0"], -0.7, p["b2"]), order=ORDER[0]),
        {"a0": 0.0, "a2": 0.05, "b0": 0.0, "b2": 0.0}),
    "GeneralConvectionStepper@0": (1, lambda ex, p, dt: ex.stepper.generic.GeneralConvectionStepper(
        1, 3.0, 12, dt, linear_coefficients=(p["a0"], p["a1"], 0.03), convection_scale=p["b"], order=ORDER[0]),
        {"a0": 0.0, "a1": 0.0, "b": 0.0}),
}
CHANNELS = {"Wave": 2, "GrayScott": 2, "NavierStokesVelocity": 3, "NavierStokesVelocity@drag0": 3, "KolmogorovFlowVelocity@drag0": 3}


def probe_param_derivatives(name, seed, order=2):
    import jax
    import jax.numpy as jnp
    import exponax as ex
    ORDER[0] = int(order)
    rng = np.random.default_rng(seed)
    D, mk, p0 = PARAMS[name]
    dt0 = 0.05
    C = CHANNELS.get(name, 1)
    N = mk(ex, p0, dt0).num_points
    u = jnp.asarray(S.random_state(rng, C, D, N, "smooth"))
    res = {}

    def f_state(x):
        return mk(ex, p0, dt0)(x)
    base = np.asarray(f_state(u))
    sc = float(np.max(np.abs(base))) + 1e-12
    # state
    v = jnp.asarray(S.random_state(rng, C, D, N, "smooth"))
    _, jv = jax.jvp(f_state, (u,), (v,))
    h = 1e-5
    fd = (np.asarray(f_state(u + h * v)) - np.asarray(f_state(u - h * v))) / (2 * h)
    res["state"] = float(np.max(np.abs(np.asarray(jv) - fd))) / sc
    w = jnp.asarray(S.random_state(rng, C, D, N, "smooth"))
    _, vjp = jax.vjp(f_state, u)
    res["adjoint"] = abs(float(jnp.sum(w * jv)) - float(jnp.sum(vjp(w)[0] * v))) / (float(jnp.linalg.norm(w)) * float(jnp.linalg.norm(v)) * max(1.0, sc))
    finite = bool(np.all(np.isfinite(np.asarray(jv))) and np.all(np.isfinite(np.asarray(vjp(w)[0]))))
    # dt
    def f_dt(dt):
        return mk(ex, p0, dt)(u)
    _, jd = jax.jvp(f_dt, (jnp.asarray(dt0),), (jnp.asarray(1.0),))
    hd = 1e-6
    fd = (np.asarray(f_dt(dt0 + hd)) - np.asarray(f_dt(dt0 - hd))) / (2 * hd)
    scd = float(np.max(np.abs(fd))) + 1e-9
    res["dt"] = float(np.max(np.abs(np.asarray(jd) - fd))) / scd
    finite = finite and bool(np.all(np.isfinite(np.asarray(jd))))
    # reverse mode w.r.t. dt: grad of <w, step> equals <w, d step / d dt>
    gd = jax.grad(lambda dt: jnp.sum(w * f_dt(dt)))(jnp.asarray(dt0))
    res["dt:reverse"] = abs(float(gd) - float(jnp.sum(w * jd))) / (abs(float(jnp.sum(w * jd))) + scd * float(jnp.linalg.norm(w)) * 1e-3 + 1e-12)
    finite = finite and bool(np.isfinite(float(gd)))
    # coefficients
    for key, val in p0.items():
        def f_p(x, key=key):
            q = dict(p0)
            q[key] = x
            return mk(ex, q, dt0)(u)
        _, jp = jax.jvp(f_p, (jnp.asarray(val),), (jnp.asarray(1.0),))
        hp = 1e-6 * max(1.0, abs(val))
        fd = (np.asarray(f_p(val + hp)) - np.asarray(f_p(val - hp))) / (2 * hp)
        scp = float(np.max(np.abs(fd))) + 1e-9
        res[f"coef:{key}"] = float(np.max(np.abs(np.asarray(jp) - fd))) / scp
        finite = finite and bool(np.all(np.isfinite(np.asarray(jp))))
        gp = jax.grad(lambda x: jnp.sum(w * f_p(x)))(jnp.asarray(val))
        res[f"coef:{key}:reverse"] = abs(float(gp) - float(jnp.sum(w * jp))) / (abs(float(jnp.sum(w * jp))) + scp * float(jnp.linalg.norm(w)) * 1e-3 + 1e-12)
        finite = finite and bool(np.isfinite(float(gp)))
    # through a rollout
    def f_roll(x):
        return ex.rollout(mk(ex, p0, dt0), 3)(x)
    _, jr = jax.jvp(f_roll, (u,), (v,))
    fd = (np.asarray(f_roll(u + h * v)) - np.asarray(f_roll(u - h * v))) / (2 * h)
    res["rollout"] = float(np.max(np.abs(np.asarray(jr) - fd))) / (float(np.max(np.abs(fd))) + 1e-12)
    bad = {k: x for k, x in res.items() if not x <= (1e-9 if k == "adjoint" else (1e-8 if k.endswith(":reverse") else 2e-5))}
    return {"ok": bool(not bad and finite), "bad": bad, "finite": finite, "all": res}


def probe_guarded_points(name, D, N, order, seed):
    """derivatives at the states where a naive implementation divides by zero or takes the root of zero: the zero
    state and a spatially constant state (zero gradient everywhere, only the mean mode populated); they must be finite,
    the jvp must match central differences (the step is a smooth map there) and the vjp must be its adjoint"""
    import jax
    import jax.numpy as jnp
    rng = np.random.default_rng(seed)
    spec = S.registry()[name](rng, D, N, order)
    if spec is None:
        return {"ok": True, "skipped": "dimension"}
    st = spec.build()
    shape = (spec.C,) + (N,) * D
    v = jnp.asarray(S.random_state(rng, spec.C, D, N, "smooth"))
    w = jnp.asarray(S.random_state(rng, spec.C, D, N, "smooth"))
    bad = {}
    consts = rng.uniform(0.3, 1.2, size=(spec.C,) + (1,) * D)
    for label, u in (("zero", jnp.zeros(shape)), ("constant", jnp.asarray(np.broadcast_to(consts, shape).copy()))):
        y, jv = jax.jvp(st, (u,), (v,))
        _, vjp = jax.vjp(st, u)
        jtw = vjp(w)[0]
        if not (np.all(np.isfinite(np.asarray(y)))):
            continue   # the step itself is not finite here: a statement about the value (C19), not about its derivative
        if not (np.all(np.isfinite(np.asarray(jv))) and np.all(np.isfinite(np.asarray(jtw)))):
            bad[f"{label}:non-finite"] = float("nan")
            continue
        h = 1e-5
        fd = (np.asarray(st(u + h * v)) - np.asarray(st(u - h * v))) / (2 * h)
        sc = float(np.max(np.abs(fd))) + 1e-9
        e = float(np.max(np.abs(np.asarray(jv) - fd))) / sc
        if not e <= 2e-5:
            bad[f"{label}:jvp-vs-central-differences"] = e
        a = abs(float(jnp.sum(w * jv)) - float(jnp.sum(jtw * v))) / (float(jnp.linalg.norm(w)) * float(jnp.linalg.norm(v)) + 1e-300)
        if not a <= 1e-9 * max(1.0, sc):
            bad[f"{label}:adjoint"] = a
    return {"ok": not bad, "bad": bad, "kwargs": {k: str(x) for k, x in spec.kwargs.items()}}


GUARDED_ALWAYS = ["KuramotoSivashinsky", "GeneralGradientNormStepper", "GeneralNonlinearStepper", "NavierStokesVorticity",
                  "Burgers", "FisherKPP"]


def probe_wrapper_derivatives(kind, seed, order=2):
    """derivatives THROUGH the wrappers and their compositions — ForcedStepper, RepeatedStepper, ForcedStepper of a
    RepeatedStepper, a forced rollout with a forcing trajectory: with respect to dt, the state, the forcing and one PDE
    coefficient, forward mode against central differences and reverse mode against forward mode"""
    import jax
    import jax.numpy as jnp
    import exponax as ex
    rng = np.random.default_rng(seed)
    N, nsub, dt0, nu0 = 12, 3, 0.04, 0.05
    u = jnp.asarray(S.random_state(rng, 1, 1, N, "smooth"))
    f = jnp.asarray(S.random_state(rng, 1, 1, N, "smooth")) * 0.7
    fs = jnp.stack([f, 0.5 * f + 0.1, -f])
    w = jnp.asarray(S.random_state(rng, 1, 1, N, "smooth"))

    def inner(dt, nu):
        return ex.stepper.Burgers(1, 3.0, N, dt, diffusivity=nu, order=order)

    def run(dt, nu, x, g):
        if kind == "forced":
            return ex.ForcedStepper(inner(dt, nu))(x, g)
        if kind == "repeated":
            return ex.RepeatedStepper(inner(dt, nu), nsub)(x)
        if kind == "forced_repeated":
            return ex.ForcedStepper(ex.RepeatedStepper(inner(dt, nu), nsub))(x, g)
        if kind == "repeated_forced_rollout":
            return ex.rollout(ex.ForcedStepper(ex.RepeatedStepper(inner(dt, nu), 2)), 3, takes_aux=True, constant_aux=False)(x, fs * (g[0, 0] / f[0, 0]))
        raise KeyError(kind)
    res, finite = {}, True
    args0 = (jnp.asarray(dt0), jnp.asarray(nu0), u, f)
    tangents = {"dt": (1.0, 0.0, 0 * u, 0 * f), "coef": (0.0, 1.0, 0 * u, 0 * f),
                "state": (0.0, 0.0, jnp.asarray(S.random_state(rng, 1, 1, N, "smooth")), 0 * f),
                "forcing": (0.0, 0.0, 0 * u, jnp.asarray(S.random_state(rng, 1, 1, N, "smooth")))}
    for key, tg in tangents.items():
        tg = tuple(jnp.asarray(t, dtype=a.dtype) for t, a in zip(tg, args0))
        _, jv = jax.jvp(run, args0, tg)
        h = 1e-6
        plus = run(*[a + h * t for a, t in zip(args0, tg)])
        minus = run(*[a - h * t for a, t in zip(args0, tg)])
        fd = (np.asarray(plus) - np.asarray(minus)) / (2 * h)
        sc = float(np.max(np.abs(fd))) + 1e-9
        res[key] = float(np.max(np.abs(np.asarray(jv) - fd))) / sc
        ww = jnp.broadcast_to(w, jv.shape)
        gr = jax.grad(lambda *a: jnp.sum(ww * run(*a)), argnums=(0, 1, 2, 3))(*args0)
        rev = sum(float(jnp.sum(g_ * t_)) for g_, t_ in zip(gr, tg))
        fwd = float(jnp.sum(ww * jv))
        res[key + ":reverse"] = abs(rev - fwd) / (abs(fwd) + sc * float(jnp.linalg.norm(ww)) * 1e-3 + 1e-12)
        finite = finite and bool(np.all(np.isfinite(np.asarray(jv)))) and bool(np.isfinite(rev))
    bad = {k: x for k, x in res.items() if not x <= (1e-8 if k.endswith(":reverse") else 2e-5)}
    return {"ok": bool(not bad and finite), "bad": bad, "finite": finite, "all": res}


def oracle(ctx, deep):
    fails = []
    for kind in ("forced", "repeated", "forced_repeated", "repeated_forced_rollout"):
        for order in ([1 + (ctx.seed % 4)] if not deep else [1, 2, 3, 4]):
            r = probe_wrapper_derivatives(kind, ctx.seed, order)
            ctx.count(("oracle_wrapper_derivatives", kind, order))
            if not r["ok"]:
                for k in (r["bad"] or {"finite": 0}):
                    fails.append({"key": f"C07:wrapper:{kind}:{k}", "what": f"derivative '{k}' through the {kind} composition of wrappers (Burgers, order {order}) disagrees with central differences / forward mode, or is not finite: {r['bad']}",
                                  "probe": "wrapper_derivatives", "args": {"kind": kind, "seed": ctx.seed, "order": order}, "observed": r})
    reg = list(S.registry().keys())
    gnames = reg if deep else list(dict.fromkeys(GUARDED_ALWAYS + [n for i, n in enumerate(reg) if (i + ctx.seed) % 4 == 0]))
    for idx, name in enumerate(gnames):
        D = 2 if "Vorticity" in name else (3 if "Velocity" in name else (idx % 2) + 1)
        N = {1: 10, 2: 6, 3: 5}[D]
        order = 0 if name in S.LINEAR else (idx % 4) + 1
        r = probe_guarded_points(name, D, N, order, ctx.seed + idx)
        ctx.count(("oracle_guarded", name, D, order))
        if not r["ok"]:
            for k in r["bad"]:
                fails.append({"key": f"C07:guarded:{name}:{k.split(':')[1]}", "what": f"{name} (D={D}, N={N}, order={order}): derivative at the {k.split(':')[0]} state: {k.split(':')[1]} ({r['bad'][k]})",
                              "probe": "guarded", "args": {"name": name, "D": D, "N": N, "order": order, "seed": ctx.seed + idx}, "observed": r})
    names = list(PARAMS.keys())
    if not deep:
        names = [n for i, n in enumerate(names) if (i + ctx.seed) % 2 == 0] + ["Wave", "NavierStokesVorticity", "GeneralLinearStepper",
                                                                                 "NormalizedLinearStepper", "GeneralNonlinearStepper@0"]
        for nm, od in (("Burgers", 1), ("KuramotoSivashinsky", 1), ("KortewegDeVries", 4), ("Burgers@stiff", 3), ("Burgers@stiff", 2 + 2 * (ctx.seed % 2)),
                       ("NavierStokesVelocity@drag0", 2), ("KolmogorovFlowVelocity@drag0", 1 + ctx.seed % 4), ("NavierStokesVorticity@drag0", 1 + (ctx.seed + 1) % 4)):   # fixed: every order family appears
            r = probe_param_derivatives(nm, ctx.seed, od)
            ctx.count(("oracle_derivatives", nm, od))
            if not r["ok"]:
                for k in (r["bad"] or {"finite": 0}):
                    fails.append({"key": f"C07:{nm}:{k}", "what": f"{nm} (order {od}): derivative '{k}' disagrees with central differences / adjoint identity / forward mode, or is not finite: {r['bad']}, finite={r['finite']}",
                                  "probe": "param_derivatives", "args": {"name": nm, "seed": ctx.seed, "order": od}, "observed": r})
    for i, name in enumerate(dict.fromkeys(names)):
        for order in ([(i + ctx.seed) % 4 + 1] if not deep else [1, 2, 3, 4]):
            r = probe_param_derivatives(name, ctx.seed, order)
            ctx.count(("oracle_derivatives", name, order))
            if not r["ok"]:
                for k in (r["bad"] or {"finite": 0}):
                    fails.append({"key": f"C07:{name}:{k}", "what": f"{name} (order {order}): derivative '{k}' disagrees with central differences / adjoint identity / forward mode, or is not finite: {r['bad']}, finite={r['finite']}",
                                  "probe": "param_derivatives", "args": {"name": name, "seed": ctx.seed, "order": order}, "observed": r})
    seen, out = set(), []
    for f in fails:
        if f["key"] not in seen:
            seen.add(f["key"])
            out.append(f)
    return out


def replay(probe, args):
    return {"param_derivatives": probe_param_derivatives, "guarded": probe_guarded_points,
            "wrapper_derivatives": probe_wrapper_derivatives}[probe](**args)
