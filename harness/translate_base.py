#!/usr/bin/env python3
"""
Translator plug-in: the glue of `exponax/_base_stepper.py` — `BaseStepper.__init__` (attribute copies, `dx`, the
arguments of `build_derivative_operator`, what the two abstract builders receive, the ORDER DISPATCH to the ETDRK
classes with the arguments each constructor call binds — through the constructors' real signatures, defaults
included), `BaseStepper.step_fourier`, `BaseStepper.step` (fft → step_fourier → ifft with the keyword arguments the
source passes) and `BaseStepper.__call__` (guard, then `step`); plus two small pieces of glue that no other plug-in
reads: `exponax/_utils.py::build_ic_set` (a `lax.scan` that threads the key) and `exponax/metrics/_utils.py::
mean_metric`.

Output: `Generated/BaseStepperGen.lean`, rewritten on every run.  The vocabulary is closed: any statement outside it
is a `TranslateError` (a broken obligation).  `Proofs/BaseStepperGenEq.lean` proves the regenerated definitions equal
to the hand-written assembly (`Interface.etdrkStep`, the model transforms) that the older theorems and the compiled
driver use.
"""
import ast
import json
import os
import re
import sys

HERE = os.path.dirname(os.path.abspath(__file__))
if HERE not in sys.path:
    sys.path.insert(0, HERE)
import translate as T  # noqa: E402

TranslateError = T.TranslateError
NAME = "BaseStepperGen"
LAST_FACTS = {}   # what the last run read off the source (used by the correspondence to validate the translator's reading)

NAT_PARAMS = {"num_spatial_dims", "num_points", "num_channels", "order", "num_circle_points"}
ETDRK_INIT_KINDS = {"dt": "K", "linear_operator": "K", "nonlinear_fun": "F", "num_circle_points": "N",
                    "circle_radius": "K"}


def strip_doc(body):
    return [s for s in body if not (isinstance(s, ast.Expr) and isinstance(s.value, ast.Constant)
                                    and isinstance(s.value.value, str))]


def q(s):
    return '"' + s.replace("\\", "\\\\").replace('"', '\\"') + '"'


class Val:
    def __init__(self, lean, kind):
        self.lean, self.kind = lean, kind   # kind: 'N' (Nat), 'K' (scalar), 'F' (nonlinear function)


class ExprTr:
    """scalar expressions over the constructor parameters (`a.<field>`), literals and + - * /"""

    def __init__(self, where, env):
        self.where, self.env = where, dict(env)

    def err(self, msg):
        return TranslateError(f"{self.where}: {msg}")

    def toK(self, v):
        if v.kind == "K":
            return v
        if v.kind == "N":
            return Val(f"(NatCast.natCast ({v.lean}) : K)", "K")
        raise self.err("a function where a number is expected")

    def expr(self, n):
        if isinstance(n, ast.Name):
            if n.id not in self.env:
                raise self.err(f"unknown name `{n.id}`")
            return self.env[n.id]
        if isinstance(n, ast.Constant):
            v = n.value
            if isinstance(v, bool) or not isinstance(v, (int, float)):
                raise self.err(f"literal {v!r} outside the vocabulary")
            if isinstance(v, int):
                if v < 0:
                    raise self.err("negative integer literal")
                return Val(str(v), "N")
            fr = float(v).as_integer_ratio()
            if fr[0] < 0:
                raise self.err("negative float literal")
            if fr[1] == 1:
                return Val(f"(lit {fr[0]} : K)", "K")
            return Val(f"((lit {fr[0]} : K) / (lit {fr[1]} : K))", "K")
        if isinstance(n, ast.BinOp) and isinstance(n.op, (ast.Add, ast.Sub, ast.Mult, ast.Div)):
            a, b = self.expr(n.left), self.expr(n.right)
            op = {ast.Add: "+", ast.Sub: "-", ast.Mult: "*", ast.Div: "/"}[type(n.op)]
            if a.kind == "N" and b.kind == "N" and not isinstance(n.op, (ast.Div, ast.Sub)):
                return Val(f"({a.lean} {op} {b.lean})", "N")
            a, b = self.toK(a), self.toK(b)
            return Val(f"({a.lean} {op} {b.lean})", "K")
        if isinstance(n, ast.UnaryOp) and isinstance(n.op, ast.USub):
            a = self.toK(self.expr(n.operand))
            return Val(f"(-{a.lean})", "K")
        raise self.err(f"expression `{ast.unparse(n)}` outside the vocabulary")


def signature(fn, where):
    """[(name, default-node-or-None, kwonly)] without self; *args / **kwargs are refused"""
    a = fn.args
    if a.vararg or a.kwarg or a.posonlyargs:
        raise TranslateError(f"{where}: *args / **kwargs / positional-only parameters")
    pos = list(a.args)
    defs = [None] * (len(pos) - len(a.defaults)) + list(a.defaults)
    out = [(p.arg, d, False) for p, d in zip(pos, defs)]
    out += [(p.arg, d, True) for p, d in zip(a.kwonlyargs, a.kw_defaults)]
    return [x for x in out if x[0] != "self"]


def bind_call(call, sig, where):
    """bind the arguments of `call` to the parameters of `sig`: name -> ast expression (defaults filled in)"""
    if any(isinstance(x, ast.Starred) for x in call.args) or any(k.arg is None for k in call.keywords):
        raise TranslateError(f"{where}: star-arguments in the call")
    positional = [s for s in sig if not s[2]]
    if len(call.args) > len(positional):
        raise TranslateError(f"{where}: too many positional arguments")
    bound = {}
    for (pn, _, _), arg in zip(positional, call.args):
        bound[pn] = arg
    names = [s[0] for s in sig]
    for k in call.keywords:
        if k.arg not in names:
            raise TranslateError(f"{where}: unexpected keyword `{k.arg}`")
        if k.arg in bound:
            raise TranslateError(f"{where}: `{k.arg}` given twice")
        bound[k.arg] = k.value
    defaulted = []
    for pn, d, _ in sig:
        if pn not in bound:
            if d is None:
                raise TranslateError(f"{where}: required parameter `{pn}` not passed")
            bound[pn] = d
            defaulted.append(pn)
    return bound, defaulted


def etdrk_generated_signatures():
    """from the regenerated Generated/Etdrk text: per order the parameter list of `E<k>step` and the attribute defs"""
    text = T.translate_etdrk({})
    steps, attrs = {}, {}
    for m in re.finditer(r"-- parameters \(in order\): ([^\n]*)\ndef (E(\d)step)\b", text):
        steps[int(m.group(3))] = m.group(1).split()
    for m in re.finditer(r"^def (E(\d)(_[A-Za-z0-9_]+)) \{K : Type\}[^\n]*?\(dt : K\) \(linear_operator : K\) "
                         r"\(num_circle_points : Nat\) \(circle_radius : K\) : K :=", text, flags=re.M):
        attrs.setdefault(int(m.group(2)), []).append(m.group(3))
    if not re.search(r"^def exp_term \{K : Type\}[^\n]*\(dt : K\) \(linear_operator : K\) : K :=", text, flags=re.M):
        raise TranslateError("regenerated Etdrk: `exp_term dt linear_operator` not found")
    return steps, attrs


def translate_base(out_hashes):
    path = os.path.join(T.REPO, "exponax", "_base_stepper.py")
    src = open(path).read()
    tree = ast.parse(src)
    cls = T.find_class(tree, "BaseStepper")
    init = T.find_func(cls.body, "__init__")
    step = T.find_func(cls.body, "step")
    stepf = T.find_func(cls.body, "step_fourier")
    call = T.find_func(cls.body, "__call__")
    for nm, fn in (("__init__", init), ("step", step), ("step_fourier", stepf), ("__call__", call)):
        out_hashes[f"_base_stepper.py::BaseStepper.{nm}"] = T.src_hash(fn, src)

    # imports of the module: which `fft`, `ifft`, `build_derivative_operator`, `ETDRK?` are meant
    imported = {}
    for n in tree.body:
        if isinstance(n, ast.ImportFrom):
            for al in n.names:
                imported[al.asname or al.name] = ("." * n.level + (n.module or ""), al.name)
    for need, mod in (("fft", "._spectral"), ("ifft", "._spectral"), ("build_derivative_operator", "._spectral")):
        if imported.get(need) != (mod, need):
            raise TranslateError(f"_base_stepper.py: `{need}` is not imported from {mod} (found {imported.get(need)})")

    sig_init = signature(init, "BaseStepper.__init__")
    params = [s[0] for s in sig_init]
    env = {p: Val(f"a.{p}", "N" if p in NAT_PARAMS else "K") for p in params}
    tr = ExprTr("BaseStepper.__init__", env)

    # ---- __init__ ------------------------------------------------------------------------------------------
    copies, attr_defs, other_locals, builders = [], [], [], []
    dop_local, dop_args, dispatch = None, None, None
    spectral_src = open(os.path.join(T.REPO, "exponax", "_spectral.py")).read()
    bdo = T.find_func(ast.parse(spectral_src).body, "build_derivative_operator")
    sig_bdo = signature(bdo, "build_derivative_operator")
    for s in strip_doc(init.body):
        if isinstance(s, ast.Assign) and len(s.targets) == 1 and isinstance(s.targets[0], ast.Attribute) \
                and isinstance(s.targets[0].value, ast.Name) and s.targets[0].value.id == "self":
            at = s.targets[0].attr
            if at == "_integrator":
                raise TranslateError("BaseStepper.__init__: `self._integrator` assigned outside the order dispatch")
            v = tr.expr(s.value)
            if isinstance(s.value, ast.Name):
                copies.append((at, s.value.id))
            attr_defs.append((at, v, ast.unparse(s.value)))
            continue
        if isinstance(s, ast.Assign) and len(s.targets) == 1 and isinstance(s.targets[0], ast.Name):
            name, val = s.targets[0].id, s.value
            if isinstance(val, ast.Call) and isinstance(val.func, ast.Name) and val.func.id == "build_derivative_operator":
                bound, _ = bind_call(val, sig_bdo, "BaseStepper.__init__: build_derivative_operator(…)")
                idx = bound.get("indexing")
                if not (isinstance(idx, ast.Constant) and isinstance(idx.value, str)):
                    raise TranslateError("BaseStepper.__init__: `indexing` of build_derivative_operator is not a literal")
                d_, l_, n_ = (tr.expr(bound[k]) for k in ("num_spatial_dims", "domain_extent", "num_points"))
                if d_.kind != "N" or n_.kind != "N":
                    raise TranslateError("BaseStepper.__init__: non-integer dimension / resolution for the derivative operator")
                dop_local = name
                dop_args = (d_.lean, tr.toK(l_).lean, n_.lean, idx.value)
                continue
            if isinstance(val, ast.Call) and isinstance(val.func, ast.Attribute) and isinstance(val.func.value, ast.Name) \
                    and val.func.value.id == "self" and val.func.attr in ("_build_linear_operator", "_build_nonlinear_fun"):
                if val.keywords or len(val.args) != 1 or not isinstance(val.args[0], ast.Name):
                    raise TranslateError(f"BaseStepper.__init__: unexpected arguments of self.{val.func.attr}(…)")
                if val.args[0].id != dop_local:
                    raise TranslateError(f"BaseStepper.__init__: self.{val.func.attr} does not receive the derivative operator")
                builders.append((name, val.func.attr))
                tr.env[name] = Val(name, "K" if val.func.attr == "_build_linear_operator" else "F")
                continue
            other_locals.append((name, ast.unparse(val)))
            continue
        if isinstance(s, ast.If):
            t = ast.unparse(s.test)
            if t.startswith("order =="):
                if dispatch is not None:
                    raise TranslateError("BaseStepper.__init__: two order dispatches")
                dispatch = s
                continue
            if len(s.body) == 1 and isinstance(s.body[0], ast.Raise) and not s.orelse:
                continue   # a guard: read by translate_guards.py (Generated/GuardsGen.lean)
        raise TranslateError(f"BaseStepper.__init__: statement outside the vocabulary: `{ast.unparse(s)[:80]}`")
    if dop_args is None:
        raise TranslateError("BaseStepper.__init__: no call of build_derivative_operator")
    lin_local = [n for n, b in builders if b == "_build_linear_operator"]
    non_local = [n for n, b in builders if b == "_build_nonlinear_fun"]
    if len(lin_local) != 1 or len(non_local) != 1:
        raise TranslateError("BaseStepper.__init__: the two abstract builders are not called exactly once each")
    if dispatch is None:
        raise TranslateError("BaseStepper.__init__: no order dispatch")

    # ---- the order dispatch ----------------------------------------------------------------------------------
    steps, eattrs = etdrk_generated_signatures()
    branches = []   # (order, class name, lean body, comment)
    node = dispatch
    while True:
        test = node.test
        if not (isinstance(test, ast.Compare) and isinstance(test.left, ast.Name) and test.left.id == "order"
                and len(test.ops) == 1 and isinstance(test.ops[0], ast.Eq) and isinstance(test.comparators[0], ast.Constant)
                and isinstance(test.comparators[0].value, int) and not isinstance(test.comparators[0].value, bool)):
            raise TranslateError(f"BaseStepper.__init__: dispatch test `{ast.unparse(test)}` is not `order == <int>`")
        k = test.comparators[0].value
        if len(node.body) != 1 or not (isinstance(node.body[0], ast.Assign) and ast.unparse(node.body[0].targets[0]) == "self._integrator"
                                       and isinstance(node.body[0].value, ast.Call) and isinstance(node.body[0].value.func, ast.Name)):
            raise TranslateError(f"BaseStepper.__init__: branch `order == {k}` is not `self._integrator = <Class>(…)`")
        c = node.body[0].value
        cname = c.func.id
        m = re.fullmatch(r"ETDRK(\d)", cname)
        if not m or imported.get(cname, (None, None))[1] != cname:
            raise TranslateError(f"BaseStepper.__init__: integrator class `{cname}` is not an imported ETDRK class")
        p = int(m.group(1))
        epath = os.path.join(T.REPO, "exponax", "etdrk", f"_etdrk_{p}.py")
        esrc = open(epath).read()
        ecls = T.find_class(ast.parse(esrc), cname)
        einit = T.find_func(ecls.body, "__init__")
        esig = signature(einit, f"{cname}.__init__")
        out_hashes[f"etdrk/_etdrk_{p}.py::{cname}.__init__.signature"] = \
            T.hashlib.sha256(ast.unparse(einit.args).encode()).hexdigest()[:16]
        for pn, _, _ in esig:
            if pn not in ETDRK_INIT_KINDS:
                raise TranslateError(f"{cname}.__init__: parameter `{pn}` outside the vocabulary")
        bound, defaulted = bind_call(c, esig, f"BaseStepper.__init__: {cname}(…)")
        etr = ExprTr(f"BaseStepper.__init__: {cname}(…)", tr.env)
        vals = {}
        for pn, e in bound.items():
            kind = ETDRK_INIT_KINDS[pn]
            if pn in defaulted:
                v = ExprTr(f"{cname}.__init__ default of {pn}", {}).expr(e)
            else:
                v = etr.expr(e)
            if kind == "F":
                if v.kind != "F":
                    raise TranslateError(f"{cname}(…): `{pn}` is not the nonlinear function")
                vals[pn] = v.lean
            elif kind == "N":
                if v.kind != "N":
                    raise TranslateError(f"{cname}(…): `{pn}` is not an integer expression")
                vals[pn] = v.lean
            else:
                vals[pn] = etr.toK(v).lean
        lo = lin_local[0]
        # the linear operator reaches the constructor as an ARRAY: every stored coefficient is computed entrywise
        def entry(f_text):
            return f"(entrywise (fun {lo} => {f_text}))"
        if p not in steps:
            raise TranslateError(f"regenerated Etdrk: no E{p}step")
        args = []
        for sp in steps[p]:
            if sp == "_exp_term":
                args.append(entry(f"Exponax.Gen.Etdrk.exp_term {vals['dt']} {vals['linear_operator']}"))
            elif sp == "_nonlinear_fun":
                if "nonlinear_fun" not in vals:
                    raise TranslateError(f"{cname}: the step uses a nonlinear function the constructor does not take")
                args.append(vals["nonlinear_fun"])
            elif sp == "u_hat":
                args.append("u_hat")
            else:
                if sp not in eattrs.get(p, []):
                    raise TranslateError(f"regenerated Etdrk: no definition E{p}{sp}")
                args.append(entry(f"Exponax.Gen.Etdrk.E{p}{sp} {vals['dt']} {vals['linear_operator']} "
                                  f"{vals['num_circle_points']} {vals['circle_radius']}"))
        body = f"some (Exponax.Gen.Etdrk.E{p}step " + " ".join(args) + ")"
        comment = f"order == {k}: self._integrator = {ast.unparse(c)}" + \
                  (f"   [not passed, constructor defaults: {', '.join(defaulted)}]" if defaulted else "")
        branches.append((k, cname, body, comment))
        if len(node.orelse) == 1 and isinstance(node.orelse[0], ast.If):
            node = node.orelse[0]
            continue
        if len(node.orelse) == 1 and isinstance(node.orelse[0], ast.Raise):
            break
        raise TranslateError("BaseStepper.__init__: the order dispatch does not end in `else: raise …`")

    # ---- step_fourier ----------------------------------------------------------------------------------------
    body = strip_doc(stepf.body)
    if [ast.unparse(s) for s in body] != ["return self._integrator.step_fourier(u_hat)"] \
            or [a.arg for a in stepf.args.args] != ["self", "u_hat"]:
        raise TranslateError("BaseStepper.step_fourier is not `return self._integrator.step_fourier(u_hat)`")

    # ---- step ------------------------------------------------------------------------------------------------
    copy_of = dict(copies)
    sp_tree = ast.parse(spectral_src)
    sig_fft = signature(T.find_func(sp_tree.body, "fft"), "fft")
    sig_ifft = signature(T.find_func(sp_tree.body, "ifft"), "ifft")

    def self_attr(e, where):
        """`self.<attr>` that __init__ copies from a constructor parameter"""
        if isinstance(e, ast.Attribute) and isinstance(e.value, ast.Name) and e.value.id == "self" and e.attr in copy_of:
            return env[copy_of[e.attr]]
        raise TranslateError(f"{where}: `{ast.unparse(e)}` is not an attribute copied from a constructor parameter")

    def opt_nat(bound, key, where):
        e = bound[key]
        if isinstance(e, ast.Constant) and e.value is None:
            return "none"
        v = self_attr(e, where)
        if v.kind != "N":
            raise TranslateError(f"{where}: `{key}` is not an integer attribute")
        return f"(some {v.lean})"

    if [a.arg for a in step.args.args] != ["self", "u"]:
        raise TranslateError("BaseStepper.step: parameters are not (self, u)")
    lines, kinds = [], {"u": "grid"}
    ret = None
    for s in strip_doc(step.body):
        if isinstance(s, ast.Return):
            if not isinstance(s.value, ast.Name) or kinds.get(s.value.id) != "grid":
                raise TranslateError("BaseStepper.step: does not return a physical-space array")
            ret = s.value.id
            break
        if not (isinstance(s, ast.Assign) and len(s.targets) == 1 and isinstance(s.targets[0], ast.Name)
                and isinstance(s.value, ast.Call)):
            raise TranslateError(f"BaseStepper.step: statement outside the vocabulary: `{ast.unparse(s)[:80]}`")
        tgt, c = s.targets[0].id, s.value
        fn = ast.unparse(c.func)
        if fn == "fft":
            bound, _ = bind_call(c, sig_fft, "BaseStepper.step: fft(…)")
            x = bound["field"] if "field" in bound else None
            if not isinstance(x, ast.Name) or kinds.get(x.id) != "grid":
                raise TranslateError("BaseStepper.step: fft is not applied to a physical-space array")
            lines.append((tgt, f"Exponax.Gen.SpectralOps.fft [a.num_channels] a.num_spatial_dims a.num_points "
                               f"{opt_nat(bound, 'num_spatial_dims', 'fft')} {x.id}"))
            kinds[tgt] = "modes"
        elif fn == "ifft":
            bound, _ = bind_call(c, sig_ifft, "BaseStepper.step: ifft(…)")
            x = bound.get("field_hat")
            if not isinstance(x, ast.Name) or kinds.get(x.id) != "modes":
                raise TranslateError("BaseStepper.step: ifft is not applied to a spectrum")
            lines.append((tgt, f"Exponax.Gen.SpectralOps.ifft [a.num_channels] a.num_spatial_dims a.num_points "
                               f"{opt_nat(bound, 'num_spatial_dims', 'ifft')} {opt_nat(bound, 'num_points', 'ifft')} {x.id}"))
            kinds[tgt] = "grid"
        elif fn == "self.step_fourier":
            if c.keywords or len(c.args) != 1 or not isinstance(c.args[0], ast.Name) or kinds.get(c.args[0].id) != "modes":
                raise TranslateError("BaseStepper.step: self.step_fourier is not applied to a spectrum")
            lines.append((tgt, f"step_fourier {c.args[0].id}"))
            kinds[tgt] = "modes"
        else:
            raise TranslateError(f"BaseStepper.step: call `{fn}` outside the vocabulary")
    if ret is None:
        raise TranslateError("BaseStepper.step: no return")
    fft_names = [x for x in ("fft", "ifft")]
    for need in fft_names:
        want = [s_[0] for s_ in (sig_fft if need == "fft" else sig_ifft)]
        out_hashes[f"_spectral.py::{need}.signature"] = T.hashlib.sha256(" ".join(want).encode()).hexdigest()[:16]

    # ---- __call__ --------------------------------------------------------------------------------------------
    cb = strip_doc(call.body)
    if [a.arg for a in call.args.args] != ["self", "u"]:
        raise TranslateError("BaseStepper.__call__: parameters are not (self, u)")
    if not cb or ast.unparse(cb[-1]) != "return self.step(u)":
        raise TranslateError("BaseStepper.__call__ does not end in `return self.step(u)`")
    for s in cb[:-1]:
        if isinstance(s, ast.If) and len(s.body) == 1 and isinstance(s.body[0], ast.Raise) and not s.orelse:
            continue
        if isinstance(s, ast.Assign) and len(s.targets) == 1 and isinstance(s.targets[0], ast.Name) \
                and s.targets[0].id == "expected_shape":
            continue
        raise TranslateError(f"BaseStepper.__call__: statement outside the vocabulary: `{ast.unparse(s)[:80]}`")

    # ---- which BaseStepper subclasses define their own step / step_fourier / __call__ ------------------------------
    import glob as _glob
    all_classes = {}
    for f in sorted(_glob.glob(os.path.join(T.REPO, "exponax", "**", "*.py"), recursive=True)):
        if os.sep + "viz" + os.sep in f:
            continue
        try:
            tr_ = ast.parse(open(f).read())
        except SyntaxError as e:
            raise TranslateError(f"{os.path.relpath(f, T.REPO)}: {e}")
        for c_ in ast.walk(tr_):
            if isinstance(c_, ast.ClassDef):
                bases = [b.id if isinstance(b, ast.Name) else (b.attr if isinstance(b, ast.Attribute) else "?") for b in c_.bases]
                all_classes.setdefault(c_.name, (bases, [m.name for m in c_.body if isinstance(m, ast.FunctionDef)]))

    def is_stepper(nm, seen=()):
        if nm == "BaseStepper":
            return True
        if nm not in all_classes or nm in seen:
            return False
        return any(is_stepper(b, seen + (nm,)) for b in all_classes[nm][0])
    overrides = []
    for nm in sorted(all_classes):
        if nm != "BaseStepper" and is_stepper(nm):
            own = [m for m in ("step", "step_fourier", "__call__") if m in all_classes[nm][1]]
            if own:
                overrides.append((nm, own))

    # ---- build_ic_set, mean_metric ---------------------------------------------------------------------------
    upath = os.path.join(T.REPO, "exponax", "_utils.py")
    usrc = open(upath).read()
    bis = T.find_func(ast.parse(usrc).body, "build_ic_set")
    out_hashes["_utils.py::build_ic_set"] = T.src_hash(bis, usrc)
    bis_body = [ast.unparse(s) for s in strip_doc(bis.body)]
    want_bis = ["def scan_fn(k, _):\n    k, sub_k = jr.split(k)\n    ic = ic_generator(num_points, key=sub_k)\n    return (k, ic)",
                "_, ic_set = jax.lax.scan(scan_fn, key, None, length=num_samples)",
                "return ic_set"]
    if bis_body != want_bis or [s[0] for s in signature(bis, "build_ic_set")] != ["ic_generator", "num_points", "num_samples", "key"]:
        raise TranslateError("build_ic_set: body outside the vocabulary (expected the key-threading scan)")
    mpath = os.path.join(T.REPO, "exponax", "metrics", "_utils.py")
    msrc = open(mpath).read()
    mm = T.find_func(ast.parse(msrc).body, "mean_metric")
    out_hashes["metrics/_utils.py::mean_metric"] = T.src_hash(mm, msrc)
    mm_body = [ast.unparse(s) for s in strip_doc(mm.body)]
    want_mm = ["def wrapped_fn(*a):\n    return metric_fn(*a, **kwargs)",
               "metric_per_sample = jax.vmap(wrapped_fn, in_axes=0)(*args)",
               "return jnp.mean(metric_per_sample, axis=0)"]
    if mm_body != want_mm:
        raise TranslateError("mean_metric: body outside the vocabulary (expected vmap over the leading axis, then mean)")

    LAST_FACTS.clear()
    LAST_FACTS.update({
        "integrator_class": {k: cn for k, cn, _, _ in branches},
        "copies": dict(copies),
        "attrs": [a_ for a_, _, _ in attr_defs],
        "derivative_operator_indexing": dop_args[3],
        "step_calls": [rhs.split()[0].split(".")[-1] for _, rhs in lines],
        "overrides": {a_: ms_ for a_, ms_ in overrides},
    })

    # ---- emit ------------------------------------------------------------------------------------------------
    t = []
    t.append(f"/- GENERATED by harness/translate_base.py from exponax/_base_stepper.py, exponax/_utils.py (build_ic_set),\n"
             f"   exponax/metrics/_utils.py (mean_metric) — do not edit.   source span hashes: see Generated/hashes.json -/\n"
             f"import ExponaxModel.Generated.Etdrk\nimport ExponaxModel.Generated.StepperWiring\n"
             f"import ExponaxModel.Generated.SpectralOps\nimport ExponaxModel.Generated.GuardsGen\n"
             f"set_option linter.unusedVariables false\nnamespace Exponax.Gen.Base\n"
             f"open Exponax Exponax.Nonlin Exponax.Gen.StepperWiring\n\nsection\n"
             f"variable {{K : Type}} [Add K] [Sub K] [Mul K] [Div K] [Neg K] [Zero K] [One K] [NatCast K] [IntCast K]\n"
             f"  [HasExp K] [HasI K] [HasPi K] [HasRe K] [HasIsZero K] [HasSqrt K] [HasAbs K]\n")
    t.append("/-! ## `BaseStepper.__init__` -/\n")
    for at, v, srcx in attr_defs:
        ty = "Nat" if v.kind == "N" else "K"
        t.append(f"-- self.{at} = {srcx}\ndef BaseStepper_init_attr_{at} (a : BaseStepperArgs K) : {ty} := {v.lean}\n")
    t.append("/-- the attributes that are plain copies of a constructor parameter (attribute, parameter) -/\n"
             "def BaseStepper_init_copies : List (String × String) :=\n  ["
             + ", ".join(f"({q(a_)}, {q(b_)})" for a_, b_ in copies) + "]\n")
    t.append(f"-- {dop_local} = build_derivative_operator(…): (num_spatial_dims, domain_extent, num_points, indexing)\n"
             f"def BaseStepper_init_derivative_operator_args (a : BaseStepperArgs K) : Nat × K × Nat × String :=\n"
             f"  ({dop_args[0]}, {dop_args[1]}, {dop_args[2]}, {q(dop_args[3])})\n")
    t.append("/-- the abstract builders called by `__init__` (local name, method); each receives the derivative operator above -/\n"
             "def BaseStepper_init_builders : List (String × String) :=\n  ["
             + ", ".join(f"({q(a_)}, {q(b_)})" for a_, b_ in builders) + "]\n")
    t.append("/-- the remaining locals of `__init__` (they feed the shape guard, see `Gen.Guards.BaseStepper_init_accepts`) -/\n"
             "def BaseStepper_init_other_locals : List (String × String) :=\n  ["
             + ",\n   ".join(f"({q(a_)}, {q(b_)})" for a_, b_ in other_locals) + "]\n")
    t.append("/-- the integrator class built for each order; any other order raises `NotImplementedError` -/\n"
             "def BaseStepper_init_integrator_class (order : Nat) : Option String :=\n  "
             + " else ".join(f"if order == {k} then some {q(cn)}" for k, cn, _, _ in branches) + " else none\n")
    t.append("/-! ## `BaseStepper.__init__` (order dispatch, with the arguments each `ETDRK?(…)` call binds through that\n"
             "constructor's signature) followed by `BaseStepper.step_fourier` = `self._integrator.step_fourier(u_hat)`.\n\n"
             "`A` is the type of whole spectra `(C, modes)`; `entrywise f` is the array whose entries are `f` of the entries of\n"
             f"`{lo} = self._build_linear_operator(…)` (the stored ETDRK attributes are computed entrywise from it, see\n"
             "`Generated/Etdrk.lean`); `none` = the constructor raises. -/\n")
    chain = "\n  else ".join(f"if a.order == {k} then\n    -- {cm}\n    {body_}" for k, _, body_, cm in branches)
    t.append(f"def BaseStepper_step_fourier {{A : Type}} [Add A] [Sub A] [Mul A] [NatCast A] (a : BaseStepperArgs K)\n"
             f"    (entrywise : (K → K) → A) ({non_local[0]} : A → A) (u_hat : A) : Option A :=\n  {chain}\n  else none\n")
    t.append("/-- the classes deriving from `BaseStepper` (found by walking exponax/**/*.py) that define their OWN `step`, `step_fourier`\n"
             "    or `__call__`; for every other stepper class the three are the ones regenerated here, so its physical step IS\n"
             "    `ifft ∘ step_fourier ∘ fft` — the premise under which sub-stepping in Fourier space (`RepeatedStepper`) equals repeated calls -/\n"
             "def stepper_overrides : List (String × List String) :=\n  ["
             + ", ".join(f"({q(a_)}, [{', '.join(q(m_) for m_ in ms_)}])" for a_, ms_ in overrides) + "]\n")
    t.append("/-! ## `BaseStepper.step`: the state has the shape the guard of `__call__` enforces, `(num_channels,) + (N,)*D` -/\n")
    sl = [f"def BaseStepper_step (a : BaseStepperArgs K) (step_fourier : MC K → Option (MC K)) (u : MC K) : Option (MC K) :="]
    depth = 1
    for tgt, rhs in lines:
        ind = "  " * depth
        sl.append(f"{ind}match {rhs} with\n{ind}| none => none\n{ind}| some {tgt} =>")
        depth += 1
    sl.append("  " * depth + f"some {ret}")
    t.append("\n".join(sl) + "\n")
    t.append("/-! ## `BaseStepper.__call__`: the shape guard (regenerated in `Generated/GuardsGen.lean`), then `self.step(u)` -/\n"
             "def BaseStepper_call (a : BaseStepperArgs K) (step_fourier : MC K → Option (MC K)) (u_shape : List Nat) (u : MC K) :\n"
             "    Option (MC K) :=\n"
             "  if Exponax.Gen.Guards.BaseStepper_call_accepts a.num_spatial_dims a.num_points a.num_channels u_shape then\n"
             "    BaseStepper_step a step_fourier u\n  else none\n")
    t.append("end\n")
    t.append("/-! ## `build_ic_set` (exponax/_utils.py): `lax.scan` over `num_samples` steps that threads the key —\n"
             "`k, sub_k = jr.split(k)`, sample `ic_generator(num_points, key=sub_k)`, carry `k` -/\n"
             "def build_ic_set {Key IC : Type} (split : Key → Key × Key) (ic_generator : Nat → Key → IC)\n"
             "    (num_points num_samples : Nat) (key : Key) : List IC :=\n"
             "  ((List.range num_samples).foldl (fun (acc : Key × List IC) _ =>\n"
             "      let (k, sub_k) := split acc.1\n      (k, acc.2 ++ [ic_generator num_points sub_k])) (key, [])).2\n")
    t.append("/-! ## `mean_metric` (exponax/metrics/_utils.py): the metric of every batch member (`jax.vmap` over the leading\n"
             "axis of every positional argument, keyword arguments closed over), then the mean over the batch -/\n"
             "def mean_metric {K S : Type} [Add K] [Div K] [Zero K] [NatCast K] (metric_fn : S → K) (args : List S) : K :=\n"
             "  (args.map metric_fn).foldl (· + ·) 0 / (NatCast.natCast args.length : K)\n")
    t.append("/-- the translated definitions -/\ndef generated_defs : List String :=\n  ["
             + ", ".join(q(x) for x in ["BaseStepper_step_fourier", "BaseStepper_step", "BaseStepper_call", "build_ic_set", "mean_metric"]
                         + [f"BaseStepper_init_attr_{a_}" for a_, _, _ in attr_defs]) + "]\n")
    t.append("end Exponax.Gen.Base\n")
    return "\n".join(t)


TARGETS = {NAME: translate_base}


def run(targets=None):
    os.makedirs(T.GEN_DIR, exist_ok=True)
    res, hashes = {}, {}
    for name, fn in TARGETS.items():
        if targets and name not in targets:
            continue
        try:
            text = fn(hashes)
            changed = T.write_if_changed(os.path.join(T.GEN_DIR, name + ".lean"), text)
            res[name] = {"ok": True, "error": None, "changed": changed}
        except (TranslateError, SyntaxError, FileNotFoundError) as e:   # broken obligation
            res[name] = {"ok": False, "error": f"{type(e).__name__}: {e}", "changed": False}
    return res, hashes


if __name__ == "__main__":
    r, h = run(sys.argv[1:] or None)
    print(json.dumps(r, indent=1))
    sys.exit(0 if all(v["ok"] for v in r.values()) else 3)
