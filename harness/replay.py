#!/venv/bin/python
"""replay a violation file against the real code:  replay.py <replays/Cxx-hash.json>"""
import importlib
import json
import os
import sys

sys.path.insert(0, os.path.dirname(os.path.abspath(__file__)))
os.environ.setdefault("JAX_PLATFORMS", "cpu")

def main():
    payload = json.load(open(sys.argv[1]))
    pid = payload["property"]
    if payload.get("kind") == "no-failing-input-found":
        print(f"{pid}: no failing input was found; obligations that no longer check:")
        for l in payload.get("no_longer_checks", []):
            print("  -", l)
        sys.exit(1)
    mod = importlib.import_module(f"props.{pid.lower()}")
    if payload.get("history") is not None:
        # the failure was found after a "previous life" of the process: re-create it first (deterministic in the seed)
        import history
        n = history.disturb(int(payload["history"]), pid)
        print(f"(previous life re-created: {n} library calls, seed {payload['history']})", file=sys.stderr)
    res = mod.replay(payload["probe"], payload["args"])
    print(json.dumps({"property": pid, "key": payload["key"], "result": res}, indent=1, default=str))
    sys.exit(0 if res.get("ok") else 1)

if __name__ == "__main__":
    main()
