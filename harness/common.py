"""
Shared machinery of the checks: build + audit of the Lean side, the driver
process (line protocol, exact float transfer), comparison helpers, evidence and
replay writers, known-findings handling.
"""
from __future__ import annotations

import fcntl
import hashlib
import json
import os
import re
import struct
import subprocess
import sys
import time

HERE = os.path.dirname(os.path.abspath(__file__))
VERIF = os.path.dirname(HERE)
LEAN_DIR = os.path.join(VERIF, "lean")
WORK = os.path.join(VERIF, ".work")
EVIDENCE = os.path.join(VERIF, "evidence")
REPLAYS = os.path.join(VERIF, "replays")
REPO = os.environ.get("EXPONAX_REPO", "/repo")
DRIVER = os.path.join(LEAN_DIR, ".lake", "build", "bin", "driver")

ALLOWED_AXIOMS = {"propext", "Classical.choice", "Quot.sound"}
FORBIDDEN = re.compile(r"\b(sorry|admit|native_decide|bv_decide|implemented_by|unsafe)\b|^\s*axiom\s|maxHeartbeats\s+0\b")

TRUSTED_BASE = [
    "Lean 4.33 kernel and Mathlib v4.33 as installed; axioms allowed: propext, Classical.choice, Quot.sound (audited by #print axioms on every run)",
    "harness/translate.py and its plug-ins translate_{layout,nonlin,metrics,wiring,spectral2,guards,ic2}.py (Python ast -> Lean, incl. their stated semantics of the numpy / jax primitives) for the regenerated definitions",
    "the correspondence harness and driver I/O (hex float transfer, tolerance 1e-9*scale+1e-12 for numeric outputs, exact for integer outputs)",
    "modelled, not verified: IEEE-754 rounding/overflow, jnp.fft (as DFT sums), jnp.exp/sqrt/einsum/where, lax.scan, JAX tracing/jit/vmap/AD, jax.random, equinox",
]


def seed():
    try:
        return int(os.environ.get("VERIF_SEED", "0"))
    except ValueError:
        return 0


# ----------------------------------------------------------------------------
# float transfer
# ----------------------------------------------------------------------------
def ftok(x: float) -> str:
    return "x" + struct.pack(">d", float(x)).hex()


def parse_tok(t: str):
    if t.startswith("x"):
        return struct.unpack(">d", bytes.fromhex(t[1:]))[0]
    return int(t)


def ctoks(z) -> str:
    z = complex(z)
    return ftok(z.real) + " " + ftok(z.imag)


class DriverError(Exception):
    pass


class Driver:
    """the compiled Lean model behind a line protocol"""

    def __init__(self):
        if not os.path.exists(DRIVER):
            raise DriverError("driver binary missing")
        def _die_with_parent():   # a killed harness must not leave a computing driver behind
            try:
                import ctypes
                import signal
                ctypes.CDLL("libc.so.6").prctl(1, signal.SIGKILL)
            except Exception:
                pass
        self.p = subprocess.Popen([DRIVER], stdin=subprocess.PIPE, stdout=subprocess.PIPE,
                                  text=True, bufsize=1, preexec_fn=_die_with_parent)
        self.requests = 0
        self.log = []

    def ask(self, line: str):
        self.requests += 1
        if len(self.log) < 3 and len(line) < 400:
            self.log.append(line)
        self.p.stdin.write(line + "\n")
        self.p.stdin.flush()
        out = self.p.stdout.readline()
        if not out:
            raise DriverError(f"driver died on: {line[:200]}")
        out = out.strip()
        if out.startswith("ERR"):
            raise DriverError(f"{out} on: {line[:200]}")
        return [parse_tok(t) for t in out.split()] if out else []

    def ask_complex(self, line):
        v = self.ask(line)
        return [complex(v[i], v[i + 1]) for i in range(0, len(v), 2)]

    def close(self):
        try:
            self.p.stdin.close()
            self.p.wait(timeout=5)
        except Exception:
            self.p.kill()


# ----------------------------------------------------------------------------
# build + audit
# ----------------------------------------------------------------------------
class Lock:
    def __enter__(self):
        os.makedirs(WORK, exist_ok=True)
        self.f = open(os.path.join(WORK, "lock"), "w")
        fcntl.flock(self.f, fcntl.LOCK_EX)
        return self

    def __exit__(self, *a):
        fcntl.flock(self.f, fcntl.LOCK_UN)
        self.f.close()


def run(cmd, cwd=None, timeout=3600, env=None):
    p = subprocess.run(cmd, cwd=cwd, capture_output=True, text=True, timeout=timeout, env=env)
    return p.returncode, p.stdout + p.stderr


def translate():
    sys.path.insert(0, HERE)
    import translate as T
    return T.run()


def lake_build(targets):
    rc, out = run(["lake", "build"] + targets, cwd=LEAN_DIR, timeout=3000)
    return rc == 0, out


def property_modules(pid):
    """`Properties/Cxx.lean` plus continuation files `Properties/Cxx_<topic>.lean` (used where a proof library builds
    on the first file, so its theorems cannot be imported back into it)"""
    import glob
    d = os.path.join(LEAN_DIR, "ExponaxModel", "Properties")
    files = [os.path.join(d, f"{pid}.lean")] + sorted(glob.glob(os.path.join(d, f"{pid}_*.lean")))
    return [(f, "ExponaxModel.Properties." + os.path.basename(f)[:-5]) for f in files]


def property_theorems(pid):
    thms, examples = [], 0
    for path, _ in property_modules(pid):
        src = open(path).read()
        # strip comments
        nocom = re.sub(r"/-.*?-/", "", src, flags=re.S)
        nocom = re.sub(r"--.*", "", nocom)
        thms += re.findall(r"^\s*theorem\s+([A-Za-z0-9_.']+)", nocom, flags=re.M)
        examples += len(re.findall(r"^\s*example\b", nocom, flags=re.M))
    return thms, examples


def lean_sources_for(pid):
    """all hand-written + generated Lean files (forbidden-token grep covers all of them)"""
    out = []
    for root, _, files in os.walk(os.path.join(LEAN_DIR, "ExponaxModel")):
        for f in files:
            if f.endswith(".lean"):
                out.append(os.path.join(root, f))
    out.append(os.path.join(LEAN_DIR, "Driver.lean"))
    return out


def grep_forbidden(files):
    hits = []
    for f in files:
        src = open(f).read()
        nocom = re.sub(r"/-.*?-/", lambda m: "\n" * m.group(0).count("\n"), src, flags=re.S)
        for i, line in enumerate(nocom.split("\n"), 1):
            line = re.sub(r"--.*", "", line)
            if FORBIDDEN.search(line):
                hits.append(f"{os.path.relpath(f, VERIF)}:{i}: {line.strip()[:100]}")
    return hits


def audit_axioms(pid, thms):
    """#print axioms on every property theorem; returns (ok, details)"""
    if not thms:
        return False, {"error": "no property theorems found"}
    os.makedirs(WORK, exist_ok=True)
    path = os.path.join(WORK, f"Audit_{pid}_{os.getpid()}.lean")
    with open(path, "w") as f:
        for _, mod in property_modules(pid):
            f.write(f"import {mod}\n")
        f.write("open Exponax\n")
        for t in thms:
            f.write(f"#print axioms {t}\n")
    try:
        rc, out = run(["lake", "env", "lean", path], cwd=LEAN_DIR, timeout=1200)
    finally:
        try:
            os.remove(path)
        except OSError:
            pass
    details = {}
    bad = []
    # output: 'X' depends on axioms: [a, b]   |  'X' does not depend on any axioms
    for m in re.finditer(r"'([^']+)' depends on axioms: \[([^\]]*)\]", out):
        axs = {a.strip() for a in m.group(2).replace("\n", " ").split(",") if a.strip()}
        details[m.group(1)] = sorted(axs)
        if not axs <= ALLOWED_AXIOMS:
            bad.append(m.group(1))
    for m in re.finditer(r"'([^']+)' does not depend on any axioms", out):
        details[m.group(1)] = []
    missing = [t for t in thms if not any(k == t or k.endswith("." + t) for k in details)]
    ok = rc == 0 and not bad and not missing
    if not ok:
        details["_error"] = {"rc": rc, "bad": bad, "missing": missing, "out": out[-2000:]}
    return ok, details


# ----------------------------------------------------------------------------
# comparison
# ----------------------------------------------------------------------------
RTOL = 1e-9
ATOL = 1e-12


def close_arrays(impl, model, rtol=RTOL, atol=ATOL):
    """returns (ok, maxdiff, scale, index)"""
    import numpy as np
    a = np.asarray(impl).ravel()
    b = np.asarray(model).ravel()
    if a.shape != b.shape:
        return False, float("inf"), 0.0, -1
    if a.size == 0:
        return True, 0.0, 0.0, -1
    fin_a = np.isfinite(a)
    fin_b = np.isfinite(b)
    if not (fin_a == fin_b).all():
        i = int(np.argmax(fin_a != fin_b))
        return False, float("inf"), 0.0, i
    if not fin_a.all():
        # non-finite entries must coincide (inf sign / nan)
        na, nb = a[~fin_a], b[~fin_a]
        same = np.all((np.isnan(na) & np.isnan(nb)) | (na == nb))
        if not same:
            return False, float("inf"), 0.0, int(np.argmax(~fin_a))
        a, b = a[fin_a], b[fin_a]
        if a.size == 0:
            return True, 0.0, 0.0, -1
    scale = float(max(np.max(np.abs(a)), np.max(np.abs(b))))
    d = np.abs(a - b)
    i = int(np.argmax(d))
    md = float(d[i])
    return md <= rtol * scale + atol, md, scale, i


# ----------------------------------------------------------------------------
# results
# ----------------------------------------------------------------------------
class Ctx:
    """per-run state handed to the property modules"""

    def __init__(self, pid, tier):
        self.pid = pid
        self.tier = tier
        self.seed = seed()
        self.t0 = time.time()
        self.evaluations = 0
        self.cells = set()          # distinct non-trivial cells
        self.samples = []
        self.hist = {}
        self.mismatches = []        # correspondence disagreements
        self.driver = None
        self.notes = []
        self.traces = 0
        self.exhaustive = False

    def count(self, cell=None, nontrivial=True, n=1):
        self.evaluations += n
        if cell is not None and nontrivial:
            self.cells.add(cell)

    def bump(self, key, n=1):
        self.hist[key] = self.hist.get(key, 0) + n

    def sample(self, s):
        if len(self.samples) < 8:
            self.samples.append(s)

    def mismatch(self, what, detail):
        if len(self.mismatches) < 50:
            self.mismatches.append({"what": what, "detail": detail})

    def compare(self, what, impl, model, cell=None, exact=False, rtol=RTOL, atol=ATOL, detail=None):
        """compare implementation and model outputs; records a correspondence disagreement"""
        import numpy as np
        self.traces += 1
        if exact:
            a = np.asarray(impl).ravel()
            b = np.asarray(model).ravel()
            ok = a.shape == b.shape and bool(np.all(a == b))
            if not ok:
                idx = -1
                if a.shape == b.shape:
                    idx = int(np.argmax(a != b))
                self.mismatch(what, {"cell": repr(cell), "index": idx,
                                     "impl": a[:16].tolist() if a.size else [],
                                     "model": b[:16].tolist() if b.size else [], "extra": detail})
            return ok
        ok, md, scale, i = close_arrays(impl, model, rtol, atol)
        if not ok:
            self.mismatch(what, {"cell": repr(cell), "maxdiff": md, "scale": scale, "index": i, "extra": detail})
        return ok


def write_evidence(ctx: Ctx, obligations, discharged, checker_cmd, extra_cov=None, violations=0,
                   assumptions=None):
    os.makedirs(EVIDENCE, exist_ok=True)
    cov = {
        "obligations": obligations,
        "discharged": discharged,
        "checker_cmd": checker_cmd,
        "trusted_base": TRUSTED_BASE,
        "evaluations": ctx.evaluations,
        "distinct_nontrivial": len(ctx.cells),
        "rule": "correspondence cases are drawn from VERIF_SEED over the constructors' argument domains; a cell is the "
                "tuple (object, D, N, order/flags ...) and counts as non-trivial when its input is non-zero with >=2 "
                "active modes (numeric cases) or when the enumerated index set has >=2 elements (index cases)",
        "samples": ctx.samples,
        "traces_validated_against_impl": ctx.traces,
        "input_distribution": ctx.hist,
        "tolerance": {"rtol_of_scale": RTOL, "atol": ATOL, "integer_outputs": "exact"},
        "exhaustive": ctx.exhaustive,
    }
    if extra_cov:
        cov.update(extra_cov)
    ev = {
        "property_id": ctx.pid,
        "tier": ctx.tier,
        "seed": ctx.seed,
        "level": "proof",
        "coverage": cov,
        "assumptions": assumptions or TRUSTED_BASE,
        "wall_s": round(time.time() - ctx.t0, 3),
        "violations": violations,
    }
    path = os.path.join(EVIDENCE, f"{ctx.pid}.json")
    with open(path, "w") as f:
        json.dump(ev, f, indent=1, default=str)
    return path


def write_replay(pid, payload):
    os.makedirs(REPLAYS, exist_ok=True)
    blob = json.dumps(payload, sort_keys=True, default=str)
    h = hashlib.sha256(blob.encode()).hexdigest()[:12]
    path = os.path.join(REPLAYS, f"{pid}-{h}.json")
    with open(path, "w") as f:
        json.dump(payload, f, indent=1, default=str)
    return path


def load_known_findings():
    path = os.path.join(VERIF, "known_findings.json")
    if not os.path.exists(path):
        return {"findings": [], "fixed": []}
    return json.load(open(path))
