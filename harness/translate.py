#!/usr/bin/env python3
"""
Translator: regenerates lean/ExponaxModel/Generated/*.lean from the *current*
working tree of /repo (Python `ast`, no imports of the package).

Only straight-line arithmetic is translated (see DESIGN §3.3a).  Every Python
function becomes one Lean definition that is polymorphic over operation-only
type classes (`Model/Ops.lean`), so the same text is executed on IEEE doubles
by the driver and reasoned about over ℂ / any field in `Proofs/`.

Anything outside the supported vocabulary raises TranslateError: that is a
broken proof obligation, handled by the check protocol (search for a failing
input), never silently skipped.
"""
from __future__ import annotations

import ast
import hashlib
import json
import os
import sys
from fractions import Fraction

REPO = os.environ.get("EXPONAX_REPO", "/repo")
HERE = os.path.dirname(os.path.abspath(__file__))
GEN_DIR = os.path.join(os.path.dirname(HERE), "lean", "ExponaxModel", "Generated")


class TranslateError(Exception):
    pass


# ----------------------------------------------------------------------------
# values
# ----------------------------------------------------------------------------
class V:
    """A translated expression: Lean text + a coarse type.

    ty: 'K' scalar (field element / per-mode array entry, or whole vector for
              the vector-generic stage formulas),
        'Z' static integer (Lean Int), 'N' static natural (Lean Nat),
        'L' list of K, ('T', n) n-tuple of K, 'F' function, 'B' bool (static)
    """

    def __init__(self, lean, ty, atom=False, items=None):
        self.lean = lean
        self.ty = ty
        self.atom = atom
        self.items = items  # for python-level tuples of values

    def p(self):
        return self.lean if self.atom else f"({self.lean})"


PRELUDE_CLASSES = [
    "Add", "Sub", "Mul", "Div", "Neg", "Zero", "One", "NatCast", "IntCast",
    "HasExp", "HasRe", "HasSqrt", "HasAbs", "HasI", "HasPi",
]


import re as _re

_TOK = _re.compile(r"[A-Za-z_][A-Za-z_0-9]*")


def tokens(text):
    return set(_TOK.findall(text))


def bound_names(line):
    """names bound by a generated `let` line"""
    m = _re.match(r"let \(([^)]*)\) :=", line)
    if m:
        return [x.strip() for x in m.group(1).split(",")]
    m = _re.match(r"let ([A-Za-z_][A-Za-z_0-9]*) :=", line)
    return [m.group(1)] if m else []


def slice_lines(lines, needed):
    """keep only the lets the result depends on (sequential scoping, shadowing aware)"""
    needed = set(needed)
    keep = []
    for l in reversed(lines):
        b = bound_names(l)
        if any(x in needed for x in b):
            keep.append(l)
            rhs = l.split(":=", 1)[1]
            needed = (needed - set(b)) | tokens(rhs)
    keep.reverse()
    return keep, needed


class FunTr:
    """Translate one Python function body (straight-line) into a Lean term."""

    def __init__(self, modname, params, ktype="K", self_attrs=None, helpers=None,
                 closures=None):
        self.params = params          # name -> ty
        self.env = dict(params)       # name -> ty   (names are bound by Lean lets)
        self.lines = []               # let lines
        self.used = set()             # classes used
        self.self_attrs = self_attrs if self_attrs is not None else {}
        self.helpers = helpers or {}  # python function name -> (lean name, [param names], ret ty)
        self.attr_out = []            # (attr, V) in assignment order
        self.indent = "  "
        self.prefix = modname or "aux"
        self.aux_defs = []            # module-level helper definitions (scan bodies)
        self.local_funcs = {}         # name -> ast.FunctionDef (closures)

    # -- helpers -------------------------------------------------------------
    def use(self, *cls):
        self.used.update(cls)

    def toK(self, v: V) -> V:
        if v.ty == "K":
            return v
        if v.ty == "N":
            self.use("NatCast")
            return V(f"lit {v.p()}", "K")
        if v.ty == "Z":
            self.use("IntCast")
            return V(f"(IntCast.intCast {v.p()} : K)", "K", atom=True)
        raise TranslateError(f"cannot cast {v.ty} to K: {v.lean}")

    def toZ(self, v: V) -> V:
        if v.ty == "Z":
            return v
        if v.ty == "N":
            return V(f"({v.lean} : Int)", "Z", atom=True)
        raise TranslateError(f"cannot cast {v.ty} to Int: {v.lean}")

    def const(self, c) -> V:
        if isinstance(c, bool):
            return V("true" if c else "false", "B", atom=True)
        if isinstance(c, int):
            if c >= 0:
                return V(str(c), "N", atom=True)
            return V(f"({c} : Int)", "Z", atom=True)
        if isinstance(c, float):
            fr = Fraction(c)  # exact value of the binary64 literal
            # prefer the shortest decimal that round-trips (0.5 -> 1/2, 4.0 -> 4, 0.1 -> 1/10)
            fr2 = Fraction(repr(c))
            if float(fr2) == c:
                fr = fr2
            self.use("NatCast")
            if fr.denominator == 1:
                if fr.numerator >= 0:
                    return V(f"lit {fr.numerator}", "K")
                self.use("Neg")
                return V(f"- lit {-fr.numerator}", "K")
            self.use("Div")
            if fr.numerator >= 0:
                return V(f"qlit {fr.numerator} {fr.denominator}", "K")
            self.use("Neg")
            return V(f"- qlit {-fr.numerator} {fr.denominator}", "K")
        if isinstance(c, complex):
            if c.real == 0:
                self.use("HasI", "Mul")
                im = self.const(c.imag)
                if c.imag == 1.0:
                    return V("HasI.I", "K", atom=True)
                return V(f"{self.toK(im).p()} * HasI.I", "K")
        raise TranslateError(f"unsupported constant {c!r}")

    # -- expressions -----------------------------------------------------------
    def expr(self, n) -> V:
        if isinstance(n, ast.Constant):
            return self.const(n.value)
        if isinstance(n, ast.Name):
            if n.id in self.env:
                ty = self.env[n.id]
                if isinstance(ty, V):
                    return ty
                return V(n.id, ty, atom=True)
            raise TranslateError(f"unbound name {n.id}")
        if isinstance(n, ast.Tuple) or isinstance(n, ast.List):
            items = [self.expr(e) for e in n.elts]
            if all(i.ty in ("K", "N", "Z") for i in items):
                ks = [self.toK(i) for i in items]
                return V("(" + ", ".join(k.lean for k in ks) + ")", ("T", len(ks)),
                         atom=True, items=ks)
            raise TranslateError("tuple of non-scalars")
        if isinstance(n, ast.UnaryOp):
            v = self.expr(n.operand)
            if isinstance(n.op, ast.USub):
                if v.ty == "N":
                    return V(f"-({v.lean} : Int)", "Z")
                if v.ty == "Z":
                    return V(f"-{v.p()}", "Z")
                self.use("Neg")
                return V(f"-{v.p()}", "K")
            if isinstance(n.op, ast.UAdd):
                return v
            raise TranslateError("unary op")
        if isinstance(n, ast.BinOp):
            return self.binop(n)
        if isinstance(n, ast.Attribute):
            return self.attribute(n)
        if isinstance(n, ast.Subscript):
            return self.subscript(n)
        if isinstance(n, ast.Call):
            return self.call(n)
        if isinstance(n, ast.GeneratorExp) or isinstance(n, ast.ListComp):
            return self.comprehension(n)
        raise TranslateError(f"unsupported expression {ast.dump(n)[:80]}")

    def binop(self, n) -> V:
        op = n.op
        # tuple repetition  (zeros,) * 4
        if isinstance(op, ast.Mult) and isinstance(n.left, ast.Tuple) and len(n.left.elts) == 1 \
                and isinstance(n.right, ast.Constant) and isinstance(n.right.value, int):
            item = self.toK(self.expr(n.left.elts[0]))
            k = n.right.value
            return V("(" + ", ".join([item.lean] * k) + ")", ("T", k), atom=True,
                     items=[item] * k)
        a = self.expr(n.left)
        b = self.expr(n.right)
        if isinstance(op, ast.Pow):
            return self.power(a, b, n.right)
        ints = ("N", "Z")
        if a.ty in ints and b.ty in ints:
            if isinstance(op, ast.Div):
                a, b = self.toK(a), self.toK(b)
            else:
                sym = {ast.Add: "+", ast.Sub: "-", ast.Mult: "*", ast.FloorDiv: "/", ast.Mod: "%"}.get(type(op))
                if sym is None:
                    raise TranslateError("int op")
                if a.ty == "N" and b.ty == "N" and not isinstance(op, ast.Sub):
                    return V(f"{a.p()} {sym} {b.p()}", "N")
                a, b = self.toZ(a), self.toZ(b)
                if sym == "/":
                    return V(f"Int.fdiv {a.p()} {b.p()}", "Z")
                if sym == "%":
                    return V(f"Int.fmod {a.p()} {b.p()}", "Z")
                return V(f"{a.p()} {sym} {b.p()}", "Z")
        a, b = self.toK(a), self.toK(b)
        sym, cls = {ast.Add: ("+", "Add"), ast.Sub: ("-", "Sub"), ast.Mult: ("*", "Mul"),
                    ast.Div: ("/", "Div")}.get(type(op), (None, None))
        if sym is None:
            raise TranslateError(f"unsupported operator {op}")
        self.use(cls)
        return V(f"{a.p()} {sym} {b.p()}", "K")

    def power(self, a: V, b: V, bnode) -> V:
        if isinstance(bnode, ast.Constant) and isinstance(bnode.value, int) and bnode.value >= 0:
            if a.ty in ("N", "Z"):
                return V(f"{a.p()} ^ {bnode.value}", a.ty)
            self.use("Mul", "One")
            return V(f"npow {a.p()} {bnode.value}", "K")
        if b.ty == "N":
            if a.ty in ("N", "Z"):
                return V(f"{a.p()} ^ {b.p()}", a.ty)
            self.use("Mul", "One")
            return V(f"npow {a.p()} {b.p()}", "K")
        if b.ty == "Z":
            # possibly negative integer exponent: python gives a float (2 ** -1 == 0.5)
            self.use("Mul", "One", "Div")
            return V(f"zpowK {self.toK(a).p()} {b.p()}", "K")
        raise TranslateError("unsupported power")

    def attribute(self, n) -> V:
        if isinstance(n.value, ast.Name) and n.value.id == "self":
            if n.attr in self.env:
                return V(n.attr, self.env[n.attr], atom=True)
            if n.attr in self.self_attrs:
                ty = self.self_attrs[n.attr]
                self.env[n.attr] = ty
                self.params.setdefault(n.attr, ty)
                return V(n.attr, ty, atom=True)
            raise TranslateError(f"unknown attribute self.{n.attr}")
        if n.attr == "real":
            v = self.toK(self.expr(n.value))
            self.use("HasRe")
            return V(f"HasRe.re {v.p()}", "K")
        if n.attr == "imag":
            v = self.toK(self.expr(n.value))
            self.use("HasIm")
            return V(f"HasIm.im {v.p()}", "K")
        if isinstance(n.value, ast.Name) and n.value.id == "jnp" and n.attr == "pi":
            self.use("HasPi")
            return V("HasPi.pi", "K", atom=True)
        raise TranslateError(f"unsupported attribute {ast.dump(n)[:80]}")

    def subscript(self, n) -> V:
        v = self.expr(n.value)
        idx = n.slice
        if isinstance(idx, ast.Constant) and isinstance(idx.value, int):
            i = idx.value
            if v.items is not None:
                return v.items[i]
            if isinstance(v.ty, tuple) and v.ty[0] == "T":
                k = v.ty[1]
                if i < 0:
                    i += k
                proj = ".2" * i + (".1" if i < k - 1 else "")
                return V(f"{v.p()}{proj}", "K", atom=True)
            if v.ty == "L":
                self.use("Zero")
                return V(f"({v.p()}).getD {i} 0", "K")
        raise TranslateError(f"unsupported subscript {ast.dump(n)[:80]}")

    def call(self, n) -> V:
        f = n.func
        fname = None
        if isinstance(f, ast.Attribute) and isinstance(f.value, ast.Name) and f.value.id in ("jnp", "np", "math"):
            fname = f.attr
        elif isinstance(f, ast.Name):
            fname = f.id
        elif isinstance(f, ast.Attribute) and isinstance(f.value, ast.Attribute) \
                and ast.unparse(f) == "jax.lax.scan":
            fname = "scan"
        elif isinstance(f, ast.Attribute) and isinstance(f.value, ast.Name) and f.value.id == "self":
            fname = "self." + f.attr
        if fname in ("exp", "sqrt", "abs", "zeros_like", "square"):
            v = self.toK(self.expr(n.args[0]))
            if fname == "exp":
                self.use("HasExp")
                return V(f"HasExp.exp {v.p()}", "K")
            if fname == "sqrt":
                self.use("HasSqrt")
                return V(f"HasSqrt.sqrt {v.p()}", "K")
            if fname == "abs":
                self.use("HasAbs")
                return V(f"HasAbs.abs {v.p()}", "K")
            if fname == "square":
                self.use("Mul")
                return V(f"{v.p()} * {v.p()}", "K")
            if fname == "zeros_like":
                self.use("Zero")
                return V("(0 : K)", "K", atom=True)
        if fname == "stack" and isinstance(n.args[0], (ast.List, ast.Tuple)):
            return self.expr(n.args[0])
        if fname in ("tuple", "list") and len(n.args) == 1:
            return self.expr(n.args[0])
        if fname == "scan":
            return self.scan(n)
        if fname == "roots_of_unity":
            m = self.expr(n.args[0])
            for c in ("HasExp", "HasI", "HasPi", "Mul", "Div", "Sub", "NatCast"):
                self.use(c)
            return V(f"roots_of_unity {m.p()}", "L")
        if fname in self.helpers:
            lean_name, pnames, ret_ty, cls = self.helpers[fname]
            argv = {}
            for i, a in enumerate(n.args):
                argv[pnames[i][0]] = self.expr(a)
            for kw in n.keywords:
                argv[kw.arg] = self.expr(kw.value)
            parts = []
            for pn, pty in pnames:
                if pn not in argv:
                    raise TranslateError(f"missing argument {pn} in call to {fname}")
                a = argv[pn]
                if pty == "K":
                    a = self.toK(a)
                parts.append(a.p())
            self.used.update(cls)
            return V(f"{lean_name} " + " ".join(parts), ret_ty)
        if fname is not None and fname.startswith("self.") and fname[5:] in self.self_attrs:
            # call of a callable attribute (e.g. self._nonlinear_fun(u_hat))
            fn = self.attribute(f)
            a = self.toK(self.expr(n.args[0]))
            return V(f"{fn.lean} {a.p()}", "K")
        raise TranslateError(f"unsupported call {ast.unparse(n)[:80]}")

    def scan(self, n) -> V:
        """jax.lax.scan(body, init, xs) where every carry component is updated as
        `carry_i + c_i(x)`: rendered as `foldAdd init_i (fun x => c_i x) xs` with one
        closure-converted module-level definition per component."""
        if not (isinstance(n.args[0], ast.Name) and n.args[0].id in self.local_funcs):
            raise TranslateError("scan: body is not a local function")
        body = self.local_funcs[n.args[0].id]
        init = self.expr(n.args[1])
        xs = self.expr(n.args[2])
        if xs.ty != "L":
            raise TranslateError("scan over a non-list")
        args = [a.arg for a in body.args.args]
        if len(args) != 2:
            raise TranslateError("scan body must take (carry, x)")
        cname, xname = args
        if init.items is not None:
            inits = init.items
        else:
            inits = [self.toK(init)]
        arity = len(inits)
        sub = FunTr(self.prefix, {}, self_attrs={}, helpers=self.helpers)
        sub.env = {k: v for k, v in self.env.items()}
        sub.env[xname] = "K"
        # carry components are opaque atoms so that a dependency on them is visible
        carry_atoms = [V(f"carry_{i}", "K", atom=True) for i in range(arity)]
        if arity == 1 and init.items is None:
            sub.env[cname] = carry_atoms[0]
        else:
            sub.env[cname] = V("<carry>", ("T", arity), items=carry_atoms)
        out = None
        for t in body.body:
            r = sub.stmt(t)
            if r is not None:
                out = r
        if out is None or out.ty != ("PAIR",):
            raise TranslateError("scan body must return (carry, None)")
        new_carry = out.items[0]
        comps = new_carry.items if new_carry.items is not None else [new_carry]
        if len(comps) != arity:
            raise TranslateError("scan: carry arity changes")
        self.used |= sub.used
        self.use("Add")
        results = []
        bound = set()
        for l in sub.lines:
            bound |= set(bound_names(l))
        for i, c in enumerate(comps):
            pre = f"carry_{i} + "
            if not c.lean.startswith(pre):
                raise TranslateError(f"scan: component {i} is not `carry[{i}] + ...`: {c.lean[:60]}")
            inc = c.lean[len(pre):]
            lines, needed = slice_lines(sub.lines, tokens(inc))
            if any(tk.startswith("carry_") for tk in needed | tokens(inc)):
                raise TranslateError(f"scan: increment {i} depends on the carry")
            free = [nm for nm in sorted(needed | tokens(inc)) if nm in self.env and nm != xname
                    and self.env[nm] in ("K", "N", "Z")]
            dname = f"{self.prefix}_{n.args[0].id}_{i}"
            binders = " ".join(f"({nm} : {self.lean_ty(self.env[nm])})" for nm in free)
            text = (f"def {dname} {{K : Type}} {inst_binders(sub.used)} {binders} ({xname} : K) : K :=\n"
                    + "".join(f"  {l}\n" for l in lines) + f"  {inc}\n")
            self.aux_defs.append(text)
            call = f"{dname} " + " ".join(free)
            results.append(V(f"foldAdd {inits[i].p()} (fun {xname} => {call.strip()} {xname}) {xs.p()}", "K"))
        if arity == 1 and init.items is None:
            carry = results[0]
        else:
            carry = V("<carry>", ("T", arity), items=results)
        return V("<scan>", ("PAIR",), items=[carry, V("()", "U", atom=True)])

    def comprehension(self, n) -> V:
        if len(n.generators) != 1 or n.generators[0].ifs:
            raise TranslateError("comprehension")
        g = n.generators[0]
        it = g.iter
        saved = dict(self.env)
        if isinstance(it, ast.Call) and isinstance(it.func, ast.Name) and it.func.id == "enumerate":
            src = self.expr(it.args[0])
            if src.ty != "L" or not isinstance(g.target, ast.Tuple):
                raise TranslateError("enumerate over non-list")
            iname, xname = g.target.elts[0].id, g.target.elts[1].id
            self.env[iname] = "N"
            self.env[xname] = "K"
            body = self.toK(self.expr(n.elt))
            self.env = saved
            return V(f"List.map (fun (p : Nat × K) => let {iname} := p.1; let {xname} := p.2; {body.lean}) "
                     f"(List.zip (List.range (List.length {src.p()})) {src.p()})", "L")
        src = self.expr(it)
        if src.ty != "L" or not isinstance(g.target, ast.Name):
            raise TranslateError("comprehension over non-list")
        xname = g.target.id
        self.env[xname] = "K"
        body = self.toK(self.expr(n.elt))
        self.env = saved
        return V(f"List.map (fun ({xname} : K) => {body.lean}) {src.p()}", "L")

    # -- statements ------------------------------------------------------------
    def lean_ty(self, ty):
        if ty == "K":
            return "K"
        if ty == "N":
            return "Nat"
        if ty == "Z":
            return "Int"
        if ty == "L":
            return "List K"
        if isinstance(ty, tuple) and ty[0] == "T":
            return " × ".join(["K"] * ty[1])
        raise TranslateError(f"no lean type for {ty}")

    def bind(self, name, v: V):
        if v.ty in ("N", "Z", "K", "L", "F") or (isinstance(v.ty, tuple) and v.ty[0] == "T"):
            self.lines.append(f"let {name} := {v.lean}")
            self.env[name] = v.ty
        else:
            raise TranslateError(f"cannot bind {name} of type {v.ty}")

    def stmt(self, s):
        if isinstance(s, ast.Expr):
            if isinstance(s.value, ast.Constant):
                return None  # docstring
            if isinstance(s.value, ast.Call) and ast.unparse(s.value.func) == "super().__init__":
                return None
            raise TranslateError(f"expression statement {ast.unparse(s)[:60]}")
        if isinstance(s, ast.FunctionDef):
            self.local_funcs[s.name] = s
            return None
        if isinstance(s, ast.Assign):
            if len(s.targets) != 1:
                raise TranslateError("multiple targets")
            t = s.targets[0]
            v = self.expr(s.value)
            self.assign(t, v)
            return None
        if isinstance(s, ast.Return):
            if isinstance(s.value, ast.Tuple) and len(s.value.elts) == 2 and \
                    isinstance(s.value.elts[1], ast.Constant) and s.value.elts[1].value is None:
                carry = self.expr(s.value.elts[0])
                if carry.ty in ("N", "Z"):
                    carry = self.toK(carry)
                return V("<ret>", ("PAIR",), items=[carry, V("()", "U", atom=True)])
            v = self.expr(s.value)
            return v
        raise TranslateError(f"unsupported statement {type(s).__name__}: {ast.unparse(s)[:60]}")

    def assign(self, t, v: V):
        if isinstance(t, ast.Name):
            if t.id == "_":
                return
            self.bind(t.id, v)
        elif isinstance(t, ast.Attribute) and isinstance(t.value, ast.Name) and t.value.id == "self":
            if v.ty in ("N", "Z"):
                v = self.toK(v)
            self.bind(t.attr, v)
            self.attr_out.append(t.attr)
        elif isinstance(t, ast.Tuple):
            if v.ty == ("PAIR",):
                for tt, vv in zip(t.elts, v.items):
                    if isinstance(tt, ast.Name) and tt.id == "_":
                        continue
                    self.assign(tt, vv)
                return
            names = []
            for e in t.elts:
                if not isinstance(e, ast.Name):
                    raise TranslateError("nested tuple target")
                names.append(e.id)
            if v.items is not None and len(v.items) == len(names):
                for nm, vv in zip(names, v.items):
                    self.bind(nm, vv)
                return
            if isinstance(v.ty, tuple) and v.ty[0] == "T" and v.ty[1] == len(names):
                self.lines.append(f"let ({', '.join(names)}) := {v.lean}")
                for nm in names:
                    self.env[nm] = "K"
            else:
                raise TranslateError("tuple assign mismatch")
        elif isinstance(t, ast.Subscript):
            # list element overwrite: xs[i] = e   (static index)
            base = self.expr(t.value)
            if base.ty == "L" and isinstance(t.slice, ast.Constant) and isinstance(t.value, ast.Name):
                vv = self.toK(v)
                self.lines.append(f"let {t.value.id} := List.set {base.p()} {t.slice.value} {vv.p()}")
            else:
                raise TranslateError("subscript assign")
        else:
            raise TranslateError("assign target")


# ----------------------------------------------------------------------------
# emission
# ----------------------------------------------------------------------------
CLASS_ORDER = ["Add", "Sub", "Mul", "Div", "Neg", "Zero", "One", "NatCast", "IntCast",
               "HasExp", "HasRe", "HasIm", "HasSqrt", "HasAbs", "HasI", "HasPi"]


def inst_binders(used):
    # closure under what the Ops helpers need
    used = set(used)
    if "NatCast" in used or "IntCast" in used:
        pass
    return " ".join(f"[{c} K]" for c in CLASS_ORDER if c in used)


def emit_def(name, params, tr: FunTr, result: V, extra_used=()):
    used = set(tr.used) | set(extra_used)
    binders = []
    for pn, pty in params:
        binders.append(f"({pn} : {tr.lean_ty(pty) if pty != 'F' else 'K → K'})")
    lines, _ = slice_lines(tr.lines, tokens(result.lean))
    body = "\n".join(f"  {l}" for l in lines)
    ret_ty = tr.lean_ty(result.ty)
    inst = inst_binders(used)
    head = f"def {name} {{K : Type}} {inst} {' '.join(binders)} : {ret_ty} :="
    return head + "\n" + (body + "\n" if body else "") + f"  {result.lean}\n", used


def src_hash(node, src):
    seg = ast.get_source_segment(src, node) or ""
    return hashlib.sha256(seg.encode()).hexdigest()[:16]


def find_class(tree, name):
    for n in tree.body:
        if isinstance(n, ast.ClassDef) and n.name == name:
            return n
    raise TranslateError(f"class {name} not found")


def find_func(body, name):
    for n in body:
        if isinstance(n, ast.FunctionDef) and n.name == name:
            return n
    raise TranslateError(f"function {name} not found")


def param_list(fn, types):
    out = []
    for a in list(fn.args.args) + list(fn.args.kwonlyargs):
        if a.arg == "self":
            continue
        if a.arg not in types:
            raise TranslateError(f"no type for parameter {a.arg} of {fn.name}")
        out.append((a.arg, types[a.arg]))
    return out


HEADER = """/- GENERATED by harness/translate.py from {src} — do not edit.
   source span hashes: {hashes} -/
import ExponaxModel.Model.Ops
set_option linter.unusedVariables false
namespace Exponax.Gen.{ns}

"""


def translate_etdrk(out_hashes):
    """etdrk/_base_etdrk.py, _etdrk_{0..4}.py, _utils.py"""
    texts = []
    # roots_of_unity
    path = os.path.join(REPO, "exponax/etdrk/_utils.py")
    src = open(path).read()
    tree = ast.parse(src)
    fn = find_func(tree.body, "roots_of_unity")
    out_hashes["etdrk/_utils.py::roots_of_unity"] = src_hash(fn, src)
    ret = fn.body[-1]
    # pattern: jnp.exp(<c> * jnp.pi * (jnp.arange(1, M + 1) - <h>) / M)   -> per index j = 1..M
    tr = FunTr(None, {"M": "N"})
    tr.env["M"] = "N"

    class ArangeSub(ast.NodeTransformer):
        def visit_Call(self, node):
            self.generic_visit(node)
            if ast.unparse(node.func) == "jnp.arange":
                a = [ast.unparse(x) for x in node.args]
                if a != ["1", "M + 1"]:
                    raise TranslateError(f"roots_of_unity: unexpected arange({', '.join(a)})")
                return ast.Name(id="j", ctx=ast.Load())
            return node

    if not isinstance(ret, ast.Return):
        raise TranslateError("roots_of_unity: no return")
    e = ArangeSub().visit(ret.value)
    tr.env["j"] = "N"
    v = tr.toK(tr.expr(e))
    used = set(tr.used) | {"NatCast"}
    texts.append(
        f"def root_of_unity {{K : Type}} {inst_binders(used)} (M : Nat) (j : Nat) : K :=\n  {v.lean}\n\n"
        f"def roots_of_unity {{K : Type}} {inst_binders(used)} (M : Nat) : List K :=\n"
        f"  List.map (fun i => root_of_unity M (i + 1)) (List.range M)\n"
    )
    roots_cls = used

    # base: _exp_term
    path = os.path.join(REPO, "exponax/etdrk/_base_etdrk.py")
    src = open(path).read()
    tree = ast.parse(src)
    init = find_func(find_class(tree, "BaseETDRK").body, "__init__")
    out_hashes["etdrk/_base_etdrk.py::__init__"] = src_hash(init, src)
    tr = FunTr(None, {"dt": "K", "linear_operator": "K"})
    for s in init.body:
        tr.stmt(s)
    if "_exp_term" not in tr.attr_out:
        raise TranslateError("BaseETDRK.__init__ does not set _exp_term")
    d, _ = emit_def("exp_term", [("dt", "K"), ("linear_operator", "K")], tr, V("_exp_term", "K"))
    texts.append(d)
    base_used = set(tr.used)

    for order in range(0, 5):
        path = os.path.join(REPO, f"exponax/etdrk/_etdrk_{order}.py")
        src = open(path).read()
        tree = ast.parse(src)
        cls = find_class(tree, f"ETDRK{order}")
        init = find_func(cls.body, "__init__")
        step = find_func(cls.body, "step_fourier")
        out_hashes[f"etdrk/_etdrk_{order}.py::__init__"] = src_hash(init, src)
        out_hashes[f"etdrk/_etdrk_{order}.py::step_fourier"] = src_hash(step, src)
        attrs = []
        if order > 0:
            ptypes = {"dt": "K", "linear_operator": "K", "nonlinear_fun": "F",
                      "num_circle_points": "N", "circle_radius": "K"}
            tr = FunTr(f"E{order}", dict(ptypes))
            tr.env = {k: v for k, v in ptypes.items() if v != "F"}
            tr.env["nonlinear_fun"] = "F"
            for s in init.body:
                if isinstance(s, ast.Assign) and ast.unparse(s.targets[0]) == "self._nonlinear_fun":
                    continue
                tr.stmt(s)
            params = [("dt", "K"), ("linear_operator", "K"), ("num_circle_points", "N"),
                      ("circle_radius", "K")]
            attrs = list(tr.attr_out)
            texts.extend(tr.aux_defs)
            for a in attrs:
                d, _ = emit_def(f"E{order}{a}", params, tr, V(a, "K"), extra_used=roots_cls)
                # the let-chain refers to Gen.Etdrk.roots_of_unity
                texts.append(d)
        # step_fourier: vector-generic
        self_attrs = {"_exp_term": "K", "_half_exp_term": "K", "_nonlinear_fun": "F"}
        for a in attrs:
            self_attrs[a] = "K"
        tr = FunTr(None, {}, self_attrs=self_attrs)
        tr.env["u_hat"] = "K"
        out = None
        for s in step.body:
            r = tr.stmt(s)
            if r is not None:
                out = r
        if out is None:
            raise TranslateError(f"ETDRK{order}.step_fourier has no return")
        cand = []
        for a in ["_exp_term", "_half_exp_term"] + attrs + ["_nonlinear_fun"]:
            if a not in cand:
                cand.append(a)
        used_attrs = [a for a in cand if a in tr.params]
        params = [(a, self_attrs[a]) for a in used_attrs] + [("u_hat", "K")]
        d, _ = emit_def(f"E{order}step", params, tr, out)
        texts.append(f"-- parameters (in order): {' '.join(p for p, _ in params)}\n" + d)
    body = "\n".join(texts)
    return HEADER.format(src="exponax/etdrk/*.py", ns="Etdrk", hashes="see Generated/hashes.json") + body + "\nend Exponax.Gen.Etdrk\n"


def translate_convert(out_hashes):
    path = os.path.join(REPO, "exponax/stepper/generic/_utils.py")
    src = open(path).read()
    tree = ast.parse(src)
    texts = []
    helpers = {}
    type_by_name = {
        "domain_extent": "K", "dt": "K", "num_spatial_dims": "N", "num_points": "N",
        "maximum_absolute": "K",
    }
    for fn in tree.body:
        if not isinstance(fn, ast.FunctionDef):
            continue
        out_hashes[f"stepper/generic/_utils.py::{fn.name}"] = src_hash(fn, src)
        ptypes = {}
        for a in list(fn.args.args) + list(fn.args.kwonlyargs):
            if a.arg in type_by_name:
                ptypes[a.arg] = type_by_name[a.arg]
            else:
                ann = ast.unparse(a.annotation) if a.annotation else ""
                if ann.startswith("tuple[float, float, float]"):
                    ptypes[a.arg] = ("T", 3)
                elif ann.startswith("tuple[float, ...]"):
                    ptypes[a.arg] = "L"
                elif ann == "float":
                    ptypes[a.arg] = "K"
                elif ann == "int":
                    ptypes[a.arg] = "N"
                else:
                    raise TranslateError(f"{fn.name}: unsupported annotation {ann} for {a.arg}")
        tr = FunTr(None, dict(ptypes), helpers=helpers)
        out = None
        for s in fn.body:
            r = tr.stmt(s)
            if r is not None:
                out = r
        if out is None:
            raise TranslateError(f"{fn.name}: no return")
        params = param_list(fn, ptypes)
        d, used = emit_def(fn.name, params, tr, out)
        texts.append(d)
        helpers[fn.name] = (fn.name, params, out.ty, used)
    return HEADER.format(src="exponax/stepper/generic/_utils.py", ns="Convert",
                         hashes="see Generated/hashes.json") + "\n".join(texts) + "\nend Exponax.Gen.Convert\n"


def translate_misc(out_hashes):
    texts = []
    # _cross_product_3d
    path = os.path.join(REPO, "exponax/nonlin_fun/_projected_convection.py")
    src = open(path).read()
    tree = ast.parse(src)
    fn = find_func(tree.body, "_cross_product_3d")
    out_hashes["nonlin_fun/_projected_convection.py::_cross_product_3d"] = src_hash(fn, src)
    tr = FunTr(None, {"a": ("T", 3), "b": ("T", 3)})
    out = None
    for s in fn.body:
        r = tr.stmt(s)
        if r is not None:
            out = r
    d, _ = emit_def("cross_product_3d", [("a", ("T", 3)), ("b", ("T", 3))], tr, out)
    texts.append(d)

    # ForcedStepper.step / step_fourier
    path = os.path.join(REPO, "exponax/_forced_stepper.py")
    src = open(path).read()
    tree = ast.parse(src)
    cls = find_class(tree, "ForcedStepper")
    for meth, (a0, a1) in {"step": ("u", "f"), "step_fourier": ("u_hat", "f_hat")}.items():
        fn = find_func(cls.body, meth)
        out_hashes[f"_forced_stepper.py::{meth}"] = src_hash(fn, src)
        tr = FunTr(None, {}, self_attrs={"dt": "K"})
        tr.env[a0] = "K"
        tr.env[a1] = "K"

        # self.stepper.step(x) / self.stepper.step_fourier(x)  -> inner x
        class Inner(ast.NodeTransformer):
            def visit_Call(self, node):
                self.generic_visit(node)
                if ast.unparse(node.func) in ("self.stepper.step", "self.stepper.step_fourier", "self.stepper"):
                    return ast.Call(func=ast.Name(id="inner", ctx=ast.Load()), args=node.args, keywords=[])
                return node

            def visit_Attribute(self, node):
                self.generic_visit(node)
                if ast.unparse(node) == "self.stepper.dt":
                    return ast.Attribute(value=ast.Name(id="self", ctx=ast.Load()), attr="dt", ctx=ast.Load())
                return node
        tr.helpers["inner"] = ("inner", [("x", "K")], "K", set())
        out = None
        for s in fn.body:
            s = Inner().visit(s)
            r = tr.stmt(s)
            if r is not None:
                out = r
        params = [("inner", "F")] + [(p, t) for p, t in tr.params.items()] + [(a0, "K"), (a1, "K")]
        d, _ = emit_def("forced_" + meth, params, tr, out)
        texts.append(f"-- parameters: {' '.join(p for p, _ in params)}\n" + d)

    # dealiasing cutoff arithmetic of BaseNonlinearFun.__init__  (else-branch)
    path = os.path.join(REPO, "exponax/nonlin_fun/_base.py")
    src = open(path).read()
    tree = ast.parse(src)
    init = find_func(find_class(tree, "BaseNonlinearFun").body, "__init__")
    out_hashes["nonlin_fun/_base.py::__init__"] = src_hash(init, src)
    ifs = [s for s in init.body if isinstance(s, ast.If)]
    if len(ifs) != 1 or ast.unparse(ifs[0].test) != "dealiasing_fraction is None":
        raise TranslateError("BaseNonlinearFun.__init__: unexpected structure")
    tr = FunTr(None, {"num_points": "N", "dealiasing_fraction": "K"})
    cutoff_expr = None
    for s in ifs[0].orelse:
        if isinstance(s, ast.Assign) and ast.unparse(s.targets[0]) == "self.dealiasing_mask":
            call = s.value
            if not (isinstance(call, ast.Call) and ast.unparse(call.func) == "low_pass_filter_mask"):
                raise TranslateError("dealiasing mask is not a low_pass_filter_mask call")
            kws = {k.arg: k.value for k in call.keywords}
            if set(kws) != {"cutoff"} or [ast.unparse(a) for a in call.args] != ["num_spatial_dims", "num_points"]:
                raise TranslateError("dealiasing mask: unexpected arguments " + ast.unparse(call))
            cutoff_expr = tr.toK(tr.expr(kws["cutoff"]))
        else:
            tr.stmt(s)
    if cutoff_expr is None:
        raise TranslateError("no dealiasing cutoff found")
    d, _ = emit_def("dealias_cutoff", [("num_points", "N"), ("dealiasing_fraction", "K")], tr, cutoff_expr)
    texts.append(d)
    return HEADER.format(src="nonlin_fun/_projected_convection.py, _forced_stepper.py, nonlin_fun/_base.py",
                         ns="Misc", hashes="see Generated/hashes.json") + "\n".join(texts) + "\nend Exponax.Gen.Misc\n"


# ----------------------------------------------------------------------------
# Steppers: the linear symbol of every stepper class, per stored mode
# ----------------------------------------------------------------------------
STEPPER_GLOBS = ["exponax/stepper/*.py", "exponax/stepper/generic/*.py", "exponax/stepper/reaction/*.py"]
LINOP = "_build_linear_operator"
DERIV_ARG = "derivative_operator"


def _indent(lines, n):
    return [" " * n + l for l in lines]


class OpTr(FunTr):
    """Per-mode translation of array-level code that builds a linear operator out of
    `derivative_operator` (shape D × modes).  At one stored mode:

      derivative_operator                        ↦ κ : List K          (length D)
      array[D]-valued attribute / expression     ↦ List K              ('L')
      array[D, D]-valued attribute / expression  ↦ List (List K)       ('M')
      array[1, modes] (one channel)              ↦ K                   ('K')
      array[C, modes] built by jnp.concatenate   ↦ List K of channels  ('C')

    Vocabulary (everything else raises TranslateError):
      L ** n → map npow;  K * L, L * K → map;  L[:, None] * L[None, :] → outer product;
      jnp.sum(L, axis=0, keepdims=True) → sumList;  jnp.einsum("i,i...->...", L, L),
      jnp.einsum("ij,ij...->...", M, M) → sumList ∘ zipWith;  x[None, ...] → x;
      sum(<K> for i, c in enumerate(L)) → sumList ∘ map;  K * jnp.ones(N) → List.replicate;
      jnp.ones((1, *derivative_operator.shape[1:]), …) → 1;  jnp.concatenate([K, …], axis=0) → [K, …];
      calls of the translated _spectral helpers;  self.<attr> → parameter typed by the class annotation;
      + - * ** (static Nat exponent), unary minus on scalars, local assignment → let,
      `if <cond>: raise …` → recorded guard,  `if <cond>: return …`/`if self.flag: … else: …` → if-then-else.
    """

    def __init__(self, owner, self_attrs, helpers):
        super().__init__(None, {}, self_attrs=self_attrs, helpers=helpers)
        self.owner = owner
        self.guards = []

    # -- types -------------------------------------------------------------------
    def lean_ty(self, ty):
        if ty == "M":
            return "List (List K)"
        if ty == "C":
            return "List K"
        if ty == "B":
            return "Bool"
        return super().lean_ty(ty)

    def bind(self, name, v: V):
        if v.ty in ("M", "C"):
            self.lines.append(f"let {name} := {v.lean}")
            self.env[name] = v.ty
            return
        if v.ty in ("COL", "ROW", "B"):
            raise TranslateError(f"{self.owner}: cannot bind {name} of kind {v.ty}")
        super().bind(name, v)

    def static_nat(self, v: V, what):
        if v.ty != "N":
            raise TranslateError(f"{self.owner}: {what} must be a static natural number, got {v.ty}: {v.lean}")
        return v

    # -- expressions -------------------------------------------------------------
    def expr(self, n) -> V:
        if isinstance(n, ast.UnaryOp):
            v = self.expr(n.operand)
            if isinstance(n.op, ast.USub) and v.ty == "K":
                self.use("Neg")
                return V(f"-{v.p()}", "K")
            if isinstance(n.op, ast.USub) and v.ty in ("N", "Z"):
                return super().expr(n)
            raise TranslateError(f"{self.owner}: unsupported unary operation on {v.ty}: {ast.unparse(n)[:60]}")
        if isinstance(n, (ast.Tuple, ast.List)):
            raise TranslateError(f"{self.owner}: bare tuple/list expression {ast.unparse(n)[:60]}")
        return super().expr(n)

    def attribute(self, n) -> V:
        if isinstance(n.value, ast.Name) and n.value.id == "self":
            if n.attr in self.self_attrs:
                ty = self.self_attrs[n.attr]
                if ty is None:
                    raise TranslateError(f"{self.owner}: self.{n.attr} has an annotation outside the vocabulary")
                self.params.setdefault(n.attr, ty)
                return V(n.attr, ty, atom=True)
            raise TranslateError(f"{self.owner}: unknown attribute self.{n.attr}")
        raise TranslateError(f"{self.owner}: unsupported attribute {ast.unparse(n)[:60]}")

    def binop(self, n) -> V:
        a = self.expr(n.left)
        b = self.expr(n.right)
        op = n.op
        special = ("L", "M", "C", "COL", "ROW", "B")
        if a.ty not in special and b.ty not in special:
            if isinstance(op, ast.Pow):
                if b.ty != "N":
                    raise TranslateError(f"{self.owner}: exponent is not a static natural: {ast.unparse(n)[:60]}")
                return self.power(a, b, n.right)
            if not isinstance(op, (ast.Add, ast.Sub, ast.Mult)):
                raise TranslateError(f"{self.owner}: operator outside the vocabulary: {ast.unparse(n)[:60]}")
            return super().binop(n)
        if isinstance(op, ast.Pow) and a.ty == "L":
            e = self.static_nat(b, "exponent")
            self.use("Mul", "One")
            return V(f"List.map (fun x => npow x {e.p()}) {a.p()}", "L")
        if isinstance(op, ast.Mult):
            if a.ty == "COL" and b.ty == "ROW":
                self.use("Mul")
                return V(f"List.map (fun a => List.map (fun b => a * b) {b.p()}) {a.p()}", "M")
            ones_a, ones_b = getattr(a, "ones", None), getattr(b, "ones", None)
            if ones_b is not None and a.ty in ("K", "N", "Z"):
                return V(f"List.replicate {ones_b} {self.toK(a).p()}", "L")
            if ones_a is not None and b.ty in ("K", "N", "Z"):
                return V(f"List.replicate {ones_a} {self.toK(b).p()}", "L")
            if a.ty in ("K", "N", "Z") and b.ty == "L":
                self.use("Mul")
                return V(f"List.map (fun x => {self.toK(a).p()} * x) {b.p()}", "L")
            if a.ty == "L" and b.ty in ("K", "N", "Z"):
                self.use("Mul")
                return V(f"List.map (fun x => x * {self.toK(b).p()}) {a.p()}", "L")
        raise TranslateError(f"{self.owner}: unsupported array operation ({a.ty} {type(op).__name__} {b.ty}): "
                             f"{ast.unparse(n)[:60]}")

    def subscript(self, n) -> V:
        idx = n.slice
        if isinstance(idx, ast.Tuple):
            v = self.expr(n.value)
            pat = [ast.unparse(e) for e in idx.elts]
            if pat == [":", "None"] and v.ty == "L":
                return V(v.lean, "COL", atom=v.atom)
            if pat == ["None", ":"] and v.ty == "L":
                return V(v.lean, "ROW", atom=v.atom)
            if pat == ["None", "..."] and v.ty == "K":
                return v  # singleton channel axis
            raise TranslateError(f"{self.owner}: unsupported indexing {ast.unparse(n)[:60]} on {v.ty}")
        return super().subscript(n)

    def kwargs(self, n, allowed):
        kw = {}
        for k in n.keywords:
            if k.arg not in allowed:
                raise TranslateError(f"{self.owner}: unexpected keyword {k.arg} in {ast.unparse(n)[:60]}")
            kw[k.arg] = k.value
        return kw

    def call(self, n) -> V:
        fn = ast.unparse(n.func)
        if fn == "jnp.sum":
            kw = self.kwargs(n, ("axis", "keepdims"))
            if len(n.args) != 1 or ast.unparse(kw.get("axis", ast.Constant(None))) != "0" \
                    or ast.unparse(kw.get("keepdims", ast.Constant(None))) != "True":
                raise TranslateError(f"{self.owner}: jnp.sum must be (x, axis=0, keepdims=True): {ast.unparse(n)[:80]}")
            v = self.expr(n.args[0])
            if v.ty != "L":
                raise TranslateError(f"{self.owner}: jnp.sum over axis 0 of a non-vector ({v.ty})")
            self.use("Add", "Zero")
            return V(f"sumList {v.p()}", "K")
        if fn == "jnp.einsum":
            if n.keywords or len(n.args) != 3 or not isinstance(n.args[0], ast.Constant):
                raise TranslateError(f"{self.owner}: unsupported einsum {ast.unparse(n)[:80]}")
            spec = n.args[0].value
            a, b = self.expr(n.args[1]), self.expr(n.args[2])
            self.use("Add", "Zero", "Mul")
            if spec == "i,i...->..." and a.ty == "L" and b.ty == "L":
                return V(f"sumList (List.zipWith (fun a b => a * b) {a.p()} {b.p()})", "K")
            if spec == "ij,ij...->..." and a.ty == "M" and b.ty == "M":
                return V("sumList (List.zipWith (fun r s => sumList (List.zipWith (fun a b => a * b) r s)) "
                         f"{a.p()} {b.p()})", "K")
            raise TranslateError(f"{self.owner}: unsupported einsum {spec!r} on ({a.ty}, {b.ty})")
        if fn == "jnp.ones":
            if len(n.args) == 1 and ast.unparse(n.args[0]) == f"(1, *{DERIV_ARG}.shape[1:])" \
                    and all(k.arg == "dtype" for k in n.keywords):
                self.use("One")
                return V("(1 : K)", "K", atom=True)
            if len(n.args) == 1 and not n.keywords:
                m = self.static_nat(self.expr(n.args[0]), "jnp.ones length")
                self.use("One")
                v = V(f"List.replicate {m.p()} (1 : K)", "L")
                v.ones = m.p()
                return v
            raise TranslateError(f"{self.owner}: unsupported jnp.ones {ast.unparse(n)[:80]}")
        if fn == "jnp.concatenate":
            kw = self.kwargs(n, ("axis",))
            if len(n.args) != 1 or not isinstance(n.args[0], (ast.List, ast.Tuple)) \
                    or ast.unparse(kw.get("axis", ast.Constant(0))) != "0":
                raise TranslateError(f"{self.owner}: unsupported concatenate {ast.unparse(n)[:80]}")
            items = [self.expr(e) for e in n.args[0].elts]
            if not items or any(i.ty != "K" for i in items):
                raise TranslateError(f"{self.owner}: concatenate of non-single-channel operands")
            return V("[" + ", ".join(i.lean for i in items) + "]", "C", atom=True)
        if fn == "sum" and len(n.args) == 1 and not n.keywords and isinstance(n.args[0], ast.GeneratorExp):
            v = self.comprehension(n.args[0])
            self.use("Add", "Zero")
            return V(f"sumList {v.p()}", "K")
        if fn in self.helpers:
            lean_name, plist, ret_ty, cls = self.helpers[fn]
            argv = {}
            if len(n.args) > len(plist):
                raise TranslateError(f"{self.owner}: too many arguments in {ast.unparse(n)[:60]}")
            for i, a in enumerate(n.args):
                if plist[i][3]:
                    raise TranslateError(f"{self.owner}: keyword-only argument passed positionally in {fn}")
                argv[plist[i][0]] = self.expr(a)
            for kw in n.keywords:
                if kw.arg not in [p[0] for p in plist] or kw.arg in argv:
                    raise TranslateError(f"{self.owner}: bad keyword {kw.arg} in call of {fn}")
                argv[kw.arg] = self.expr(kw.value)
            parts = []
            for pn, pty, default, _ in plist:
                if pn in argv:
                    a = argv[pn]
                elif default is not None:
                    a = self.expr(default)
                else:
                    raise TranslateError(f"{self.owner}: missing argument {pn} in call of {fn}")
                if pty == "K" and a.ty in ("N", "Z"):
                    a = self.toK(a)
                if a.ty != pty:
                    raise TranslateError(f"{self.owner}: argument {pn} of {fn} has kind {a.ty}, expected {pty}")
                parts.append(a.p())
            self.used.update(cls)
            return V(f"{lean_name} " + " ".join(parts), ret_ty)
        raise TranslateError(f"{self.owner}: call outside the vocabulary: {ast.unparse(n)[:80]}")

    def comprehension(self, n) -> V:
        g = n.generators[0] if len(n.generators) == 1 else None
        if g is None or g.ifs or not (isinstance(g.iter, ast.Call) and ast.unparse(g.iter.func) == "enumerate"
                                      and len(g.iter.args) == 1 and isinstance(g.target, ast.Tuple)
                                      and len(g.target.elts) == 2
                                      and all(isinstance(e, ast.Name) for e in g.target.elts)):
            raise TranslateError(f"{self.owner}: unsupported comprehension {ast.unparse(n)[:80]}")
        v = super().comprehension(n)
        return v

    # -- conditions --------------------------------------------------------------
    def cond(self, t) -> str:
        if isinstance(t, ast.UnaryOp) and isinstance(t.op, ast.Not):
            return f"¬ ({self.cond(t.operand)})"
        if isinstance(t, ast.Compare) and len(t.ops) == 1 and isinstance(t.ops[0], (ast.Eq, ast.NotEq)):
            a, b = self.expr(t.left), self.expr(t.comparators[0])
            if a.ty in ("N", "Z") and b.ty in ("N", "Z"):
                if a.ty != b.ty:
                    a, b = self.toZ(a), self.toZ(b)
                return f"{a.p()} {'=' if isinstance(t.ops[0], ast.Eq) else '≠'} {b.p()}"
            raise TranslateError(f"{self.owner}: comparison of non-static values: {ast.unparse(t)[:60]}")
        v = self.expr(t)
        if v.ty == "B":
            return f"{v.p()} = true"
        raise TranslateError(f"{self.owner}: unsupported condition {ast.unparse(t)[:60]}")

    # -- blocks ------------------------------------------------------------------
    @staticmethod
    def assigned_names(stmts):
        out = []
        for s in stmts:
            if isinstance(s, ast.Assign) and len(s.targets) == 1 and isinstance(s.targets[0], ast.Name):
                if s.targets[0].id not in out:
                    out.append(s.targets[0].id)
        return out

    def block(self, stmts):
        """translate a statement list that ends in `return`; gives (lines of a Lean term, kind)"""
        saved_lines = self.lines
        self.lines = []
        try:
            for i, s in enumerate(stmts):
                if isinstance(s, ast.Expr) and isinstance(s.value, ast.Constant) and isinstance(s.value.value, str):
                    continue  # docstring
                if isinstance(s, ast.Return):
                    if s.value is None:
                        raise TranslateError(f"{self.owner}: bare return")
                    v = self.expr(s.value)
                    if v.ty in ("COL", "ROW", "B"):
                        raise TranslateError(f"{self.owner}: cannot return a value of kind {v.ty}")
                    if i != len(stmts) - 1:
                        raise TranslateError(f"{self.owner}: statements after return")
                    return self.lines + [v.lean], v.ty
                if isinstance(s, ast.Assign):
                    if len(s.targets) != 1 or not isinstance(s.targets[0], ast.Name):
                        raise TranslateError(f"{self.owner}: unsupported assignment {ast.unparse(s)[:60]}")
                    self.bind(s.targets[0].id, self.expr(s.value))
                    continue
                if isinstance(s, ast.If):
                    body_raises = len(s.body) == 1 and isinstance(s.body[0], ast.Raise)
                    if body_raises and not s.orelse:
                        exc = s.body[0].exc
                        name = ast.unparse(exc.func) if isinstance(exc, ast.Call) else ast.unparse(exc) if exc else "?"
                        self.guards.append(f"{name} if {ast.unparse(s.test)}")
                        continue
                    test = self.cond(s.test)
                    then_ret = bool(s.body) and isinstance(s.body[-1], ast.Return)
                    else_ret = bool(s.orelse) and isinstance(s.orelse[-1], ast.Return)
                    if then_ret and (else_ret or not s.orelse):
                        rest = s.orelse if s.orelse else stmts[i + 1:]
                        if s.orelse and i != len(stmts) - 1:
                            raise TranslateError(f"{self.owner}: statements after a returning if/else")
                        env0 = dict(self.env)
                        tl, tty = self.block(s.body)
                        self.env = dict(env0)
                        el, ety = self.block(rest)
                        self.env = env0
                        if tty != ety:
                            raise TranslateError(f"{self.owner}: branches return different kinds ({tty} / {ety})")
                        return (self.lines + [f"if {test} then"] + _indent(tl, 2) + ["else"] + _indent(el, 2)), tty
                    if then_ret or else_ret:
                        raise TranslateError(f"{self.owner}: only one branch of an if/else returns")
                    if not s.orelse:
                        raise TranslateError(f"{self.owner}: `if` without else that neither raises nor returns")
                    self.branch(test, s)
                    continue
                raise TranslateError(f"{self.owner}: unsupported statement {type(s).__name__}: {ast.unparse(s)[:60]}")
            raise TranslateError(f"{self.owner}: block does not end in return")
        finally:
            self.lines = saved_lines

    def branch_lines(self, stmts):
        saved_lines = self.lines
        self.lines = []
        try:
            for s in stmts:
                if not (isinstance(s, ast.Assign) and len(s.targets) == 1 and isinstance(s.targets[0], ast.Name)):
                    raise TranslateError(f"{self.owner}: only plain assignments are supported inside flag "
                                         f"branches: {ast.unparse(s)[:60]}")
                self.bind(s.targets[0].id, self.expr(s.value))
            return self.lines
        finally:
            self.lines = saved_lines

    def branch(self, test, s):
        env0 = dict(self.env)
        tl = self.branch_lines(s.body)
        env1 = self.env
        self.env = dict(env0)
        el = self.branch_lines(s.orelse)
        env2 = self.env
        self.env = dict(env0)
        a1, a2 = self.assigned_names(s.body), self.assigned_names(s.orelse)
        common = [x for x in a1 if x in a2]
        for x in a1 + a2:
            if x not in common and x in env0:
                raise TranslateError(f"{self.owner}: {x} is reassigned in only one branch of `if {ast.unparse(s.test)}`")
        if not common:
            raise TranslateError(f"{self.owner}: the branches of `if {ast.unparse(s.test)}` define no common name")
        for x in common:
            if env1[x] != env2[x]:
                raise TranslateError(f"{self.owner}: {x} has different kinds in the two branches")
            self.lines.append(f"let {x} := if {test} then (")
            self.lines += _indent(tl + [x + ")"], 4)
            self.lines.append("  else (")
            self.lines += _indent(el + [x + ")"], 4)
            self.env[x] = env1[x]
        # names defined in one branch only stay unbound: a later use raises `unbound name`


def ann_kind(ann):
    """kind of a dataclass field from its annotation (None: outside the vocabulary)"""
    s = ast.unparse(ann)
    if s == "float":
        return "K"
    if s == "bool":
        return "B"
    if s == "int":
        return "N"
    if s == "tuple[float, ...]":
        return "L"
    m = _re.fullmatch(r"tuple\[float(, float)*\]", s)
    if m:
        return ("T", s.count("float"))
    if isinstance(ann, ast.Subscript) and ast.unparse(ann.value) in ("Float", "Complex", "Inexact") \
            and isinstance(ann.slice, ast.Tuple) and len(ann.slice.elts) == 2 \
            and isinstance(ann.slice.elts[1], ast.Constant) and isinstance(ann.slice.elts[1].value, str):
        shape = ann.slice.elts[1].value.split()
        if shape == ["D"]:
            return "L"
        if shape == ["D", "D"]:
            return "M"
        if len(shape) >= 2 and shape[0] == "1" and shape[1] == "...":
            return "K"  # one channel, one value per mode
    return None


def class_fields(cls):
    return [(m.target.id, m.annotation, m) for m in cls.body
            if isinstance(m, ast.AnnAssign) and isinstance(m.target, ast.Name)]


def emit_block_def(name, params, tr: OpTr, lines, ret_ty, comments=()):
    binders = " ".join(f"({pn} : {tr.lean_ty(pty)})" for pn, pty in params)
    head = f"def {name} {{K : Type}} {inst_binders(tr.used)} {binders} : {tr.lean_ty(ret_ty)} :="
    head = " ".join(head.split())
    return "".join(f"-- {c}\n" for c in comments) + head + "\n" + "\n".join(_indent(lines, 2)) + "\n"


def translate_steppers(out_hashes):
    import glob
    texts = []
    # ---- exponax/_spectral.py helpers -------------------------------------------
    path = os.path.join(REPO, "exponax/_spectral.py")
    src = open(path).read()
    tree = ast.parse(src)
    helpers = {}
    spectral = {
        # python name: (lean name, kinds of the parameters)
        "build_laplace_operator": ("laplace_op", {DERIV_ARG: "L", "order": "N"}),
        "build_gradient_inner_product_operator": ("grad_inner", {DERIV_ARG: "L", "velocity": "L", "order": "N"}),
    }
    for pyname, (lean_name, kinds) in spectral.items():
        fn = find_func(tree.body, pyname)
        out_hashes[f"_spectral.py::{pyname}"] = src_hash(fn, src)
        if fn.args.vararg or fn.args.kwarg or fn.args.posonlyargs:
            raise TranslateError(f"{pyname}: unsupported signature")
        plist = []
        pos = list(fn.args.args)
        pos_defaults = [None] * (len(pos) - len(fn.args.defaults)) + list(fn.args.defaults)
        for a, d in zip(pos, pos_defaults):
            plist.append((a.arg, d, False))
        for a, d in zip(fn.args.kwonlyargs, fn.args.kw_defaults):
            plist.append((a.arg, d, True))
        if [p[0] for p in plist] != list(kinds):
            raise TranslateError(f"{pyname}: parameters {[p[0] for p in plist]} differ from the expected {list(kinds)}")
        tr = OpTr(pyname, {}, helpers)
        params = []
        for pn, d, kwonly in plist:
            if d is not None and not (isinstance(d, ast.Constant) and isinstance(d.value, int)
                                      and not isinstance(d.value, bool) and d.value >= 0):
                raise TranslateError(f"{pyname}: default of {pn} is not a natural number literal")
            lean_pn = "κ" if pn == DERIV_ARG else pn
            tr.env[pn] = V(lean_pn, kinds[pn], atom=True)
            params.append((lean_pn, kinds[pn]))
        lines, rty = tr.block(fn.body)
        if rty != "K":
            raise TranslateError(f"{pyname}: result is not one channel")
        comments = [f"{pyname}  (exponax/_spectral.py), at one stored mode; κ = {DERIV_ARG}[:, mode]"]
        comments += [f"defaults: " + ", ".join(f"{pn}={ast.unparse(d)}" for pn, d, _ in plist if d is not None)]
        comments += [f"guard (not modelled): raise {g}" for g in tr.guards]
        texts.append(emit_block_def(lean_name, params, tr, lines, rty, comments))
        helpers[pyname] = (lean_name, [(pn, kinds[pn], d, kwonly) for pn, d, kwonly in plist], rty, set(tr.used))

    # ---- BaseStepper fields (inherited attributes) -----------------------------
    bpath = os.path.join(REPO, "exponax/_base_stepper.py")
    bsrc = open(bpath).read()
    bcls = find_class(ast.parse(bsrc), "BaseStepper")
    base_fields = class_fields(bcls)
    out_hashes["_base_stepper.py::BaseStepper.fields"] = hashlib.sha256(
        "\n".join(ast.get_source_segment(bsrc, m) or "" for _, _, m in base_fields).encode()).hexdigest()[:16]

    # ---- every class with its own _build_linear_operator ---------------------------
    files = []
    for g in STEPPER_GLOBS:
        files += sorted(glob.glob(os.path.join(REPO, g)))
    if not files:
        raise TranslateError("no stepper source files found")
    classes = {}   # name -> (relative file, ClassDef, source)
    for path in files:
        src = open(path).read()
        tree = ast.parse(src)
        rel = os.path.relpath(path, os.path.join(REPO, "exponax"))
        for c in ast.walk(tree):
            if isinstance(c, ast.ClassDef):
                if c.name in classes:
                    raise TranslateError(f"class {c.name} defined twice ({classes[c.name][0]}, {rel})")
                classes[c.name] = (rel, c, src)

    def own_method(c):
        ms = [m for m in c.body if isinstance(m, (ast.FunctionDef, ast.AsyncFunctionDef)) and m.name == LINOP]
        if len(ms) > 1:
            raise TranslateError(f"{c.name}: {LINOP} defined twice")
        return ms[0] if ms else None

    def provider(name, seen=()):
        """the class whose _build_linear_operator `name` uses (None: not a stepper)"""
        if name not in classes or name in seen:
            return None
        c = classes[name][1]
        if own_method(c) is not None:
            return name
        for b in c.bases:
            p = provider(ast.unparse(b).split(".")[-1], seen + (name,))
            if p is not None:
                return p
        return None

    def is_stepper(name, seen=()):
        if name == "BaseStepper":
            return True
        if name not in classes or name in seen:
            return False
        return any(is_stepper(ast.unparse(b).split(".")[-1], seen + (name,)) for b in classes[name][1].bases)

    generated = []
    inherited = []
    signatures = {}    # class -> ([(attribute, kind)], result kind): drives the dispatcher below and the harness
    for name, (rel, c, src) in classes.items():
        m = own_method(c)
        if m is None:
            if is_stepper(name):
                p = provider(name)
                if p is None:
                    raise TranslateError(f"stepper class {name} ({rel}) has no {LINOP} (own or inherited)")
                inherited.append((name, p))
            continue
        if not isinstance(m, ast.FunctionDef) or m.decorator_list:
            raise TranslateError(f"{name}.{LINOP}: decorated / async method")
        out_hashes[f"{rel}::{name}.{LINOP}"] = src_hash(m, src)
        argnames = [a.arg for a in m.args.args]
        if argnames != ["self", DERIV_ARG] or m.args.kwonlyargs or m.args.vararg or m.args.kwarg or m.args.defaults:
            raise TranslateError(f"{name}.{LINOP}: unexpected signature ({', '.join(argnames)})")
        # attribute kinds: own annotations, then those of the ancestors inside the scanned files, then BaseStepper
        attrs, order = {}, []
        chain, todo = [], [name]
        while todo:
            cn = todo.pop(0)
            if cn in chain or cn not in classes:
                continue
            chain.append(cn)
            todo += [ast.unparse(b).split(".")[-1] for b in classes[cn][1].bases]
        field_src = []
        for cn in chain:
            for an, ann, node in class_fields(classes[cn][1]):
                if an not in attrs:
                    attrs[an] = ann_kind(ann)
                    order.append(an)
                    field_src.append(ast.get_source_segment(classes[cn][2], node) or "")
        for an, ann, node in base_fields:
            if an not in attrs:
                attrs[an] = ann_kind(ann)
                order.append(an)
        out_hashes[f"{rel}::{name}.fields"] = hashlib.sha256("\n".join(field_src).encode()).hexdigest()[:16]
        tr = OpTr(f"{name}.{LINOP}", attrs, helpers)
        tr.env[DERIV_ARG] = V("κ", "L", atom=True)
        lines, rty = tr.block(m.body)
        if rty not in ("K", "C"):
            raise TranslateError(f"{name}.{LINOP}: result of kind {rty} is not a (list of) channel(s)")
        used_attrs = [a for a in order if a in tr.params]
        params = [("κ", "L")] + [(a, attrs[a]) for a in used_attrs]
        comments = [f"{name}.{LINOP}  (exponax/{rel}), at one stored mode"
                    + ("; one entry per channel" if rty == "C" else "")]
        comments.append("parameters: κ " + " ".join(f"self.{a}" for a in used_attrs))
        comments += [f"guard (not modelled): raise {g}" for g in tr.guards]
        texts.append(emit_block_def(f"{name}_linear_operator", params, tr, lines, rty, comments))
        generated.append(name)
        signatures[name] = ([(a, attrs[a]) for a in used_attrs], rty)
    if not generated:
        raise TranslateError(f"no class defines {LINOP}")
    inh = "".join(f"-- {n} inherits {LINOP} from {p}: {p}_linear_operator\n" for n, p in sorted(inherited))
    q = lambda x: '"' + x + '"'
    tail = (f"/- {len(generated)} classes define {LINOP}: {', '.join(generated)} -/\n"
            + (inh if inh else "")
            + f"\n/-- the classes with their own `{LINOP}` (sorted); `Proofs/StepperSymbols.lean` pins this list, so a new\n"
              "    class without a theorem breaks the build -/\n"
            + "def generated_classes : List String :=\n  [" + ", ".join(q(n) for n in sorted(generated)) + "]\n"
            + f"\n/-- (class, class whose `{LINOP}` it inherits) -/\n"
            + "def inherited_classes : List (String × String) :=\n  ["
            + ", ".join(f"({q(n)}, {q(p_)})" for n, p_ in sorted(inherited)) + "]\n")
    # ---- dispatcher for the executable driver (numerical validation of this translator against the implementation) ---
    disp = ["/-- one argument of a regenerated operator, as the driver reads it -/",
            "inductive Arg (K : Type) where",
            "  | s (x : K) | v (xs : List K) | m (xs : List (List K)) | b (x : Bool) | n (x : Nat)",
            "",
            "/-- evaluate the regenerated `_build_linear_operator` of class `name` at one stored mode (one entry per channel) -/",
            "def eval_linear_operator {K : Type} [Add K] [Sub K] [Mul K] [Neg K] [Zero K] [One K] [NatCast K] [HasI K]",
            "    (name : String) (κ : List K) (args : List (Arg K)) : Option (List K) :=",
            "  match name, args with"]
    sig_json = {}
    for name in sorted(generated):
        plist, rty = signatures[name]
        pats, call = [], []
        for i, (a, kind) in enumerate(plist):
            if kind == "K":
                pats.append(f".s a{i}"); call.append(f"a{i}")
            elif kind == "L":
                pats.append(f".v a{i}"); call.append(f"a{i}")
            elif kind == "M":
                pats.append(f".m a{i}"); call.append(f"a{i}")
            elif kind == "B":
                pats.append(f".b a{i}"); call.append(f"a{i}")
            elif kind == "N":
                pats.append(f".n a{i}"); call.append(f"a{i}")
            elif isinstance(kind, tuple) and kind[0] == "T":
                comps = [f"a{i}_{j}" for j in range(kind[1])]
                pats.append(".v [" + ", ".join(comps) + "]"); call.append("(" + ", ".join(comps) + ")")
            else:
                raise TranslateError(f"{name}: parameter {a} of kind {kind} has no driver encoding")
        app = f"{name}_linear_operator κ " + " ".join(call)
        res = f"some ({app.strip()})" if rty == "C" else f"some [{app.strip()}]"
        disp.append(f"  | \"{name}\", [{', '.join(pats)}] => {res}")
        sig_json[name] = {"params": [[a, (kind if isinstance(kind, str) else f"T{kind[1]}")] for a, kind in plist], "result": rty}
    disp.append("  | _, _ => none")
    for n_, p_ in sorted(inherited):
        sig_json[n_] = {"inherits": p_}
    write_if_changed(os.path.join(GEN_DIR, "steppers_signatures.json"), json.dumps(sig_json, indent=1, sort_keys=True) + "\n")
    return HEADER.format(src="exponax/_spectral.py, exponax/stepper/**/*.py (_build_linear_operator)",
                         ns="Steppers", hashes="see Generated/hashes.json") + "\n".join(texts) + "\n" + tail \
        + "\n" + "\n".join(disp) + "\n" + "\nend Exponax.Gen.Steppers\n"


TARGETS = {
    "Etdrk": translate_etdrk,
    "Convert": translate_convert,
    "Misc": translate_misc,
    "Steppers": translate_steppers,
}


def write_if_changed(path, text):
    if os.path.exists(path) and open(path).read() == text:
        return False
    with open(path, "w") as f:
        f.write(text)
    return True


PLUGINS = ["translate_layout", "translate_nonlin", "translate_metrics", "translate_wiring", "translate_spectral2", "translate_guards", "translate_ic2", "translate_base"]   # modules exposing TARGETS (same convention)


def all_targets():
    """TARGETS of this module plus those of the plug-in translator modules that are present"""
    import importlib
    out = dict(TARGETS)
    here = os.path.dirname(os.path.abspath(__file__))
    if here not in sys.path:
        sys.path.insert(0, here)
    for mod in PLUGINS:
        if os.path.exists(os.path.join(here, mod + ".py")):
            m = importlib.import_module(mod)
            for k, fn in m.TARGETS.items():
                out[k] = fn
    return out


def run(targets=None):
    """returns dict target -> {'ok': bool, 'error': str|None, 'changed': bool}"""
    os.makedirs(GEN_DIR, exist_ok=True)
    res = {}
    hashes = {}
    for name, fn in all_targets().items():
        if targets and name not in targets:
            continue
        try:
            text = fn(hashes)
            changed = write_if_changed(os.path.join(GEN_DIR, name + ".lean"), text)
            res[name] = {"ok": True, "error": None, "changed": changed}
        except (SyntaxError, FileNotFoundError) as e:  # broken obligation
            res[name] = {"ok": False, "error": f"{type(e).__name__}: {e}", "changed": False}
        except Exception as e:  # noqa: BLE001  TranslateError (also the plug-ins' copy of the class), anything else
            if type(e).__name__ != "TranslateError":
                raise
            res[name] = {"ok": False, "error": f"{type(e).__name__}: {e}", "changed": False}
    write_if_changed(os.path.join(GEN_DIR, "hashes.json"), json.dumps(hashes, indent=1, sort_keys=True) + "\n")
    return res, hashes


if __name__ == "__main__":
    r, h = run(sys.argv[1:] or None)
    print(json.dumps(r, indent=1))
    sys.exit(0 if all(v["ok"] for v in r.values()) else 3)
