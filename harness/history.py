#!/venv/bin/python
"""
History pass: the property-level probes of a property, run in a FRESH process AFTER a "previous life" of that process —
the public API used with non-default options (other indexing, other contour parameters, other domain extents, other
resolutions, other orders, wrappers of wrappers) on the same grid sizes the probes use.

A library whose functions are pure — every property in properties.jsonl presupposes that — gives the same probe results
with and without the previous life.  A module-level memo keyed on too little, an in-place update of a cached array, a
class attribute written by one instance and read by the next: none of them shows in a fresh process, all of them show
here.  The probes are the ordinary `oracle(ctx, deep=False)` of the property module; a failure found here is replayed by
`replay.py` with the same previous life (`history` = seed of `disturb`) in front of the probe.

  history.py <Cxx> <tier> <seed>      prints one JSON object {"failures": [...], "ran": n, "disturbed": n}
"""
from __future__ import annotations

import contextlib
import importlib
import json
import os
import sys
import traceback

HERE = os.path.dirname(os.path.abspath(__file__))
sys.path.insert(0, HERE)
os.environ.setdefault("JAX_PLATFORMS", "cpu")
os.environ.setdefault("XLA_FLAGS", "--xla_force_host_platform_device_count=1")


ALL_SECTIONS = ("layout", "contour", "fluid", "registry", "misc")
# which parts of the previous life can reach the code a property is about (keeps the pass short)
SECTIONS = {
    "C01": ("layout", "contour", "registry"), "C02": ("contour", "registry"), "C03": ("layout", "fluid", "registry"),
    "C04": ("layout", "misc"), "C05": ("layout", "misc"), "C06": ("contour", "registry"), "C07": ("contour", "registry"),
    "C08": ("layout", "fluid", "registry"), "C09": ("layout", "contour", "fluid", "registry"), "C10": ("layout", "fluid"),
    "C11": ("layout", "registry"), "C12": ("layout", "fluid"), "C13": ("layout", "contour", "registry"),
    "C14": ("contour", "registry"), "C15": ("layout", "misc"), "C16": ("layout", "misc"), "C17": ("layout", "misc"),
    "C18": ("layout", "misc"), "C19": ("contour", "registry"), "C20": ("layout", "registry", "misc"),
}


def disturb(seed, pid=None):
    """the previous life.  Deterministic in `seed`; every call is wrapped so that a refusal by the library is not an
    error here.  Returns the number of calls that went through."""
    import numpy as np
    from props import util as U  # noqa: F401  (enables x64 exactly as the checks do)
    import jax
    import jax.numpy as jnp
    import exponax as ex
    sp = ex.spectral
    rng = np.random.default_rng(1000 + seed)
    n = 0
    want = SECTIONS.get(pid, ALL_SECTIONS)
    import time
    _t = [time.time()]

    def go(f):
        nonlocal n
        try:
            r = f()
            n += 1
            return r
        except Exception:  # noqa: BLE001
            return None

    def coin(p=0.5):
        return bool(rng.random() < p)

    if 'layout' in want:
        # 1. layout helpers with the non-default indexing FIRST (before any default request for the same grid)
        for D in (2, 3, 1):
            pool = {1: list(range(4, 26)), 2: list(range(3, 21)), 3: list(range(3, 13))}[D]
            common_sizes = {1: [8, 12, 16], 2: [6, 8, 9, 12], 3: [4, 5, 6]}[D]   # sizes most probes use
            for N in sorted(set(common_sizes) | set(int(x) for x in rng.choice(pool, size={1: 3, 2: 5, 3: 2}[D], replace=False))):
                L = float(rng.uniform(0.5, 9.0))
                if coin(0.7):
                    go(lambda: sp.build_wavenumbers(D, N, indexing="xy"))
                if coin(0.5):
                    go(lambda: sp.build_scaled_wavenumbers(D, L, N, indexing="xy"))
                if coin(0.5):
                    go(lambda: sp.build_derivative_operator(D, L, N, indexing="xy"))
                if coin(0.4):
                    go(lambda: sp.low_pass_filter_mask(D, N, cutoff=max(N // 3, 1), axis_separate=coin(), indexing="xy"))
                if coin(0.4):
                    go(lambda: sp.build_scaling_array(D, N, mode=["norm_compensation", "reconstruction", "coef_extraction"][int(rng.integers(0, 3))], indexing="xy"))
                if coin(0.4):
                    go(lambda: ex.make_grid(D, L, N, full=coin(), zero_centered=coin(), indexing="xy"))
                if D >= 2 and coin(0.25) and N <= 12:
                    u = jnp.asarray(rng.normal(size=(D,) + (N,) * D))
                    go(lambda: sp.make_incompressible(u, indexing="xy"))
                    go(lambda: sp.derivative(u, L, order=int(rng.integers(1, 4)), indexing="xy"))
                    go(lambda: sp.get_fourier_coefficients(u, indexing="xy"))
                    go(lambda: ex.FourierInterpolator(u, domain_extent=L, indexing="xy")(jnp.asarray(rng.uniform(0, L, size=(D, 3)))))
    _t.append(time.time())
    if 'contour' in want:
        # 2. integrators and steppers with non-default contours, orders, time steps, domain extents
        configs = [(16, 2.0), (16, 0.5), (32, 4.0), (8, 1.5), (24, 1.5), (15, 2.0)]
        for order in (1, 2, 3, 4):
            for (M, r) in [(16, 2.0), configs[int(rng.integers(1, len(configs)))]]:
                lin = jnp.asarray((rng.normal(size=(1, 7)) - 1.0) + 1j * rng.normal(size=(1, 7)))
                cls = getattr(ex.etdrk, f"ETDRK{order}")
                go(lambda: cls(float(rng.uniform(0.01, 1.0)), lin, (lambda v: 0.5 * v * v), num_circle_points=M, circle_radius=r))
                go(lambda: ex.stepper.Burgers(1, float(rng.uniform(1, 9)), int(rng.integers(8, 20)), float(rng.uniform(0.01, 0.3)),
                                              order=order, num_circle_points=M, circle_radius=r)(jnp.asarray(rng.normal(size=(1, 1)) * 0 + 0)))
                if coin(0.3):
                    go(lambda: ex.stepper.KortewegDeVries(1, 20.0, int(rng.integers(8, 20)), 0.01, order=order, num_circle_points=M, circle_radius=r))
    _t.append(time.time())
    if 'fluid' in want:
        for N in (4, 5, 6, 8, 12):
            for L in (float(rng.choice([1.0, 5.0, 0.3])),):
                if coin(0.6):
                    go(lambda: ex.stepper.NavierStokesVelocity(3, L, N, 0.01, diffusivity=0.05, drag=-0.02, order=int(rng.integers(1, 5))))
                if coin(0.4):
                    go(lambda: ex.stepper.KolmogorovFlowVelocity(3, L, N, 0.01, injection_mode=1, injection_scale=0.7))
                if coin(0.4):
                    go(lambda: ex.nonlin_fun.ProjectedConvection3d(3, N, derivative_operator=sp.build_derivative_operator(3, L, N),
                                                                   dealiasing_fraction=2 / 3))
                if coin(0.5):
                    go(lambda: ex.stepper.NavierStokesVorticity(2, L, N + 2, 0.02, diffusivity=0.02, drag=-0.05))
                if coin(0.5):
                    go(lambda: ex.stepper.KolmogorovFlowVorticity(2, L, N + 2, 0.02, injection_mode=1 + int(rng.integers(0, 2)), injection_scale=float(rng.uniform(0.3, 2))))
    _t.append(time.time())
    if 'registry' in want:
        try:
            from props import steppers as S
            reg = S.registry()
            names = list(reg.keys())
            for i in rng.permutation(len(names))[:8]:
                name = names[int(i)]
                D = 2 if "Vorticity" in name else (3 if "Velocity" in name else int(rng.integers(1, 3)))
                N = {1: int(rng.integers(6, 17)), 2: int(rng.integers(5, 9)), 3: 5}[D]
                spec = go(lambda: reg[name](rng, D, N, int(rng.integers(0, 5))))
                if spec is None:
                    continue
                st = go(spec.build)
                if st is None:
                    continue
                u = jnp.asarray(S.random_state(rng, spec.C, D, N, "smooth"))
                go(lambda: st(u))
                if coin(0.4):
                    go(lambda: ex.RepeatedStepper(st, int(rng.integers(2, 4)))(u))
                if coin(0.3):
                    go(lambda: ex.ForcedStepper(st)(u, 0.1 * u))
                if coin(0.3):
                    go(lambda: ex.ForcedStepper(ex.RepeatedStepper(st, 2))(u, 0.1 * u))
                if coin(0.3):
                    go(lambda: ex.rollout(st, 3, include_init=coin())(u))
                if coin(0.2):
                    go(lambda: jax.jit(st)(u))
        except Exception:  # noqa: BLE001
            pass
    _t.append(time.time())
    if 'misc' in want:
        # 3. Poisson, interpolation, spectra, metrics, generators with their less common options
        for D in (1, 2, 3):
            for N in ((8, 9) if D < 3 else (5,)):
                u = jnp.asarray(rng.normal(size=(2,) + (N,) * D))
                L = float(rng.uniform(0.5, 9.0))
                if coin():
                    go(lambda: ex.poisson.Poisson(D, L, N, order=[2, 4][int(rng.integers(0, 2))])(u[:1]))
                if coin():
                    go(lambda: ex.map_between_resolutions(u, int(rng.integers(3, 20)), oddball_zero=coin()))
                if coin():
                    go(lambda: ex.get_spectrum(u, power=coin(), radial_binning=["average", "sum"][int(rng.integers(0, 2))]))
                if coin():
                    go(lambda: sp.get_fourier_coefficients(u, scaling_compensation_mode=[None, "norm_compensation", "reconstruction"][int(rng.integers(0, 3))], round=None))
                if coin():
                    go(lambda: ex.metrics.fourier_nRMSE(u, u + 1.0, domain_extent=L, low=1, high=max(N // 3, 1)))
                    go(lambda: ex.metrics.H1_MSE(u, 0.5 * u, domain_extent=L))
                    go(lambda: ex.metrics.mean_metric(ex.metrics.sRMSE, jnp.stack([u, 2 * u]), jnp.stack([u + 1, u]), domain_extent=L))
                key = jax.random.PRNGKey(int(rng.integers(0, 10**6)))
                if coin():
                    go(lambda: ex.ic.GaussianRandomField(D, domain_extent=L, powerlaw_exponent=float(rng.uniform(1, 4)), zero_mean=coin(), max_one=True)(N, key=key))
                    go(lambda: ex.ic.DiffusedNoise(D, domain_extent=L, intensity=float(rng.uniform(1e-4, 1e-2)), zero_mean=False, std_one=False)(N, key=key))
                    go(lambda: ex.ic.RandomTruncatedFourierSeries(D, cutoff=int(rng.integers(1, 5)), offset_range=(1.0, 2.0), max_one=True)(N, key=key))
                    go(lambda: ex.ic.RandomDiscontinuities(D, domain_extent=L, num_discontinuities=2, zero_mean=False)(N, key=key))
                    go(lambda: ex.build_ic_set(ex.ic.RandomGaussianBlobs(D, domain_extent=L), num_points=N, num_samples=2, key=key))
    _t.append(time.time())
    if os.environ.get('VERIF_HISTORY_TIMES'):
        sys.stderr.write('history sections: ' + ' '.join(f'{b - a:.1f}' for a, b in zip(_t, _t[1:])) + '\n')
    return n


def run(pid, tier, seed):
    import common as C
    os.environ["VERIF_SEED"] = str(seed)
    disturbed = disturb(seed, pid)
    mod = importlib.import_module(f"props.{pid.lower()}")
    ctx = C.Ctx(pid, tier)
    drv = None
    try:
        drv = C.Driver()
        import props.steppers as S
        S.DRIVER = drv
        S._EFF_CACHE.clear()
    except Exception:  # noqa: BLE001  (the probes that need the translated cut-off arithmetic will report it)
        drv = None
    try:
        with contextlib.redirect_stdout(sys.stderr):
            failures = mod.oracle(ctx, deep=False)
        err = None
    except Exception as e:  # noqa: BLE001
        failures, err = [], f"{type(e).__name__}: {e}\n" + traceback.format_exc()[-800:]
    finally:
        if drv is not None:
            drv.close()
    return {"failures": failures, "ran": ctx.evaluations, "disturbed": disturbed, "error": err}


if __name__ == "__main__":
    out = run(sys.argv[1], sys.argv[2], int(sys.argv[3]))
    sys.stdout.write("HISTORY-RESULT " + json.dumps(out, default=str) + "\n")
