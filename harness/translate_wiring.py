#!/usr/bin/env python3
"""
Translator for the WIRING of the stepper classes: regenerates
lean/ExponaxModel/Generated/StepperWiring.lean from the *current* source of every class under
exponax/stepper/** that derives (directly or not) from `BaseStepper` (Python `ast`, the package is never imported).

What is translated, per class `X`:

  structure XArgs K                 the constructor parameters of `X.__init__` (one field each, typed by the annotation;
                                    `A | B | float` unions are the sum type `Arg K`, `dealiasing_fraction` is the
                                    rational `Nat × Nat` of `Nonlin.Cfg`)
  X_with_defaults                   the arguments when only the parameters WITHOUT default are given (all defaults)
  X_init_<attr>[_<form>]            value of every attribute `self.<attr> = …` set in `X.__init__` as a function of the
                                    constructor arguments (one definition per form of a union argument)
  X_super_args : XArgs → PArgs      the argument tuple of `super().__init__(…)` (P = parent class; `BaseStepperArgs`
                                    for the direct children of BaseStepper), defaults of the parent for keywords that
                                    are not passed; calls of `stepper/generic/_utils.py` are `Gen.Convert.*`
  X_base_args, X_num_channels       what finally reaches `BaseStepper.__init__`
  X_nonlinear_fun                   `_build_nonlinear_fun`: `Gen.NonlinFuns.<NonlinClass>_call` with exactly the
                                    arguments the source passes (positional / keyword arguments resolved against the
                                    nonlinear class's `__init__`, defaults for keywords that are not passed)
  X_stepper_nonlinear_fun           constructor arguments → stored attributes → nonlinear function (a class that
                                    inherits `_build_nonlinear_fun` goes through `X_super_args`)

Vocabulary of `__init__` (everything else raises TranslateError, or — inside one assignment — makes the assigned name
"untranslated": it is listed in `untranslated_attributes`, which the proof file pins, and any use of it is an error):
  plain assignments to names / `self.<attr>`; arithmetic on floats / ints; tuples and lists of floats; `(x,) * n`,
  tuple `+` tuple; `a if flag else b`; `isinstance(x, float)` and `len(x.shape) == k` on a union argument (resolved per
  form); `jnp.ones(n)`, `jnp.diag`, `jnp.eye`, `.T`; array ∘ scalar, array ∘ array (+ - * /) on vectors / matrices;
  calls of the functions of `stepper/generic/_utils.py`; `if <cond>: raise …` (recorded guard); `if …: print(…)`
  (ignored, noted); `super().__init__(…)`.
Vocabulary of `_build_nonlinear_fun`: `return <NonlinClass>(…)`, possibly under `if <cond>: … else: …` where <cond> is
  built from `isinstance(self.<attr>, (int, float))` (a Boolean parameter `<attr>_is_number`), `self.<attr> == 0.0`,
  `and`; arguments are arithmetic on `self.<attr>`, literals, lists; `self.num_spatial_dims`, `self.num_points`,
  `derivative_operator` must be passed through unchanged (they are the `Nonlin.Cfg`), `dealiasing_fraction` must be
  `self.dealiasing_fraction` or a literal.
"""
from __future__ import annotations

import ast
import glob
import hashlib
import json
import os
import re
import sys
from fractions import Fraction

sys.path.insert(0, os.path.dirname(os.path.abspath(__file__)))
import translate as T  # noqa: E402
import translate_nonlin as TN  # noqa: E402
from translate import V, TranslateError  # noqa: E402

NS = "StepperWiring"
BASE = "BaseStepper"
NLF = "_build_nonlinear_fun"
STEPPER_GLOB = "exponax/stepper/**/*.py"
UTILS_REL = "stepper/generic/_utils.py"
DF_NAME = "dealiasing_fraction"

LEAN_RESERVED = {"at", "from", "fun", "open", "end", "in", "do", "then", "else", "if", "let", "have", "show", "by",
                 "match", "with", "where", "structure", "def", "theorem", "namespace", "section", "variable", "a", "c",
                 "C", "K", "uh", "x", "y", "r", "s", "i", "j", "v", "lit", "qlit", "npow"}


# ----------------------------------------------------------------------------
# kinds
# ----------------------------------------------------------------------------
def lean_ty(kind):
    if kind == "K":
        return "K"
    if kind == "N":
        return "Nat"
    if kind == "B":
        return "Bool"
    if kind == "L":
        return "List K"
    if kind == "M":
        return "List (List K)"
    if kind == "DF":
        return "Nat × Nat"
    if isinstance(kind, tuple) and kind[0] == "T":
        return " × ".join(["K"] * kind[1])
    if isinstance(kind, tuple) and kind[0] == "U":
        return "Arg K"
    raise TranslateError(f"no Lean type for kind {kind}")


FORM_NAME = {"K": "scalar", "L": "vector", "M": "matrix"}


def flatten_union(ann):
    if isinstance(ann, ast.BinOp) and isinstance(ann.op, ast.BitOr):
        return flatten_union(ann.left) + flatten_union(ann.right)
    return [ann]


def param_kind(owner, arg, default):
    """kind of a constructor parameter from its annotation (or, unannotated, from its literal default)"""
    if arg.arg == DF_NAME:
        return "DF"
    ann = arg.annotation
    if ann is None:
        if isinstance(default, ast.Constant):
            v = default.value
            if isinstance(v, bool):
                return "B"
            if isinstance(v, int):
                return "N"
            if isinstance(v, float):
                return "K"
        raise TranslateError(f"{owner}: parameter {arg.arg} has neither an annotation nor a literal default")
    parts = flatten_union(ann)
    kinds = []
    for p in parts:
        k = T.ann_kind(p)
        if k is None:
            raise TranslateError(f"{owner}: annotation {ast.unparse(p)} of parameter {arg.arg} outside the vocabulary")
        kinds.append(k)
    if len(kinds) == 1:
        return kinds[0]
    if any(k not in FORM_NAME for k in kinds) or len(set(kinds)) != len(kinds):
        raise TranslateError(f"{owner}: union annotation {ast.unparse(ann)} of parameter {arg.arg} outside the vocabulary")
    return ("U", tuple(kinds))


def signature(owner, fn):
    """[(name, kind, default ast | None)] of a constructor (without self)"""
    if fn.args.vararg or fn.args.kwarg or fn.args.posonlyargs or fn.decorator_list:
        raise TranslateError(f"{owner}: unsupported signature")
    pos = list(fn.args.args)[1:]
    pd = [None] * (len(pos) - len(fn.args.defaults)) + list(fn.args.defaults)
    out = []
    for a, d in list(zip(pos, pd)) + list(zip(fn.args.kwonlyargs, fn.args.kw_defaults)):
        if a.arg in LEAN_RESERVED:
            raise TranslateError(f"{owner}: parameter name {a.arg} clashes with a reserved name of the generated file")
        out.append((a.arg, param_kind(owner, a, d), d))
    return out


def frac_of_ast(owner, node):
    """exact rational value of a literal arithmetic expression (for dealiasing fractions)"""
    if isinstance(node, ast.Constant) and isinstance(node.value, (int, float)) and not isinstance(node.value, bool):
        if isinstance(node.value, int):
            return Fraction(node.value)
        f = Fraction(repr(node.value))
        return f if float(f) == node.value else Fraction(node.value)
    if isinstance(node, ast.BinOp) and isinstance(node.op, (ast.Add, ast.Sub, ast.Mult, ast.Div)):
        a, b = frac_of_ast(owner, node.left), frac_of_ast(owner, node.right)
        if isinstance(node.op, ast.Add):
            return a + b
        if isinstance(node.op, ast.Sub):
            return a - b
        if isinstance(node.op, ast.Mult):
            return a * b
        if b == 0:
            raise TranslateError(f"{owner}: division by zero in {ast.unparse(node)}")
        return a / b
    raise TranslateError(f"{owner}: dealiasing fraction {ast.unparse(node)[:60]} is not a literal")


def df_literal(owner, node):
    if isinstance(node, ast.Constant) and node.value is None:
        return V("(0, 0)", "DF", atom=True)      # no dealiasing mask: fq = 0
    f = frac_of_ast(owner, node)
    if f < 0:
        raise TranslateError(f"{owner}: negative dealiasing fraction")
    return V(f"({f.numerator}, {f.denominator})", "DF", atom=True)


# ----------------------------------------------------------------------------
# expression / statement translator
# ----------------------------------------------------------------------------
class Poison:
    """the value of a name whose assignment could not be translated"""

    def __init__(self, msg):
        self.msg = msg


class WireTr(T.FunTr):
    def __init__(self, owner, conv, self_kinds=None):
        super().__init__(None, {})
        self.owner = owner
        self.conv = conv                 # functions of stepper/generic/_utils.py
        self.self_kinds = self_kinds     # method mode: attribute -> kind
        self.used_attrs = []             # method mode: attributes read, in order of first use
        self.extra_bools = []            # method mode: Boolean parameters standing for isinstance checks
        self.guards, self.notes = [], []
        self.attrs = {}                  # __init__ mode: attribute -> V | Poison (assignment order)
        self.super_call = None

    def err(self, msg):
        return TranslateError(f"{self.owner}: {msg}")

    # -- coercions ---------------------------------------------------------------
    def coerce(self, v, kind, what):
        if isinstance(v, Poison):
            raise self.err(f"{what}: {v.msg}")
        if kind == "K" and v.ty in ("K", "N", "Z"):
            return self.toK(v)
        if kind == "N" and v.ty == "N":
            return v
        if kind == "B" and v.ty == "B":
            return v
        if kind == "B" and v.ty == "SB":
            return V("true" if v.value else "false", "B", atom=True)
        if kind == "L":
            if v.ty == "L":
                return v
            if isinstance(v.ty, tuple) and v.ty[0] == "T" and v.items is not None:
                return V("[" + ", ".join(self.toK(i).lean for i in v.items) + "]", "L", atom=True)
        if kind == "M" and v.ty == "M":
            return v
        if isinstance(kind, tuple) and kind[0] == "T":
            if v.ty == kind and v.items is None:
                return v
            if v.items is not None and len(v.items) == kind[1]:
                return V("(" + ", ".join(self.toK(i).lean for i in v.items) + ")", kind, atom=True)
        if kind == "DF" and v.ty == "DF":
            return v
        if isinstance(kind, tuple) and kind[0] == "U":
            for f in kind[1]:
                try:
                    w = self.coerce(v, f, what)
                except TranslateError:
                    continue
                return V(f"Arg.{FORM_NAME[f]} {w.p()}", kind)
        raise self.err(f"{what}: a value of kind {v.ty} ({v.lean[:40]}) where {kind} is expected")

    # -- expressions ---------------------------------------------------------------
    def const(self, c):
        if c is None:
            return V("None", "NONE", atom=True)
        if isinstance(c, str):
            raise self.err(f"string constant {c!r}")
        return super().const(c)

    def expr(self, n):
        if isinstance(n, ast.Constant):
            return self.const(n.value)
        if isinstance(n, ast.Name):
            if n.id in self.env:
                v = self.env[n.id]
                if isinstance(v, Poison):
                    raise self.err(f"use of {n.id}, which is not translated ({v.msg})")
                return v
            raise self.err(f"unbound name {n.id}")
        if isinstance(n, (ast.Tuple, ast.List)):
            items = [self.expr(e) for e in n.elts]
            if all(i.ty in ("K", "N", "Z") for i in items):
                ks = [self.toK(i) for i in items]
                return V("(" + ", ".join(k.lean for k in ks) + ")", ("T", len(ks)), atom=True, items=ks)
            raise self.err(f"tuple/list of non-scalars {ast.unparse(n)[:60]}")
        if isinstance(n, ast.IfExp):
            t = self.expr(n.test)
            a, b = self.expr(n.body), self.expr(n.orelse)
            if t.ty == "SB":
                return a if t.value else b
            if t.ty != "B":
                raise self.err(f"condition of kind {t.ty} in {ast.unparse(n)[:60]}")
            if a.ty != b.ty or a.ty not in ("K", "N", "Z", "L", "M"):
                if {a.ty, b.ty} <= {"K", "N", "Z"}:
                    a, b = self.toK(a), self.toK(b)
                else:
                    raise self.err(f"branches of different kinds in {ast.unparse(n)[:60]}")
            return V(f"if {t.p()} = true then {a.lean} else {b.lean}", a.ty)
        if isinstance(n, ast.UnaryOp):
            v = self.expr(n.operand)
            if isinstance(n.op, ast.UAdd):
                return v
            if isinstance(n.op, ast.USub):
                if v.ty == "N":
                    return V(f"-({v.lean} : Int)", "Z")
                if v.ty == "Z":
                    return V(f"-{v.p()}", "Z")
                if v.ty == "K":
                    return V(f"-{v.p()}", "K")
                if v.ty == "L":
                    return V(f"List.map (fun x => -x) {v.p()}", "L")
                if v.ty == "M":
                    return V(f"List.map (fun r => List.map (fun x => -x) r) {v.p()}", "M")
            if isinstance(n.op, ast.Not) and v.ty == "SB":
                w = V("", "SB")
                w.value = not v.value
                return w
            if isinstance(n.op, ast.Not) and v.ty == "B":
                return V(f"!{v.p()}", "B")
            raise self.err(f"unsupported unary operation {ast.unparse(n)[:60]}")
        if isinstance(n, ast.BinOp):
            return self.binop(n)
        if isinstance(n, ast.BoolOp):
            vs = [self.expr(e) for e in n.values]
            sym = "&&" if isinstance(n.op, ast.And) else "||"
            if all(v.ty == "SB" for v in vs):
                w = V("", "SB")
                w.value = all(v.value for v in vs) if sym == "&&" else any(v.value for v in vs)
                return w
            vs = [self.coerce(v, "B", ast.unparse(n)[:40]) for v in vs]
            return V(f" {sym} ".join(v.p() for v in vs), "B")
        if isinstance(n, ast.Compare):
            return self.compare(n)
        if isinstance(n, ast.Attribute):
            return self.attribute(n)
        if isinstance(n, ast.Subscript):
            v = self.expr(n.value)
            if isinstance(n.slice, ast.Constant) and isinstance(n.slice.value, int) and n.slice.value >= 0:
                i = n.slice.value
                if v.items is not None:
                    if i >= len(v.items):
                        raise self.err(f"index out of range in {ast.unparse(n)[:60]}")
                    return v.items[i]
                if isinstance(v.ty, tuple) and v.ty[0] == "T":
                    k = v.ty[1]
                    if i >= k:
                        raise self.err(f"index out of range in {ast.unparse(n)[:60]}")
                    return V(f"{v.p()}{'.2' * i}{'.1' if i < k - 1 else ''}", "K", atom=True)
                if v.ty == "L":
                    return V(f"{v.p()}.getD {i} 0", "K")
            raise self.err(f"unsupported subscript {ast.unparse(n)[:60]}")
        if isinstance(n, ast.Call):
            return self.call(n)
        raise self.err(f"unsupported expression {ast.unparse(n)[:80]}")

    def as_list(self, v):
        if v.ty == "L":
            return v
        if isinstance(v.ty, tuple) and v.ty[0] == "T" and v.items is not None:
            return self.coerce(v, "L", "tuple")
        return None

    def binop(self, n):
        op = n.op
        a, b = self.expr(n.left), self.expr(n.right)
        tup = lambda v: isinstance(v.ty, tuple) and v.ty[0] == "T" and v.items is not None
        # (x,) * n  and  tuple + tuple
        if isinstance(op, ast.Mult) and tup(a) and b.ty == "N":
            if len(a.items) != 1:
                raise self.err(f"repetition of a tuple with several entries: {ast.unparse(n)[:60]}")
            return V(f"List.replicate {b.p()} {self.toK(a.items[0]).p()}", "L")
        if isinstance(op, ast.Add) and (tup(a) or tup(b)) and (tup(a) or a.ty == "L") and (tup(b) or b.ty == "L"):
            if tup(a) and tup(b):
                items = a.items + b.items
                return V("(" + ", ".join(i.lean for i in items) + ")", ("T", len(items)), atom=True, items=items)
            return V(f"{self.as_list(a).p()} ++ {self.as_list(b).p()}", "L")
        scal = ("K", "N", "Z")
        if a.ty in scal and b.ty in scal:
            return self.scalar_bin(op, a, b, n.right)
        sym = {ast.Add: "+", ast.Sub: "-", ast.Mult: "*", ast.Div: "/"}.get(type(op))
        if sym is None:
            raise self.err(f"array operator outside the vocabulary: {ast.unparse(n)[:60]}")
        if tup(a):
            a = self.as_list(a)
        if tup(b):
            b = self.as_list(b)
        if a.ty == "L" and b.ty in scal:
            return V(f"List.map (fun x => x {sym} {self.toK(b).p()}) {a.p()}", "L")
        if a.ty in scal and b.ty == "L":
            return V(f"List.map (fun x => {self.toK(a).p()} {sym} x) {b.p()}", "L")
        if a.ty == "M" and b.ty in scal:
            return V(f"List.map (fun r => List.map (fun x => x {sym} {self.toK(b).p()}) r) {a.p()}", "M")
        if a.ty in scal and b.ty == "M":
            return V(f"List.map (fun r => List.map (fun x => {self.toK(a).p()} {sym} x) r) {b.p()}", "M")
        if a.ty == "L" and b.ty == "L":
            return V(f"List.zipWith (fun x y => x {sym} y) {a.p()} {b.p()}", "L")
        if a.ty == "M" and b.ty == "M":
            return V(f"List.zipWith (fun r s => List.zipWith (fun x y => x {sym} y) r s) {a.p()} {b.p()}", "M")
        raise self.err(f"unsupported operands ({a.ty} {type(op).__name__} {b.ty}) in {ast.unparse(n)[:60]}")

    def scalar_bin(self, op, a, b, rnode):
        if isinstance(op, ast.Pow):
            return self.power(a, b, rnode)
        ints = ("N", "Z")
        if a.ty in ints and b.ty in ints and not isinstance(op, ast.Div):
            sym = {ast.Add: "+", ast.Sub: "-", ast.Mult: "*", ast.FloorDiv: "/", ast.Mod: "%"}.get(type(op))
            if sym is None:
                raise self.err("unsupported integer operator")
            if a.ty == "N" and b.ty == "N" and not isinstance(op, ast.Sub):
                return V(f"{a.p()} {sym} {b.p()}", "N")
            a, b = self.toZ(a), self.toZ(b)
            if sym == "/":
                return V(f"Int.fdiv {a.p()} {b.p()}", "Z")
            if sym == "%":
                return V(f"Int.fmod {a.p()} {b.p()}", "Z")
            return V(f"{a.p()} {sym} {b.p()}", "Z")
        a, b = self.toK(a), self.toK(b)
        sym = {ast.Add: "+", ast.Sub: "-", ast.Mult: "*", ast.Div: "/"}.get(type(op))
        if sym is None:
            raise self.err(f"unsupported operator {type(op).__name__}")
        return V(f"{a.p()} {sym} {b.p()}", "K")

    def static_bool(self, val):
        w = V("", "SB")
        w.value = bool(val)
        return w

    def compare(self, n):
        if len(n.ops) != 1:
            raise self.err(f"chained comparison {ast.unparse(n)[:60]}")
        op = n.ops[0]
        a, b = self.expr(n.left), self.expr(n.comparators[0])
        if a.ty == "SN" and b.ty == "N" and b.lean.isdigit() and isinstance(op, (ast.Eq, ast.NotEq)):
            return self.static_bool((a.value == int(b.lean)) == isinstance(op, ast.Eq))
        if a.ty in ("N", "Z") and b.ty in ("N", "Z"):
            sym = {ast.Eq: "==", ast.NotEq: "!=", ast.Lt: "<", ast.LtE: "<=", ast.Gt: ">", ast.GtE: ">="}.get(type(op))
            if sym is None:
                raise self.err(f"unsupported comparison {ast.unparse(n)[:60]}")
            if a.ty != b.ty:
                a, b = self.toZ(a), self.toZ(b)
            return V(f"decide ({a.p()} {sym.replace('==', '=').replace('!=', '≠')} {b.p()})", "B")
        if a.ty == "K" and isinstance(op, (ast.Eq, ast.NotEq)) and isinstance(n.comparators[0], ast.Constant) \
                and n.comparators[0].value == 0 and not isinstance(n.comparators[0].value, bool):
            t = f"HasIsZero.isZero {a.p()}"
            return V(t if isinstance(op, ast.Eq) else f"!({t})", "B")
        raise self.err(f"unsupported comparison {ast.unparse(n)[:60]}")

    def attribute(self, n):
        if isinstance(n.value, ast.Name) and n.value.id == "self":
            if self.self_kinds is None:
                if n.attr in self.attrs:
                    v = self.attrs[n.attr]
                    if isinstance(v, Poison):
                        raise self.err(f"use of self.{n.attr}, which is not translated ({v.msg})")
                    return v
                raise self.err(f"self.{n.attr} is read in __init__ before it is set")
            if n.attr == "num_spatial_dims":
                return V("c.D", "N", atom=True)
            if n.attr == "num_points":
                return V("c.N", "N", atom=True)
            if n.attr not in self.self_kinds:
                raise self.err(f"unknown attribute self.{n.attr}")
            k = self.self_kinds[n.attr]
            if k is None:
                raise self.err(f"self.{n.attr} has an annotation outside the vocabulary")
            if n.attr not in self.used_attrs:
                self.used_attrs.append(n.attr)
            return V(n.attr, k, atom=True)
        if n.attr == "T":
            v = self.expr(n.value)
            if v.ty == "M":
                return V(f"jnp_transpose {v.p()}", "M")
        raise self.err(f"unsupported attribute {ast.unparse(n)[:60]}")

    def call(self, n):
        fn = ast.unparse(n.func)
        if fn == "isinstance" and len(n.args) == 2 and not n.keywords:
            types = n.args[1].elts if isinstance(n.args[1], ast.Tuple) else [n.args[1]]
            tnames = {ast.unparse(t) for t in types}
            if not tnames <= {"int", "float"}:
                raise self.err(f"unsupported isinstance check {ast.unparse(n)[:60]}")
            x = n.args[0]
            if self.self_kinds is not None and isinstance(x, ast.Attribute) and ast.unparse(x.value) == "self":
                v = self.attribute(x)
                if v.ty != "K":
                    raise self.err(f"isinstance check on self.{x.attr} of kind {v.ty}")
                # a `float`-annotated attribute may also hold an array / a tracer: a Boolean parameter
                nm = f"{x.attr}_is_number"
                if nm not in self.extra_bools:
                    self.extra_bools.append(nm)
                return V(nm, "B", atom=True)
            v = self.expr(x)
            if v.ty == "K" and "float" in tnames:
                return self.static_bool(True)
            if v.ty in ("L", "M"):
                return self.static_bool(False)
            raise self.err(f"isinstance check on a value of kind {v.ty}: {ast.unparse(n)[:60]}")
        if fn == "len" and len(n.args) == 1 and not n.keywords:
            x = n.args[0]
            if isinstance(x, ast.Attribute) and x.attr == "shape":
                v = self.expr(x.value)
                if v.ty in ("L", "M"):
                    w = V(str(1 if v.ty == "L" else 2), "SN", atom=True)
                    w.value = 1 if v.ty == "L" else 2
                    return w
                raise self.err(f".shape of a value of kind {v.ty}")
            v = self.expr(x)
            if isinstance(v.ty, tuple) and v.ty[0] == "T":
                w = V(str(v.ty[1]), "SN", atom=True)
                w.value = v.ty[1]
                return w
            if v.ty == "L":
                return V(f"List.length {v.p()}", "N")
            raise self.err(f"len of a value of kind {v.ty}")
        if fn == "jnp.ones" and len(n.args) == 1 and not n.keywords:
            m = self.expr(n.args[0])
            if m.ty != "N":
                raise self.err(f"jnp.ones of a non-integer extent: {ast.unparse(n)[:60]}")
            return V(f"jnp_ones {m.p()}", "L")
        if fn == "jnp.eye" and len(n.args) == 1 and not n.keywords:
            m = self.expr(n.args[0])
            if m.ty != "N":
                raise self.err(f"jnp.eye of a non-integer extent: {ast.unparse(n)[:60]}")
            return V(f"jnp_diag (jnp_ones {m.p()})", "M")
        if fn == "jnp.diag" and len(n.args) == 1 and not n.keywords:
            v = self.expr(n.args[0])
            if isinstance(v.ty, tuple) and v.items is not None:
                v = self.as_list(v)
            if v.ty == "L":
                return V(f"jnp_diag {v.p()}", "M")
            if v.ty == "M":
                return V(f"jnp_diagonal {v.p()}", "L")
            raise self.err(f"jnp.diag of a value of kind {v.ty}")
        if fn in ("tuple", "list") and len(n.args) == 1 and not n.keywords:
            return self.expr(n.args[0])
        if fn in ("float", "int") and len(n.args) == 1 and not n.keywords:
            v = self.expr(n.args[0])
            if (fn == "float" and v.ty in ("K", "N", "Z")) or (fn == "int" and v.ty == "N"):
                return self.toK(v) if fn == "float" else v
        if isinstance(n.func, ast.Name) and n.func.id in self.conv:
            return self.call_conv(n)
        raise self.err(f"call outside the vocabulary: {ast.unparse(n)[:80]}")

    def bind_args(self, what, params, n, default_owner):
        """bind call arguments to [(name, kind, default ast | None)]; gives name -> V (coerced)"""
        argv = {}
        if len(n.args) > len(params):
            raise self.err(f"too many positional arguments in the call of {what}")
        for (p, kind, d), a in zip(params, n.args):
            argv[p] = (a, False)
        for k in n.keywords:
            if k.arg is None:
                raise self.err(f"**kwargs in the call of {what}")
            if k.arg not in [p for p, _, _ in params]:
                raise self.err(f"{what} has no parameter {k.arg}")
            if k.arg in argv:
                raise self.err(f"{k.arg} is passed twice to {what}")
            argv[k.arg] = (k.value, False)
        out = {}
        for p, kind, d in params:
            if p not in argv:
                if d is None:
                    raise self.err(f"the call of {what} lacks the required argument {p}")
                argv[p] = (d, True)
            node, is_default = argv[p]
            out[p] = (node, is_default)
        return out

    def call_conv(self, n):
        name = n.func.id
        params, ret = self.conv[name]
        bound = self.bind_args(name, params, n, name)
        parts = []
        for p, k, _ in params:
            v = self.coerce(self.expr(bound[p][0]), k, f"argument {p} of {name}")
            parts.append(v.p())
        return V(f"Gen.Convert.{name} " + " ".join(parts), ret)

    # -- statements (of __init__) ----------------------------------------------------
    @staticmethod
    def is_print(s):
        return isinstance(s, ast.Expr) and isinstance(s.value, ast.Call) and ast.unparse(s.value.func) in ("print", "warnings.warn")

    def assigned(self, stmts):
        names, attrs = [], []
        for s in stmts:
            for t in ast.walk(s):
                if isinstance(t, ast.Assign):
                    for tg in t.targets:
                        if isinstance(tg, ast.Name):
                            names.append(tg.id)
                        elif isinstance(tg, ast.Attribute) and ast.unparse(tg.value) == "self":
                            attrs.append(tg.attr)
        return names, attrs

    def exec_block(self, stmts):
        for s in stmts:
            if isinstance(s, ast.Expr) and isinstance(s.value, ast.Constant) and isinstance(s.value.value, str):
                continue
            if self.is_print(s):
                self.notes.append(f"ignored: {ast.unparse(s)[:50]}…")
                continue
            if isinstance(s, ast.Pass):
                continue
            if isinstance(s, ast.Expr) and isinstance(s.value, ast.Call) and ast.unparse(s.value.func) == "super().__init__":
                if self.super_call is not None:
                    raise self.err("super().__init__ is called twice")
                self.super_call = (s.value, dict(self.env))
                continue
            if isinstance(s, ast.Assign):
                if len(s.targets) != 1:
                    raise self.err("multiple assignment targets")
                t = s.targets[0]
                try:
                    v = self.expr(s.value)
                    if v.ty in ("SB", "SN", "NONE"):
                        raise self.err(f"cannot store a value of kind {v.ty}")
                except TranslateError as e:
                    v = Poison(str(e))
                if isinstance(t, ast.Name):
                    self.env[t.id] = v
                elif isinstance(t, ast.Attribute) and ast.unparse(t.value) == "self":
                    self.attrs[t.attr] = v
                else:
                    raise self.err(f"unsupported assignment target {ast.unparse(t)[:60]}")
                continue
            if isinstance(s, ast.If):
                if s.body and all(isinstance(b, ast.Raise) for b in s.body) and not s.orelse:
                    exc = s.body[0].exc
                    name = ast.unparse(exc.func) if isinstance(exc, ast.Call) else (ast.unparse(exc) if exc else "?")
                    self.guards.append(f"{name} if {ast.unparse(s.test)}")
                    continue
                if s.body and all(self.is_print(b) for b in s.body) and not s.orelse:
                    self.notes.append(f"ignored: `if {ast.unparse(s.test)}:` with only print statements")
                    continue
                try:
                    t = self.expr(s.test)
                    static = t.ty == "SB"
                    msg = f"`if {ast.unparse(s.test)[:50]}` is not decided by the form of the arguments"
                except TranslateError as e:
                    static, msg = False, str(e)
                if static:
                    self.exec_block(s.body if t.value else s.orelse)
                else:
                    names, attrs = self.assigned(s.body + s.orelse)
                    for nm in names:
                        self.env[nm] = Poison(msg)
                    for at in attrs:
                        self.attrs[at] = Poison(msg)
                    if any(isinstance(x, ast.Expr) and isinstance(x.value, ast.Call)
                           and ast.unparse(x.value.func) == "super().__init__" for b in s.body + s.orelse for x in ast.walk(b)):
                        raise self.err(f"super().__init__ under a condition that is not static: {msg}")
                continue
            raise self.err(f"unsupported statement {type(s).__name__}: {ast.unparse(s)[:60]}")


# ----------------------------------------------------------------------------
# the source universe
# ----------------------------------------------------------------------------
class StepperClass:
    def __init__(self, name, rel, node, src):
        self.name, self.rel, self.node, self.src = name, rel, node, src
        self.parent = None            # name of the stepper parent class (BASE for direct children)

    def own(self, meth):
        ms = [m for m in self.node.body if isinstance(m, (ast.FunctionDef, ast.AsyncFunctionDef)) and m.name == meth]
        if len(ms) > 1:
            raise TranslateError(f"{self.name}.{meth} defined twice")
        if ms and (not isinstance(ms[0], ast.FunctionDef) or ms[0].decorator_list):
            raise TranslateError(f"{self.name}.{meth}: decorated / async method")
        return ms[0] if ms else None


def load_steppers(out_hashes):
    root = os.path.join(T.REPO, "exponax")
    files = sorted(glob.glob(os.path.join(T.REPO, STEPPER_GLOB), recursive=True))
    if not files:
        raise TranslateError("no stepper source files found")
    allc = {}
    for path in files:
        src = open(path).read()
        tree = ast.parse(src)
        rel = os.path.relpath(path, root)
        for c in ast.walk(tree):
            if isinstance(c, ast.ClassDef):
                if c.name in allc:
                    raise TranslateError(f"class {c.name} defined twice ({allc[c.name].rel}, {rel})")
                allc[c.name] = StepperClass(c.name, rel, c, src)

    def bases(ci):
        return [ast.unparse(b).split(".")[-1] for b in ci.node.bases]

    def is_stepper(name, seen=()):
        if name == BASE:
            return True
        if name not in allc or name in seen:
            return False
        return any(is_stepper(b, seen + (name,)) for b in bases(allc[name]))

    classes = {}
    for name, ci in allc.items():
        if is_stepper(name):
            bs = [b for b in bases(ci) if is_stepper(b)]
            if len(bs) != 1:
                raise TranslateError(f"{name}: expected exactly one stepper base class, got {bases(ci)}")
            ci.parent = bs[0]
            classes[name] = ci
    if not classes:
        raise TranslateError(f"no class derives from {BASE}")
    # parents first, otherwise alphabetical
    order, done = [], set()

    def visit(nm):
        if nm in done:
            return
        p = classes[nm].parent
        if p != BASE:
            visit(p)
        done.add(nm)
        order.append(nm)
    for nm in sorted(classes):
        visit(nm)
    return classes, order


def load_convert(out_hashes):
    """signatures of stepper/generic/_utils.py: name -> ([(param, kind)], result kind) — as translate.translate_convert
    types them (the bodies are Generated/Convert.lean)"""
    path = os.path.join(T.REPO, "exponax", UTILS_REL)
    src = open(path).read()
    tree = ast.parse(src)
    type_by_name = {"domain_extent": "K", "dt": "K", "num_spatial_dims": "N", "num_points": "N", "maximum_absolute": "K"}
    helpers, conv = {}, {}
    for fn in tree.body:
        if not isinstance(fn, ast.FunctionDef):
            continue
        if fn.args.vararg or fn.args.kwarg or fn.args.posonlyargs:
            raise TranslateError(f"{UTILS_REL}::{fn.name}: varargs in a conversion function")
        out_hashes[f"{UTILS_REL}::{fn.name}.signature"] = hashlib.sha256(ast.unparse(fn.args).encode()).hexdigest()[:16]
        ptypes = {}
        for a in list(fn.args.args) + list(fn.args.kwonlyargs):
            if a.arg in type_by_name:
                ptypes[a.arg] = type_by_name[a.arg]
            else:
                ann = ast.unparse(a.annotation) if a.annotation else ""
                if ann.startswith("tuple[float, float, float]"):
                    ptypes[a.arg] = ("T", 3)
                elif ann.startswith("tuple[float, ...]"):
                    ptypes[a.arg] = "L"
                elif ann == "float":
                    ptypes[a.arg] = "K"
                elif ann == "int":
                    ptypes[a.arg] = "N"
                else:
                    raise TranslateError(f"{fn.name}: unsupported annotation {ann} for {a.arg}")
        tr = T.FunTr(None, dict(ptypes), helpers=helpers)
        out = None
        for s in fn.body:
            r = tr.stmt(s)
            if r is not None:
                out = r
        if out is None:
            raise TranslateError(f"{fn.name}: no return")
        params = T.param_list(fn, ptypes)
        _, used = T.emit_def(fn.name, params, tr, out)
        helpers[fn.name] = (fn.name, params, out.ty, used)
        pos = list(fn.args.args)
        pd = [None] * (len(pos) - len(fn.args.defaults)) + list(fn.args.defaults)
        dflt = {a.arg: d for a, d in list(zip(pos, pd)) + list(zip(fn.args.kwonlyargs, fn.args.kw_defaults))}
        conv[fn.name] = ([(p, k, dflt.get(p)) for p, k in params], out.ty)
    return conv


# ----------------------------------------------------------------------------
# generation
# ----------------------------------------------------------------------------
HEADER = """/- GENERATED by harness/translate_wiring.py from the classes deriving from BaseStepper under exponax/stepper/ — do not edit.
   source span hashes: see Generated/hashes_wiring.json -/
import ExponaxModel.Model.Ops
import ExponaxModel.Model.Nonlin
import ExponaxModel.Generated.Convert
import ExponaxModel.Generated.NonlinFuns
set_option linter.unusedVariables false
namespace Exponax.Gen.StepperWiring
open Exponax.Nonlin

/-- a constructor argument that the source accepts in several forms (`Float[Array, "D D"] | Float[Array, "D"] | float`) -/
inductive Arg (K : Type) where
  | scalar (x : K)
  | vector (v : List K)
  | matrix (A : List (List K))

section
variable {K : Type} [Add K] [Sub K] [Mul K] [Div K] [Neg K] [Zero K] [One K] [NatCast K] [IntCast K]
  [HasExp K] [HasI K] [HasPi K] [HasRe K] [HasIsZero K]

/-! index-level meaning of the numpy primitives of the constructors (vectors are `List K`, matrices lists of rows;
    pointwise operations between two arrays are `List.zipWith`: the shapes are equal wherever numpy does not raise) -/

/-- `jnp.ones(n)` -/
def jnp_ones (n : Nat) : List K := List.replicate n 1

/-- `jnp.diag(v)` of a vector -/
def jnp_diag (v : List K) : List (List K) :=
  List.map (fun i => List.map (fun j => if i = j then v.getD i 0 else 0) (List.range v.length)) (List.range v.length)

/-- `jnp.diag(A)` of a matrix: its diagonal -/
def jnp_diagonal (A : List (List K)) : List K :=
  List.map (fun i => (A.getD i []).getD i 0) (List.range A.length)

/-- `A.T` -/
def jnp_transpose (A : List (List K)) : List (List K) :=
  List.map (fun j => List.map (fun r => r.getD j 0) A) (List.range (A.headD []).length)

"""


def struct_text(name, fields, comment):
    out = f"/-- {comment} -/\nstructure {name} (K : Type) where\n"
    for f, k in fields:
        out += f"  {f} : {lean_ty(k)}\n"
    return out


def record(fields_vals, indent="  "):
    lines = [f"{indent}{'{ ' if i == 0 else '  '}{f} := {v}" for i, (f, v) in enumerate(fields_vals)]
    return ",\n".join(lines) + " }"


def tokens_of(text):
    return set(re.findall(r"(?<![\w.])[A-Za-z_][A-Za-z_0-9]*", text))


def translate_wiring(out_hashes):
    scratch = {}
    w = TN.World(scratch)                       # the nonlinear-function classes (signatures of the generated `_call`s)
    conv = load_convert(out_hashes)
    classes, order = load_steppers(out_hashes)

    # ---- BaseStepper.__init__ -----------------------------------------------------
    bpath = os.path.join(T.REPO, "exponax", "_base_stepper.py")
    bsrc = open(bpath).read()
    bcls = T.find_class(ast.parse(bsrc), BASE)
    binit = T.find_func(bcls.body, "__init__")
    out_hashes[f"_base_stepper.py::{BASE}.__init__.signature"] = hashlib.sha256(
        ast.unparse(binit.args).encode()).hexdigest()[:16]
    base_sig = signature(f"{BASE}.__init__", binit)
    base_fields = {an: T.ann_kind(ann) for an, ann, _ in T.class_fields(bcls)}
    # how BaseStepper.__init__ uses the two builders: the nonlinear function is built from the derivative operator of
    # (num_spatial_dims, domain_extent, num_points) — checked, since `c : Nonlin.Cfg` stands for exactly that
    body_src = [ast.unparse(s) for s in binit.body]
    need = ["derivative_operator = build_derivative_operator(num_spatial_dims, domain_extent, num_points)",
            f"nonlinear_fun = self.{NLF}(derivative_operator)",
            "self.num_spatial_dims = num_spatial_dims", "self.num_points = num_points"]
    for t in need:
        if t not in body_src:
            raise TranslateError(f"{BASE}.__init__: expected statement `{t}` not found")

    sigs = {BASE: base_sig}
    for nm in order:
        ci = classes[nm]
        init = ci.own("__init__")
        if init is None:
            raise TranslateError(f"{nm}: a stepper class without its own __init__ is not supported")
        sigs[nm] = signature(f"{nm}.__init__", init)
        out_hashes[f"{ci.rel}::{nm}.__init__"] = T.src_hash(init, ci.src)

    texts, defs = [], []
    untranslated = []
    own_nlf, inherited_nlf = [], []
    info = {}          # class -> dict(nlf params, extra bools, needs C, need_im, init attr defs)

    def add(name, text):
        if name in defs:
            raise TranslateError(f"definition {name} generated twice")
        defs.append(name)
        texts.append(text)

    add(f"{BASE}Args", struct_text(f"{BASE}Args", [(p, k) for p, k, _ in base_sig],
                                   f"the arguments of `{BASE}.__init__`"))

    def attr_kinds(nm):
        """attribute -> kind for `self.<attr>` in the methods of class nm (own annotations first, then the ancestors)"""
        out = {}
        cur = nm
        while cur != BASE:
            for an, ann, _ in T.class_fields(classes[cur].node):
                if an not in out:
                    out[an] = "DF" if an == DF_NAME else T.ann_kind(ann)
            cur = classes[cur].parent
        for an, k in base_fields.items():
            out.setdefault(an, k)
        return out

    def attr_order(nm):
        out = []
        cur = nm
        while cur != BASE:
            for an, _, _ in T.class_fields(classes[cur].node):
                if an not in out:
                    out.append(an)
            cur = classes[cur].parent
        return out

    for nm in order:
        ci = classes[nm]
        sig = sigs[nm]
        psig = sigs[ci.parent]
        init = ci.own("__init__")
        owner = f"{nm}.__init__"
        comments_src = f"(exponax/{ci.rel})"
        fields_src = "\n".join(ast.get_source_segment(ci.src, m) or "" for _, _, m in T.class_fields(ci.node))
        out_hashes[f"{ci.rel}::{nm}.fields"] = hashlib.sha256(fields_src.encode()).hexdigest()[:16]

        # ---- XArgs, X_with_defaults ------------------------------------------------
        add(f"{nm}Args", struct_text(f"{nm}Args", [(p, k) for p, k, _ in sig],
                                     f"the arguments of `{nm}.__init__` {comments_src}"))
        required = [(p, k) for p, k, d in sig if d is None]
        vals = []
        for p, k, d in sig:
            if d is None:
                vals.append((p, p))
            elif k == "DF":
                vals.append((p, df_literal(owner, d).lean))
            else:
                tr = WireTr(f"{owner} (default of {p})", conv)
                vals.append((p, tr.coerce(tr.expr(d), k, f"default of {p}").lean))
        binders = "".join(f" ({p} : {lean_ty(k)})" for p, k in required)
        add(f"{nm}_with_defaults",
            f"-- {nm}.__init__ {comments_src}: the arguments when only the parameters without default are given\n"
            + "-- defaults: " + ", ".join(f"{p}={ast.unparse(d)}" for p, _, d in sig if d is not None) + "\n"
            + f"def {nm}_with_defaults{binders} : {nm}Args K :=\n" + record(vals) + "\n")

        # ---- __init__: attributes, per form of the union arguments -----------------
        unions = [(p, k[1]) for p, k, _ in sig if isinstance(k, tuple) and k[0] == "U"]

        def run_init(forms, prefix):
            tr = WireTr(owner, conv)
            for p, k, _ in sig:
                if isinstance(k, tuple) and k[0] == "U":
                    tr.env[p] = V(prefix + p, forms[p], atom=True) if forms is not None else \
                        Poison(f"{p} has several forms")
                else:
                    tr.env[p] = V(prefix + p, k, atom=True)
            tr.exec_block(init.body)
            return tr

        combos = [{}]
        for p, fs in unions:
            combos = [dict(c, **{p: f}) for c in combos for f in fs]
        runs = [(c, run_init(c, "")) for c in combos]
        attr_names = list(runs[0][1].attrs)
        for c, tr in runs:
            if list(tr.attrs) != attr_names:
                raise TranslateError(f"{owner}: the set of attributes depends on the form of the arguments")
        init_defs = {}      # attr -> {forms key -> (def name, [(param, kind)], kind)} (forms key: tuple of (param, form))
        pnames = [p for p, _, _ in sig]
        for at in attr_names:
            variants = {}
            failed = None
            for c, tr in runs:
                v = tr.attrs[at]
                if isinstance(v, Poison):
                    failed = v.msg
                    break
                deps = [p for p in pnames if p in tokens_of(v.lean)]
                key = tuple((p, c[p]) for p, _ in unions if p in deps)
                ent = (v.lean, v.ty, tuple(deps))
                if key in variants and variants[key] != ent:
                    raise TranslateError(f"{owner}: self.{at} depends on the form of an argument it does not mention")
                variants[key] = ent
            if failed is not None:
                untranslated.append((f"{nm}.{at}", failed))
                texts.append(f"-- {nm}.__init__ → self.{at}: NOT TRANSLATED ({failed})\n")
                continue
            init_defs[at] = {}
            for key, (lean, ty, deps) in variants.items():
                suffix = "".join("_" + FORM_NAME[f] for _, f in key)
                dname = f"{nm}_init_{at}{suffix}"
                kinds = {p: (dict(key)[p] if p in dict(key) else k) for p, k, _ in sig}
                plist = [(p, kinds[p]) for p in deps]
                if ty == "Z":
                    raise TranslateError(f"{owner}: possibly negative integer attribute self.{at} computed in __init__")
                binders = "".join(f" ({p} : {lean_ty(k)})" for p, k in plist)
                form_note = ("; " + ", ".join(f"{p} given as a {FORM_NAME[f]}" for p, f in key)) if key else ""
                add(dname, f"-- {nm}.__init__ → self.{at}  {comments_src}{form_note}\n"
                           f"def {dname}{binders} : {lean_ty(ty)} :=\n  {lean}\n")
                init_defs[at][key] = (dname, plist, ty)

        # ---- all stored attributes as a function of the constructor arguments ---------------
        attr_fields = []
        for at in attr_names:
            if at not in init_defs:
                continue
            variants = init_defs[at]
            if list(variants) == [()]:
                dname, plist, ty = variants[()]
                attr_fields.append((at, lean_ty(ty), " ".join([dname] + [f"a.{p}" for p, _ in plist]), False))
                continue
            ups = {p for key in variants for p, _ in key}
            tys = {variants[k][2] for k in variants}
            if len(ups) != 1 or len(tys) != 1:
                raise TranslateError(f"{owner}: self.{at} depends on the forms of several arguments / changes its kind")
            up, ty = ups.pop(), tys.pop()
            arms = []
            for f in ("K", "L", "M"):
                key = ((up, f),)
                if key in variants:
                    dname, plist, _ = variants[key]
                    args = " ".join("v" if p == up else f"a.{p}" for p, _ in plist)
                    arms.append(f"| .{FORM_NAME[f]} v => some ({dname} {args})")
                else:
                    arms.append(f"| .{FORM_NAME[f]} _ => none")
            attr_fields.append((at, f"Option ({lean_ty(ty)})", f"(match a.{up} with {' '.join(arms)})", True))
        add(f"{nm}Attrs",
            f"/-- the attributes `{nm}.__init__` stores {comments_src}; `none`: a form the annotation of the argument "
            f"does not allow -/\nstructure {nm}Attrs (K : Type) where\n"
            + ("".join(f"  {at} : {ty}\n" for at, ty, _, _ in attr_fields) if attr_fields else "  mk ::\n"))
        add(f"{nm}_attrs",
            f"-- {nm}.__init__ {comments_src}: constructor arguments → stored attributes\n"
            f"def {nm}_attrs (a : {nm}Args K) : {nm}Attrs K :=\n"
            + (record([(at, val) for at, _, val, _ in attr_fields]) if attr_fields else "  {}") + "\n")
        multi_form = {at for at, _, _, opt in attr_fields if opt}

        # ---- super().__init__ ---------------------------------------------------------
        trs = run_init(None, "a.")
        if trs.super_call is None:
            raise TranslateError(f"{owner}: super().__init__ is never called")
        call, env_at_call = trs.super_call
        trs.env = env_at_call
        pname = ci.parent
        bound = trs.bind_args(f"{pname}.__init__", psig, call, pname)
        svals, dnotes = [], []
        for p, k, d in psig:
            node, is_default = bound[p]
            if is_default:
                dnotes.append(f"{p}={ast.unparse(d)}")
                if k == "DF":
                    v = df_literal(owner, d)
                else:
                    dtr = WireTr(f"{pname}.__init__ (default of {p})", conv)
                    v = dtr.coerce(dtr.expr(node), k, f"default of {p}")
            else:
                v = trs.coerce(trs.expr(node), k, f"argument {p} of {pname}.__init__")
            svals.append((p, v.lean))
        guard_c = "".join(f"-- guard (source raises otherwise): {g}\n" for g in trs.guards)
        note_c = "".join(f"-- note: {t}\n" for t in dict.fromkeys(trs.notes))
        add(f"{nm}_super_args",
            f"-- {nm}.__init__ {comments_src}: the arguments of super().__init__ = {pname}.__init__\n"
            + (f"-- not passed (defaults of {pname}.__init__): {', '.join(dnotes)}\n" if dnotes else "")
            + guard_c + note_c
            + f"def {nm}_super_args (a : {nm}Args K) : {pname}Args K :=\n" + record(svals) + "\n")
        if pname == BASE:
            add(f"{nm}_base_args", f"def {nm}_base_args (a : {nm}Args K) : {BASE}Args K :=\n  {nm}_super_args a\n")
        else:
            add(f"{nm}_base_args", f"def {nm}_base_args (a : {nm}Args K) : {BASE}Args K :=\n"
                                   f"  {pname}_base_args ({nm}_super_args a)\n")
        add(f"{nm}_num_channels", f"-- the number of channels {nm} declares\n"
                                  f"def {nm}_num_channels (a : {nm}Args K) : Nat :=\n  ({nm}_base_args a).num_channels\n")

        # ---- _build_nonlinear_fun ---------------------------------------------------------
        m = ci.own(NLF)
        if m is None:
            if pname == BASE:
                raise TranslateError(f"{nm}: no {NLF}")
            pi = info[pname]
            inherited_nlf.append((nm, pi["provider"]))
            eb = "".join(f" ({b} : Bool)" for b in pi["extra_bools"])
            eba = "".join(f" {b}" for b in pi["extra_bools"])
            im = "[HasIm K] " if pi["need_im"] else ""
            add(f"{nm}_stepper_nonlinear_fun",
                f"-- {nm} inherits {NLF} from {pi['provider']}; its attributes are set by {pname}.__init__\n"
                f"def {nm}_stepper_nonlinear_fun {im}(c : Cfg K) (a : {nm}Args K){eb} (uh : MC K) : MC K :=\n"
                f"  {pname}_stepper_nonlinear_fun c ({nm}_super_args a){eba} uh\n")
            info[nm] = dict(pi)
            continue
        if pname != BASE:
            raise TranslateError(f"{nm}: a subclass of the stepper class {pname} that overrides {NLF} is not supported")
        out_hashes[f"{ci.rel}::{nm}.{NLF}"] = T.src_hash(m, ci.src)
        if [a.arg for a in m.args.args] != ["self", "derivative_operator"] or m.args.kwonlyargs or m.args.defaults \
                or m.args.vararg or m.args.kwarg:
            raise TranslateError(f"{nm}.{NLF}: unexpected signature")
        mt = WireTr(f"{nm}.{NLF}", conv, self_kinds=attr_kinds(nm))
        mt.env["derivative_operator"] = V("<derivative_operator>", "DERIV", atom=True)
        state = {"C": False, "im": False, "notes": []}

        def construct(n):
            if not (isinstance(n, ast.Call) and isinstance(n.func, ast.Name)):
                raise mt.err(f"the returned value is not a constructor call: {ast.unparse(n)[:60]}")
            cname = n.func.id
            if cname not in w.classes:
                raise mt.err(f"{cname} is not a class deriving from {TN.BASE}")
            nci = w.classes[cname]
            if nci.own("__call__") is None:
                raise mt.err(f"{cname} inherits __call__ (not supported)")
            oc, oinit, cparams = TN.ctor_params(nci)
            out_hashes[f"{oc.rel}::{oc.name}.__init__.signature"] = hashlib.sha256(
                ast.unparse(oinit.args).encode()).hexdigest()[:16]
            for p, k, d in cparams:
                if k is None:
                    raise mt.err(f"parameter {p} of {cname}.__init__ has an annotation outside the vocabulary")
            bound_ = mt.bind_args(f"{cname}.__init__", cparams, n, cname)
            # configuration: must be this stepper's
            for p, want in (("num_spatial_dims", "c.D"), ("num_points", "c.N")):
                if p in bound_:
                    v = mt.expr(bound_[p][0])
                    if v.lean != want:
                        raise mt.err(f"{p} of {cname} is not self.{p} ({ast.unparse(bound_[p][0])[:40]})")
            if "derivative_operator" in bound_:
                v = mt.expr(bound_["derivative_operator"][0])
                if v.ty != "DERIV":
                    raise mt.err(f"derivative_operator of {cname} is not the derivative operator of the stepper")
            cinfo = w.class_call(nci)
            iinfo = w.class_init(nci)
            cfg = "c"
            if not iinfo["nodealias"]:
                if DF_NAME not in bound_:
                    raise mt.err(f"{cname} sets a dealiasing mask but has no parameter {DF_NAME}")
                node, is_default = bound_[DF_NAME]
                if isinstance(node, ast.Attribute) and ast.unparse(node.value) == "self":
                    if node.attr != DF_NAME:
                        raise mt.err(f"{DF_NAME} of {cname} receives self.{node.attr}, which is not the dealiasing "
                                     f"fraction of the stepper")
                    v = mt.attribute(node)
                    if v.ty != "DF":
                        raise mt.err(f"self.{DF_NAME} is not declared as a float attribute")
                else:
                    v = df_literal(mt.owner, node)
                    state["notes"].append(f"{DF_NAME} of {cname} is the {'default' if is_default else 'literal'} "
                                          f"{ast.unparse(node)}")
                cfg = f"{{ c with fp := {v.p()}.1, fq := {v.p()}.2 }}"
            elif DF_NAME in bound_ and not bound_[DF_NAME][1]:
                raise mt.err(f"{cname} never sets a dealiasing mask but is given a {DF_NAME}")
            args = [cfg]
            if cinfo["udim"] == "C":
                args.append("C")
                state["C"] = True
            for p, kind in cinfo["params"]:
                node, is_default = bound_[p]
                if is_default:
                    dtr = WireTr(f"{cname}.__init__ (default of {p})", conv)
                    v = dtr.coerce(dtr.expr(node), kind, f"default of {p}")
                    state["notes"].append(f"{p} of {cname} is not passed: default {ast.unparse(node)}")
                else:
                    v = mt.coerce(mt.expr(node), kind, f"argument {p} of {cname}")
                args.append(v.p())
            # arguments the generated __call__ does not depend on are still type-checked
            for p, kind, d in cparams:
                if kind != "CFG" and p not in dict(cinfo["params"]):
                    node, is_default = bound_[p]
                    if not is_default:
                        mt.coerce(mt.expr(node), kind, f"argument {p} of {cname}")
            if cinfo["need_im"]:
                state["im"] = True
            return f"NonlinFuns.{cinfo['name']} {' '.join(args)} uh", f"{cname}({', '.join(ast.unparse(a) for a in n.args)}" \
                + (", " if n.args and n.keywords else "") + ", ".join(f"{k.arg}={ast.unparse(k.value)}" for k in n.keywords) + ")"

        def nlf_block(stmts, ind):
            stmts = [s for s in stmts if not (isinstance(s, ast.Expr) and isinstance(s.value, ast.Constant))]
            if len(stmts) == 1 and isinstance(stmts[0], ast.Return) and stmts[0].value is not None:
                t, desc = construct(stmts[0].value)
                return [ind + t], [desc]
            if len(stmts) == 1 and isinstance(stmts[0], ast.If) and stmts[0].orelse:
                s = stmts[0]
                tv = mt.expr(s.test)
                if tv.ty == "SB":
                    return nlf_block(s.body if tv.value else s.orelse, ind)
                tv = mt.coerce(tv, "B", f"condition {ast.unparse(s.test)[:40]}")
                l1, d1 = nlf_block(s.body, ind + "  ")
                l2, d2 = nlf_block(s.orelse, ind + "  ")
                return [f"{ind}if ({tv.lean}) = true then"] + l1 + [f"{ind}else"] + l2, d1 + d2
            raise mt.err("the body is not `return <NonlinearFun>(…)` (possibly under if/else)")

        lines, descs = nlf_block(m.body, "  ")
        kinds = attr_kinds(nm)
        used = [a for a in attr_order(nm) if a in mt.used_attrs] + [a for a in mt.used_attrs if a not in attr_order(nm)]
        plist = [(a, kinds[a]) for a in used]
        binders = ("(C : Nat) " if state["C"] else "") + " ".join(f"({p} : {lean_ty(k)})" for p, k in plist) \
            + "".join(f" ({b} : Bool)" for b in mt.extra_bools)
        im = "[HasIm K] " if state["im"] else ""
        add(f"{nm}_nonlinear_fun",
            f"-- {nm}.{NLF}  {comments_src}\n"
            + "".join(f"-- constructs {d}\n" for d in descs)
            + "-- parameters: c " + ("C " if state["C"] else "") + " ".join(f"self.{p}" for p, _ in plist)
            + "".join(f" [{b}: the isinstance check of the source]" for b in mt.extra_bools) + " u_hat\n"
            + "".join(f"-- note: {t}\n" for t in dict.fromkeys(state["notes"]))
            + " ".join(f"def {nm}_nonlinear_fun {im}(c : Cfg K) {binders} (uh : MC K) : MC K :=".split()) + "\n"
            + "\n".join(lines) + "\n")
        own_nlf.append(nm)
        # ---- constructor arguments → attributes → nonlinear function ---------------------------
        cargs = []
        for a_, k in plist:
            if a_ not in init_defs:
                raise TranslateError(f"{nm}.{NLF}: self.{a_} is not set (or not translated) in {nm}.__init__")
            if a_ in multi_form:
                raise TranslateError(f"{nm}.{NLF}: self.{a_} has several forms")
            dname, dpl, dty = init_defs[a_][()]
            if dty != k:
                raise TranslateError(f"{nm}: self.{a_} is declared as {k} but {nm}.__init__ stores a value of kind {dty}")
            cargs.append(f"({nm}_attrs a).{a_}")
        eb = "".join(f" ({b} : Bool)" for b in mt.extra_bools)
        eba = "".join(f" {b}" for b in mt.extra_bools)
        add(f"{nm}_stepper_nonlinear_fun",
            f"-- {nm}: constructor arguments → stored attributes → nonlinear function (on `num_channels` channels)\n"
            f"def {nm}_stepper_nonlinear_fun {im}(c : Cfg K) (a : {nm}Args K){eb} (uh : MC K) : MC K :=\n"
            "  " + " ".join([f"{nm}_nonlinear_fun", "c"] + ([f"({nm}_num_channels a)"] if state["C"] else []) + cargs)
            + f"{eba} uh\n")
        info[nm] = {"provider": nm, "extra_bools": list(mt.extra_bools), "need_im": state["im"]}

    q = lambda x: '"' + x.replace("\\", "\\\\").replace('"', '\\"') + '"'
    tail = ("end\n\n/-- every class under exponax/stepper/ deriving from `BaseStepper`, parents first; `Proofs/StepperWiringEq.lean` "
            "pins this list,\n    so a new class without theorems breaks the build -/\n"
            "def generated_classes : List String :=\n  [" + ", ".join(q(n) for n in order) + "]\n\n"
            f"/-- the classes with their own `{NLF}` -/\n"
            "def own_nonlinear_fun_classes : List String :=\n  [" + ", ".join(q(n) for n in own_nlf) + "]\n\n"
            f"/-- (class, class whose `{NLF}` it inherits) -/\n"
            "def inherited_nonlinear_fun : List (String × String) :=\n  ["
            + ", ".join(f"({q(a)}, {q(b)})" for a, b in inherited_nlf) + "]\n\n"
            "/-- (class, stepper parent class) -/\n"
            "def parent_classes : List (String × String) :=\n  ["
            + ", ".join(f"({q(n)}, {q(classes[n].parent)})" for n in order) + "]\n\n"
            "/-- attributes whose value in `__init__` is outside the vocabulary (no definition is generated; any use of them in a\n"
            "    translated place is a TranslateError) -/\n"
            "def untranslated_attributes : List String :=\n  [" + ", ".join(q(a) for a, _ in untranslated) + "]\n\n"
            "/-- every generated definition, in order -/\n"
            "def generated_defs : List String :=\n  [" + ",\n   ".join(q(n) for n in defs) + "]\n")
    return HEADER + "\n".join(texts) + "\n" + tail + f"\nend Exponax.Gen.{NS}\n"


TARGETS = {
    NS: translate_wiring,
}


def run(targets=None):
    os.makedirs(T.GEN_DIR, exist_ok=True)
    res, hashes = {}, {}
    for name, fn in TARGETS.items():
        if targets and name not in targets:
            continue
        path = os.path.join(T.GEN_DIR, name + ".lean")
        try:
            text = fn(hashes)
            changed = T.write_if_changed(path, text)
            res[name] = {"ok": True, "error": None, "changed": changed}
        except (TranslateError, SyntaxError, FileNotFoundError) as e:  # broken obligation
            # a stale generated file must not keep the proofs green
            T.write_if_changed(path, f"/- GENERATION FAILED: {type(e).__name__}: {e} -/\n#exit\n")
            res[name] = {"ok": False, "error": f"{type(e).__name__}: {e}", "changed": True}
    T.write_if_changed(os.path.join(T.GEN_DIR, "hashes_wiring.json"), json.dumps(hashes, indent=1, sort_keys=True) + "\n")
    return res, hashes


if __name__ == "__main__":
    r, h = run(sys.argv[1:] or None)
    print(json.dumps(r, indent=1))
    sys.exit(0 if all(v["ok"] for v in r.values()) else 3)
