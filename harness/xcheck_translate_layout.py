#!/usr/bin/env python3
"""
Numerical cross-check of harness/translate_layout.py (optional; needs jax, run with /venv/bin/python):
evaluates the regenerated definitions of Generated/SpectralLayout.lean (including the prelude semantics of
the numpy / jax.numpy primitives and the `_shape` companions) with `lean --run` on small cases, "ij" and
"xy", and compares every entry EXACTLY with the arrays the implementation under EXPONAX_REPO builds.
Prints the number of compared lines and exits 1 on the first difference.
"""
import io, os, subprocess, sys, tempfile, contextlib
REPO = os.environ.get("EXPONAX_REPO", "/repo")
sys.path.insert(0, REPO)
HERE = os.path.dirname(os.path.abspath(__file__))
LEAN_DIR = os.path.join(os.path.dirname(HERE), "lean")
LEAN_MAIN = r"""
import ExponaxModel.Generated.SpectralLayout
import ExponaxModel.Model.Layout
open Exponax.Gen.SpectralLayout Exponax.Layout

def idxs (shape : List Nat) : List (List Nat) := (List.range (shapeSize shape)).map (unflatten shape)

def showR (q : Rat) : String := s!"{q.num}/{q.den}"

def main : IO Unit := do
  for (D, N) in [(1,4),(1,5),(2,4),(2,5),(3,4),(3,3),(2,1),(2,2)] do
    for ix in ["ij","xy"] do
      let sh := List.tail (build_wavenumbers_shape D N ix)
      IO.println s!"wn {D} {N} {ix} {build_wavenumbers_shape D N ix} {(idxs sh).map (build_wavenumbers D N ix)}"
      IO.println s!"sc {D} {N} {ix} {_build_scaling_array_shape D N 2 1 ix} {(idxs sh).map (fun i => showR (_build_scaling_array D N 2 1 ix i))}"
      IO.println s!"sc2 {D} {N} {ix} {(idxs sh).map (fun i => showR (_build_scaling_array D N 2 2 ix i))}"
      IO.println s!"lp {D} {N} {ix} {(idxs sh).map (low_pass_filter_mask D N (3/2) true ix)} {(idxs sh).map (low_pass_filter_mask D N 2 false ix)}"
      IO.println s!"grid {D} {N} {ix} {make_grid_shape D (3:Rat) N true false ix} {(idxs (List.tail (make_grid_shape D (3:Rat) N true false ix))).map (fun i => (make_grid D (3:Rat) N true true ix i).map showR)}"
      IO.println s!"grid2 {D} {N} {ix} {make_grid_shape D (3:Rat) N false false ix} {(idxs (List.tail (make_grid_shape D (3:Rat) N false false ix))).map (fun i => (make_grid D (3:Rat) N false false ix i).map showR)}"
    IO.println s!"odd {D} {N} {(idxs (wavenumber_shape D N)).map (oddball_filter_mask D N)}"
    IO.println s!"shapes {D} {N} {wavenumber_shape D N} {spatial_shape D N} {space_indices D}"
    IO.println s!"slices {D} {N} {get_modes_slices D N}"
    IO.println s!"deal {D} {N} {(idxs (wavenumber_shape D N)).map (dealiasing_mask D N (some (2/3)))}"
    let ush := 2 :: spatial_shape D N
    let u : List Nat → Nat := fun i => flatten ush i
    IO.println s!"wrap {D} {N} {wrap_bc_shape u ush} {(idxs (wrap_bc_shape u ush)).map (wrap_bc u ush)}"
"""
import jax; jax.config.update("jax_enable_x64", True)
import numpy as np, itertools
from fractions import Fraction
from exponax import _spectral as S
from exponax._utils import make_grid, wrap_bc
from exponax.nonlin_fun._base import BaseNonlinearFun

def idxs(sh): return list(itertools.product(*[range(n) for n in sh]))
def L(x): return "[" + ", ".join(x) + "]"
def showR(v): 
    f = Fraction(float(v)).limit_denominator(1000); return f"{f.numerator}/{f.denominator}"
def b(v): return "true" if bool(v) else "false"
def sl(s):
    o = lambda v: "none" if v is None else f"(some {v})"
    return f"({o(s.start)}, {o(s.stop)})"
class NF(BaseNonlinearFun):
    def __call__(self, u): return u

def python_side():
    for (D,N) in [(1,4),(1,5),(2,4),(2,5),(3,4),(3,3),(2,1),(2,2)]:
        for ix in ["ij","xy"]:
            w = np.array(S.build_wavenumbers(D,N,indexing=ix))
            sh = w.shape[1:]
            print(f"wn {D} {N} {ix} {L([str(x) for x in w.shape])} " + L([L([str(int(w[(d,)+i])) for d in range(D)]) for i in idxs(sh)]))
            sc = np.array(S._build_scaling_array(D,N,right_most_scaling_denominator=2, others_scaling_denominator=1,indexing=ix))
            print(f"sc {D} {N} {ix} {L([str(x) for x in sc.shape])} " + L([showR(sc[(0,)+i]) for i in idxs(sh)]))
            sc = np.array(S._build_scaling_array(D,N,right_most_scaling_denominator=2, others_scaling_denominator=2,indexing=ix))
            print(f"sc2 {D} {N} {ix} " + L([showR(sc[(0,)+i]) for i in idxs(sh)]))
            m1 = np.array(S.low_pass_filter_mask(D,N,cutoff=1.5,axis_separate=True,indexing=ix)); m2=np.array(S.low_pass_filter_mask(D,N,cutoff=2,axis_separate=False,indexing=ix))
            print(f"lp {D} {N} {ix} " + L([b(m1[(0,)+i]) for i in idxs(sh)]) + " " + L([b(m2[(0,)+i]) for i in idxs(sh)]))
            g = np.array(make_grid(D,3.0,N,full=True,zero_centered=True,indexing=ix))
            print(f"grid {D} {N} {ix} {L([str(x) for x in g.shape])} " + L([L([showR(g[(d,)+i]) for d in range(D)]) for i in idxs(g.shape[1:])]))
            g = np.array(make_grid(D,3.0,N,indexing=ix))
            print(f"grid2 {D} {N} {ix} {L([str(x) for x in g.shape])} " + L([L([showR(g[(d,)+i]) for d in range(D)]) for i in idxs(g.shape[1:])]))
        om = np.array(S.oddball_filter_mask(D,N)); wsh = S.wavenumber_shape(D,N)
        print(f"odd {D} {N} " + L([b(om[(0,)+i]) for i in idxs(wsh)]))
        print(f"shapes {D} {N} {L([str(x) for x in wsh])} {L([str(x) for x in S.spatial_shape(D,N)])} {L([str(x) for x in S.space_indices(D)])}")
        print(f"slices {D} {N} " + L([L([sl(s) for s in blk]) for blk in S.get_modes_slices(D,N)]))
        dm = np.array(NF(D,N,dealiasing_fraction=2/3).dealiasing_mask)
        print(f"deal {D} {N} " + L([f"(some {b(dm[(0,)+i])})" for i in idxs(wsh)]))
        ush = (2,)+S.spatial_shape(D,N)
        u = np.arange(int(np.prod(ush))).reshape(ush)
        w = np.array(wrap_bc(u))
        print(f"wrap {D} {N} {L([str(x) for x in w.shape])} " + L([str(int(w[i])) for i in idxs(w.shape)]))
    

if __name__ == "__main__":
    buf = io.StringIO()
    with contextlib.redirect_stdout(buf):
        python_side()
    want = buf.getvalue().strip().split("\n")
    with tempfile.NamedTemporaryFile("w", suffix=".lean", delete=False) as f:
        f.write(LEAN_MAIN)
    p = subprocess.run(["lake", "env", "lean", "--run", f.name], cwd=LEAN_DIR, capture_output=True, text=True)
    os.unlink(f.name)
    got = p.stdout.strip().split("\n")
    if p.returncode != 0 or len(got) != len(want):
        print("lean side failed:", p.stderr[-500:], len(got), len(want)); sys.exit(1)
    for a, b in zip(got, want):
        if a != b:
            print("MISMATCH\n lean  :", a[:300], "\n python:", b[:300]); sys.exit(1)
    print(f"ok: {len(want)} lines identical")
