#!/usr/bin/env python3
"""
Translator for the pseudo-spectral nonlinear functions: regenerates
lean/ExponaxModel/Generated/NonlinFuns.lean from the *current* source of every
class deriving from `BaseNonlinearFun` anywhere under exponax/ (Python `ast`, no
import of the package).

Semantics.  Every array of the Python program has the layout
`(leading axes..., *spatial)`; the spatial axes are kept flat (C order) and are
either the `N^D` grid ('G') or the stored half spectrum ('M').  The translator
does static shape inference with symbolic leading dimensions (`C`, `c.D`, `1`,
literals) and gives every numpy operation its index-level meaning:

  x[None, :], x[:, None], x[a:b], x[k]     re-indexing of the leading axes
  a ∘ b  (+ - * /, **n), scalars, -a       pointwise, numpy broadcasting of leading axes
  jnp.sum(x, axis=k[, keepdims=True])      sumList over List.range (dim k)
  jnp.stack / jnp.concatenate (axis 0)     case split on the leading index
  jnp.where(cond, a, b), ==, !=, &         if-then-else on booleans per entry
  jnp.zeros_like, .imag, .real
  jax.vmap(self.m)(x), jnp.mean(f)         per-channel mean over the grid
  for coeff in self.<tuple>: pointwise     List.foldl on every entry
  self.fft / self.ifft / self.dealias      Nonlin.nfft / Nonlin.nifft / Nonlin.mask   (primitives)
  self.derivative_operator                 Nonlin.deriv c d h                          (primitive)
  build_laplace_operator                   Gen.Steppers.laplace_op (translated from the source)
  build_wavenumbers / build_scaling_array  Layout.wnFlat / Layout.scaling              (primitives)
  self.<object>(x), self.<method>(x), super().__call__(x), module-level helper functions: calls of
  the definitions generated for them.

An array that is assigned to a name is materialised as a Lean array
(`tab` / `tab2`; two leading axes (A, B) are stored flat, entry (i, j) at `i * B + j`).
Everything outside this vocabulary raises TranslateError (a broken proof obligation).
"""
from __future__ import annotations

import ast
import glob
import hashlib
import json
import os
import re
import sys

sys.path.insert(0, os.path.dirname(os.path.abspath(__file__)))
import translate as T  # noqa: E402
from translate import V, TranslateError  # noqa: E402

BASE = "BaseNonlinearFun"
NS = "NonlinFuns"
_IDENT = re.compile(r"[A-Za-z_][A-Za-z_0-9.']*\Z")


def par(s: str) -> str:
    """parenthesise unless atomic"""
    s = s.strip()
    if _IDENT.match(s) or s.isdigit():
        return s
    if s[0] == "(" and s[-1] == ")":
        depth = 0
        for i, ch in enumerate(s):
            if ch == "(":
                depth += 1
            elif ch == ")":
                depth -= 1
                if depth == 0 and i != len(s) - 1:
                    break
        else:
            return s
    return "(" + s + ")"


class Arr:
    """a translated array: leading shape (symbolic dims), spatial domain, entry function"""

    def __init__(self, shape, dom, f, elt="K", name=None, simple=False, opt1=False):
        self.shape = list(shape)
        self.dom = dom            # 'M' | 'G' | None (scalar lifted for broadcasting)
        self.f = f                # (idx: list[str], x: str) -> Lean text of the entry
        self.elt = elt            # 'K' | 'Z' (Int) | 'B' (Bool)
        self.name = name          # Lean name of the array holding exactly this value (rank ≤ 2)
        self.simple = simple      # cheap view: is not materialised when assigned
        self.opt1 = opt1          # rank 0 result of self.fft/ifft: carries an extra leading 1 iff a mask is set

    @property
    def rank(self):
        return len(self.shape)


class Obj:
    """an instance of a translated class: class info + constructor arguments + configuration"""

    def __init__(self, cls, argvals, cfg):
        self.cls = cls
        self.argvals = argvals
        self.cfg = cfg


class Computed:
    """an array attribute computed in __init__: call of a generated definition"""

    def __init__(self, call, shape, dom, need_im=False):
        self.call = call
        self.shape = shape
        self.dom = dom
        self.need_im = need_im


class DF:
    """the opaque `dealiasing_fraction` (lives in Nonlin.Cfg: fp / fq)"""


SCALING_MODES = {(1, 1): 0, (2, 1): 1, (2, 2): 2}   # (right-most, others) denominators -> Layout.scaling mode

# Shape assumptions the source relies on without checking them (numpy broadcasting would otherwise fail or
# mean something else).  They become part of the generated definition's documentation and are hypotheses of
# the corresponding theorems; they are NOT derived from the source.
ASSUMED = {
    ("ConvectionNonlinearFun", "_single_channel_nonconservative_eval"): [("C", "1")],
}

CONFIG_PARAMS = ("num_spatial_dims", "num_points", "derivative_operator", "dealiasing_fraction")


# ----------------------------------------------------------------------------
# the source universe
# ----------------------------------------------------------------------------
class ClassInfo:
    def __init__(self, name, rel, node, src, tree):
        self.name, self.rel, self.node, self.src, self.tree = name, rel, node, src, tree
        self.parent = None          # ClassInfo | None (None: direct child of BaseNonlinearFun)
        self.call_info = None       # memo of the translated __call__
        self.method_info = {}
        self.attr_defs = {}         # attr -> (def name, [param names])

    def own(self, meth):
        ms = [m for m in self.node.body if isinstance(m, ast.FunctionDef) and m.name == meth]
        if len(ms) > 1:
            raise TranslateError(f"{self.name}.{meth} defined twice")
        return ms[0] if ms else None

    def find(self, meth):
        c = self
        while c is not None:
            m = c.own(meth)
            if m is not None:
                return c, m
            c = c.parent
        return None, None


class World:
    def __init__(self, out_hashes):
        self.hashes = out_hashes
        self.defs = []              # (name, text) in dependency order
        self.classes = {}
        self.helper_memo = {}
        self.load()

    def load(self):
        root = os.path.join(T.REPO, "exponax")
        files = sorted(glob.glob(os.path.join(root, "**", "*.py"), recursive=True))
        if not files:
            raise TranslateError("no source files found under exponax/")
        allc = {}
        for path in files:
            src = open(path).read()
            tree = ast.parse(src)
            rel = os.path.relpath(path, root)
            for n in ast.walk(tree):
                if isinstance(n, ast.ClassDef):
                    allc.setdefault(n.name, []).append(ClassInfo(n.name, rel, n, src, tree))

        def bases(ci):
            return [ast.unparse(b).split(".")[-1] for b in ci.node.bases]

        def derives(name, seen=()):
            if name == BASE:
                return True
            if name not in allc or name in seen:
                return False
            return any(derives(b, seen + (name,)) for ci in allc[name] for b in bases(ci))

        for name, cis in allc.items():
            if name != BASE and derives(name):
                if len(cis) > 1:
                    raise TranslateError(f"class {name} defined twice ({', '.join(c.rel for c in cis)})")
                self.classes[name] = cis[0]
        if BASE not in allc or len(allc[BASE]) != 1:
            raise TranslateError(f"{BASE} not found (or defined twice)")
        self.base = allc[BASE][0]
        for name, ci in self.classes.items():
            bs = [b for b in bases(ci) if b == BASE or b in self.classes]
            if len(bs) != 1:
                raise TranslateError(f"{name}: expected exactly one nonlinear-function base class, got {bases(ci)}")
            ci.parent = None if bs[0] == BASE else self.classes[bs[0]]
        if not self.classes:
            raise TranslateError(f"no class derives from {BASE}")
        # _spectral.py facts: default `order` of build_laplace_operator, mode table of build_scaling_array
        spath = os.path.join(root, "_spectral.py")
        ssrc = open(spath).read()
        stree = ast.parse(ssrc)
        fn = T.find_func(stree.body, "build_laplace_operator")
        self.hashes["_spectral.py::build_laplace_operator.signature"] = hashlib.sha256(
            ast.unparse(fn.args).encode()).hexdigest()[:16]
        if [a.arg for a in fn.args.args] != ["derivative_operator"] or [a.arg for a in fn.args.kwonlyargs] != ["order"]:
            raise TranslateError("build_laplace_operator: unexpected signature")
        d = fn.args.kw_defaults[0]
        if not (isinstance(d, ast.Constant) and isinstance(d.value, int) and d.value >= 0):
            raise TranslateError("build_laplace_operator: default order is not a natural literal")
        self.laplace_default_order = d.value
        fn = T.find_func(stree.body, "build_scaling_array")
        self.hashes["_spectral.py::build_scaling_array"] = T.src_hash(fn, ssrc)
        self.scaling_modes = {}
        node = [s for s in fn.body if isinstance(s, ast.If)]
        if len(node) != 1:
            raise TranslateError("build_scaling_array: unexpected structure")
        cur = node[0]
        while isinstance(cur, ast.If):
            t = cur.test
            if not (isinstance(t, ast.Compare) and ast.unparse(t.left) == "mode" and isinstance(t.ops[0], ast.Eq)
                    and isinstance(t.comparators[0], ast.Constant)):
                raise TranslateError("build_scaling_array: unexpected test " + ast.unparse(t))
            ret = cur.body[0]
            if not (len(cur.body) == 1 and isinstance(ret, ast.Return) and isinstance(ret.value, ast.Call)
                    and ast.unparse(ret.value.func) == "_build_scaling_array"
                    and [ast.unparse(a) for a in ret.value.args] == ["num_spatial_dims", "num_points"]):
                raise TranslateError("build_scaling_array: unexpected branch " + ast.unparse(cur.body[0])[:60])
            kw = {k.arg: k.value for k in ret.value.keywords}
            try:
                key = (kw["right_most_scaling_denominator"].value, kw["others_scaling_denominator"].value)
            except (KeyError, AttributeError):
                raise TranslateError("build_scaling_array: denominators are not literals")
            if key not in SCALING_MODES or ast.unparse(kw.get("indexing", ast.Name(id="indexing"))) != "indexing":
                raise TranslateError(f"build_scaling_array: denominators {key} outside the modelled modes")
            self.scaling_modes[t.comparators[0].value] = SCALING_MODES[key]
            cur = cur.orelse[0] if len(cur.orelse) == 1 else None
        fn = T.find_func(stree.body, "build_wavenumbers")
        if [a.arg for a in fn.args.args] != ["num_spatial_dims", "num_points"]:
            raise TranslateError("build_wavenumbers: unexpected signature")

    def add_def(self, name, text):
        if any(n == name for n, _ in self.defs):
            raise TranslateError(f"definition {name} generated twice")
        self.defs.append((name, text))


def ctor_params(ci):
    """[(name, kind, default ast | None)] of the constructor in force for class ci"""
    c, init = ci.find("__init__")
    if init is None:
        raise TranslateError(f"{ci.name}: no __init__ in the class chain")
    if init.args.vararg or init.args.kwarg or init.args.posonlyargs or init.decorator_list:
        raise TranslateError(f"{c.name}.__init__: unsupported signature")
    out = []
    pos = list(init.args.args)[1:]
    pd = [None] * (len(pos) - len(init.args.defaults)) + list(init.args.defaults)
    for a, d in list(zip(pos, pd)) + list(zip(init.args.kwonlyargs, init.args.kw_defaults)):
        if a.arg in CONFIG_PARAMS:
            kind = "CFG"
        else:
            kind = T.ann_kind(a.annotation) if a.annotation is not None else None
        out.append((a.arg, kind, d))
    return c, init, out


def leading_dim(fn_name, arg):
    """leading dimension of an array parameter from its jaxtyping annotation"""
    ann = arg.annotation
    if not (isinstance(ann, ast.Subscript) and isinstance(ann.slice, ast.Tuple) and len(ann.slice.elts) == 2
            and isinstance(ann.slice.elts[1], ast.Constant) and isinstance(ann.slice.elts[1].value, str)):
        raise TranslateError(f"{fn_name}: parameter {arg.arg} has no jaxtyping shape annotation")
    tok = ann.slice.elts[1].value.split()
    if not tok:
        raise TranslateError(f"{fn_name}: empty shape annotation")
    if tok[0] == "C":
        return "C"
    if tok[0] == "D":
        return "c.D"
    if tok[0].isdigit():
        return tok[0]
    raise TranslateError(f"{fn_name}: leading dimension {tok[0]!r} of {arg.arg} outside the vocabulary")


# ----------------------------------------------------------------------------
# the array translator
# ----------------------------------------------------------------------------
RESERVED = {"c", "C", "M", "G", "K", "h", "x", "p", "i0", "i1", "acc", "b_vm", "at", "from", "fun", "open", "end",
            "in", "do", "then", "else", "if", "let", "have", "show", "by", "match", "with", "mask", "deriv", "tab",
            "tab2", "tabC", "at2", "lit", "qlit", "npow", "modes", "gridSize", "nfft", "nifft", "laplace", "scaling"}
BVAR = "b_vm"


def subst_text(text, mapping):
    if not mapping:
        return text
    pat = re.compile(r"(?<![\w.])(" + "|".join(re.escape(k) for k in sorted(mapping, key=len, reverse=True)) + r")(?![\w'])")
    return pat.sub(lambda m: par(mapping[m.group(1)]), text)


def subst_val(v, mapping):
    """substitute constructor-parameter names in a canonical value"""
    if isinstance(v, V):
        items = [subst_val(i, mapping) for i in v.items] if v.items is not None else None
        nv = V(subst_text(v.lean, mapping), v.ty, atom=False, items=items)
        return nv
    if isinstance(v, Obj):
        return Obj(v.cls, {k: subst_val(a, mapping) for k, a in v.argvals.items()}, subst_text(v.cfg, mapping))
    if isinstance(v, Computed):
        return Computed(subst_text(v.call, mapping), v.shape, v.dom, v.need_im)
    return v   # primitive arrays, DF


class ArrTr(T.FunTr):
    def __init__(self, world, ci, owner, modtree, modsrc, modrel, cfg="c", attrs=None, eqs=None):
        super().__init__(None, {})
        self.w = world
        self.ci = ci
        self.owner = owner
        self.modtree, self.modsrc, self.modrel = modtree, modsrc, modrel
        self.cfg = cfg
        self.attrs = attrs if attrs is not None else {}
        self.attr_cache = {}
        self.eqs = list(eqs or [])
        self.guards = []
        self.notes = []
        self.names = set(RESERVED)
        self.kctr = 0
        self.batch = None
        self.need_im = False
        self.hint = None
        self.in_init = False
        self.super_args = None
        self.base_init = None        # (dealias: bool) once BaseNonlinearFun.__init__ is reached
        self.init_attrs = {}
        self.super_obj = None        # Obj of the parent class (for super().__call__)
        self.C = None                # dimension string of the leading axis of u_hat, if symbolic
        self.base_mode = False       # translating BaseNonlinearFun itself (fft / ifft / dealias)

    # -- names / dims -----------------------------------------------------------
    def err(self, msg):
        return TranslateError(f"{self.owner}: {msg}")

    def fresh(self, base):
        base = re.sub(r"\W", "_", base) or "t"
        n, k = base, 0
        while n in self.names:
            k += 1
            n = f"{base}_{k}"
        self.names.add(n)
        return n

    def fresh_k(self):
        self.kctr += 1
        return f"k{self.kctr}"

    def size(self, dom):
        if dom not in ("M", "G"):
            raise self.err("array without a spatial domain cannot be stored")
        return dom

    def dim_eq(self, a, b):
        if a == b:
            return True
        # closure of the recorded guard equalities
        seen, todo = {a}, [a]
        while todo:
            cur = todo.pop()
            for l, r in self.eqs:
                for u, v in ((l, r), (r, l)):
                    if u == cur and v not in seen:
                        seen.add(v)
                        todo.append(v)
        return b in seen

    def is_one(self, d):
        return d == "1" or self.dim_eq(d, "1")

    def dim_lit(self, d):
        if d.isdigit():
            return int(d)
        for k in range(0, 10):
            if self.dim_eq(d, str(k)):
                return k
        return None

    # -- arrays -----------------------------------------------------------------
    def named(self, name, shape, dom, opt1=False):
        shape = list(shape)
        if len(shape) == 0:
            f = lambda idx, x: f"{name}.getD {par(x)} 0"
        elif len(shape) == 1:
            f = lambda idx, x: f"at2 {name} {par(idx[0])} {par(x)}"
        elif len(shape) == 2:
            B = par(shape[1])
            f = lambda idx, x: f"at2 {name} ({par(idx[0])} * {B} + {par(idx[1])}) {par(x)}"
        else:
            raise self.err("arrays with more than two leading axes cannot be stored")
        return Arr(shape, dom, f, name=name, simple=True, opt1=opt1)

    def sp(self, dom):
        return "h" if dom == "M" else "x"

    def tabulate(self, arr):
        """Lean text of the stored form of `arr`"""
        if arr.elt != "K":
            raise self.err("only field-valued arrays can be stored")
        n, s = self.size(arr.dom), self.sp(arr.dom)
        if arr.rank == 0:
            return f"tab {n} (fun {s} => {arr.f([], s)})", "Array K"
        if arr.rank == 1:
            return f"tab2 {par(arr.shape[0])} {n} (fun i0 {s} => {arr.f(['i0'], s)})", "MC K"
        if arr.rank == 2:
            A, B = par(arr.shape[0]), par(arr.shape[1])
            return f"tab2 ({A} * {B}) {n} (fun p {s} => {arr.f([f'p / {B}', f'p % {B}'], s)})", "MC K"
        raise self.err("arrays with more than two leading axes cannot be stored")

    def materialize(self, arr, base):
        text, ty = self.tabulate(arr)
        name = self.fresh(base)
        self.lines.append(f"let {name} : {ty} := {text}")
        return self.named(name, arr.shape, arr.dom, opt1=arr.opt1)

    def ensure_named(self, arr, base):
        if arr.name is not None:
            return arr
        return self.materialize(arr, base)

    def transform(self, kind, arr, base, raw=False):
        prim, src, dst = ("nfft", "G", "M") if kind == "fft" else ("nifft", "M", "G")
        if raw:     # exponax._spectral.fft / ifft themselves: jnp.fft.rfftn / irfftn over the spatial axes
            prim = "rfftnM c.D c.N" if kind == "fft" else "irfftnM c.D c.N"
        if not isinstance(arr, Arr) or arr.elt != "K" or arr.dom != src:
            raise self.err(f"self.{kind} applied to something that is not a "
                           f"{'grid field' if src == 'G' else 'spectrum'}")
        n, s = self.size(src), self.sp(src)
        row = lambda idx: (f"{prim} (tab {n} (fun {s} => {arr.f(idx, s)}))" if raw else
                           f"{prim} {par(self.cfg)} (tab {n} (fun {s} => {arr.f(idx, s)}))")
        name = self.fresh(base)
        if arr.rank == 0:
            self.lines.append(f"let {name} : Array K := {row([])}")
            return self.named(name, [], dst, opt1=not raw)
        if arr.rank == 1:
            self.lines.append(f"let {name} : MC K := tabC {par(arr.shape[0])} (fun i0 => {row(['i0'])})")
        elif arr.rank == 2:
            A, B = par(arr.shape[0]), par(arr.shape[1])
            self.lines.append(f"let {name} : MC K := tabC ({A} * {B}) (fun p => {row([f'p / {B}', f'p % {B}'])})")
        else:
            raise self.err("transform of an array with more than two leading axes")
        return self.named(name, arr.shape, dst)

    def lift(self, v):
        if isinstance(v, Arr):
            return v
        if isinstance(v, V) and v.ty in ("K", "N", "Z"):
            k = self.toK(v)
            txt = k.p()
            return Arr([], None, lambda idx, x: txt, simple=True)
        raise self.err(f"value of kind {getattr(v, 'ty', type(v).__name__)} in an array expression")

    def broadcast(self, arrs):
        r = max(a.rank for a in arrs)
        shape = []
        for pos in range(r):
            cand = []
            for a in arrs:
                j = pos - (r - a.rank)
                if j >= 0 and not self.is_one(a.shape[j]):
                    cand.append(a.shape[j])
            if not cand:
                shape.append("1")
                continue
            for d in cand[1:]:
                if not self.dim_eq(cand[0], d):
                    raise self.err(f"cannot broadcast leading dimensions {cand[0]} and {d} (no guard equates them)")
            shape.append(cand[0])
        doms = {a.dom for a in arrs if a.dom is not None}
        if len(doms) > 1:
            raise self.err("operands live on different spatial domains (grid / spectrum)")
        dom = doms.pop() if doms else None

        def mapper(a):
            off = r - a.rank
            return lambda idx: ["0" if self.is_one(a.shape[j]) else idx[j + off] for j in range(a.rank)]
        opt1 = r == 0 and any(a.opt1 for a in arrs)
        return shape, dom, [mapper(a) for a in arrs], opt1

    def pointwise(self, arrs, fn, elt="K"):
        arrs = [self.lift(a) for a in arrs]
        shape, dom, maps, opt1 = self.broadcast(arrs)
        f = lambda idx, x: fn(*[a.f(m(idx), x) for a, m in zip(arrs, maps)])
        return Arr(shape, dom, f, elt=elt, opt1=opt1)

    # -- expressions ----------------------------------------------------------
    def const(self, c):
        if isinstance(c, str):
            return V(repr(c), "S", atom=True)
        if c is None:
            return V("None", "NONE", atom=True)
        return super().const(c)

    def expr(self, n):
        if isinstance(n, ast.Constant):
            return self.const(n.value)
        if isinstance(n, ast.Name):
            if n.id in self.env:
                return self.env[n.id]
            raise self.err(f"unbound name {n.id}")
        if isinstance(n, (ast.Tuple, ast.List)):
            items = [self.expr(e) for e in n.elts]
            if all(isinstance(i, V) and i.ty in ("K", "N", "Z") for i in items):
                ks = [self.toK(i) for i in items]
                return V("(" + ", ".join(k.lean for k in ks) + ")", ("T", len(ks)), atom=True, items=ks)
            raise self.err("tuple/list of non-scalars outside jnp.stack / jnp.concatenate")
        if isinstance(n, ast.UnaryOp):
            v = self.expr(n.operand)
            if isinstance(n.op, ast.UAdd):
                return v
            if isinstance(n.op, ast.USub):
                if isinstance(v, Arr):
                    if v.elt != "K":
                        raise self.err("negation of a non-field array")
                    self.use("Neg")
                    return self.pointwise([v], lambda a: f"-{par(a)}")
                if v.ty == "N":
                    return V(f"-({v.lean} : Int)", "Z")
                if v.ty == "Z":
                    return V(f"-{v.p()}", "Z")
                if v.ty == "K":
                    return V(f"-{v.p()}", "K")
            raise self.err(f"unsupported unary operation {ast.unparse(n)[:60]}")
        if isinstance(n, ast.BinOp):
            a, b = self.expr(n.left), self.expr(n.right)
            return self.bin(n.op, a, b, n.right, n)
        if isinstance(n, ast.Compare):
            return self.compare(n)
        if isinstance(n, ast.Attribute):
            return self.attribute(n)
        if isinstance(n, ast.Subscript):
            return self.subscript(n)
        if isinstance(n, ast.Call):
            return self.call(n)
        raise self.err(f"unsupported expression {ast.unparse(n)[:80]}")

    def scalar_bin(self, op, a, b, rnode):
        if isinstance(op, ast.Pow):
            return self.power(a, b, rnode)
        ints = ("N", "Z")
        if a.ty in ints and b.ty in ints and not isinstance(op, ast.Div):
            sym = {ast.Add: "+", ast.Sub: "-", ast.Mult: "*", ast.FloorDiv: "/", ast.Mod: "%"}.get(type(op))
            if sym is None:
                raise self.err("unsupported integer operator")
            if a.ty == "N" and b.ty == "N" and not isinstance(op, ast.Sub):
                return V(f"{a.p()} {sym} {b.p()}", "N")
            a, b = self.toZ(a), self.toZ(b)
            if sym == "/":
                return V(f"Int.fdiv {a.p()} {b.p()}", "Z")
            if sym == "%":
                return V(f"Int.fmod {a.p()} {b.p()}", "Z")
            return V(f"{a.p()} {sym} {b.p()}", "Z")
        if a.ty not in ("K", "N", "Z") or b.ty not in ("K", "N", "Z"):
            raise self.err(f"arithmetic on values of kind {a.ty}, {b.ty}")
        a, b = self.toK(a), self.toK(b)
        sym = {ast.Add: "+", ast.Sub: "-", ast.Mult: "*", ast.Div: "/"}.get(type(op))
        if sym is None:
            raise self.err(f"unsupported operator {type(op).__name__}")
        return V(f"{a.p()} {sym} {b.p()}", "K")

    def bin(self, op, a, b, rnode, n):
        if isinstance(a, V) and isinstance(b, V):
            return self.scalar_bin(op, a, b, rnode)
        if not all(isinstance(t, (V, Arr)) for t in (a, b)):
            raise self.err(f"unsupported operands in {ast.unparse(n)[:60]}")
        if isinstance(op, ast.Pow):
            if not (isinstance(a, Arr) and isinstance(b, V) and b.ty == "N" and a.elt == "K"):
                raise self.err(f"power with a non-static or non-natural exponent: {ast.unparse(n)[:60]}")
            e = b.p()
            return self.pointwise([a], lambda t: f"npow {par(t)} {e}")
        if isinstance(op, ast.BitAnd):
            if not (isinstance(a, Arr) and isinstance(b, Arr) and a.elt == "B" and b.elt == "B"):
                raise self.err("`&` on non-boolean arrays")
            return self.pointwise([a, b], lambda s, t: f"{par(s)} && {par(t)}", elt="B")
        sym = {ast.Add: "+", ast.Sub: "-", ast.Mult: "*", ast.Div: "/"}.get(type(op))
        if sym is None:
            raise self.err(f"array operator outside the vocabulary: {ast.unparse(n)[:60]}")
        for t in (a, b):
            if isinstance(t, Arr) and t.elt != "K":
                raise self.err(f"arithmetic on a non-field array: {ast.unparse(n)[:60]}")
        return self.pointwise([a, b], lambda s, t: f"{par(s)} {sym} {par(t)}")

    def compare(self, n):
        if len(n.ops) != 1 or not isinstance(n.ops[0], (ast.Eq, ast.NotEq)):
            raise self.err(f"unsupported comparison {ast.unparse(n)[:60]}")
        a, b = self.expr(n.left), self.expr(n.comparators[0])
        neg = isinstance(n.ops[0], ast.NotEq)
        if isinstance(a, Arr) and isinstance(b, V):
            if a.elt == "K":
                if not (b.ty == "N" and b.lean == "0"):
                    raise self.err(f"field-valued arrays can only be compared with 0: {ast.unparse(n)[:60]}")
                if neg:
                    return self.pointwise([a], lambda t: f"!(HasIsZero.isZero {par(t)})", elt="B")
                return self.pointwise([a], lambda t: f"HasIsZero.isZero {par(t)}", elt="B")
            if a.elt == "Z" and b.ty in ("N", "Z"):
                z = self.toZ(b).p()
                if neg:
                    return self.pointwise([a], lambda t: f"!({par(t)} == {z})", elt="B")
                return self.pointwise([a], lambda t: f"{par(t)} == {z}", elt="B")
        raise self.err(f"unsupported comparison {ast.unparse(n)[:60]}")

    def attribute(self, n):
        if isinstance(n.value, ast.Name) and n.value.id == "self":
            return self.self_attr(n.attr)
        if n.attr in ("imag", "real"):
            v = self.expr(n.value)
            fn = "HasIm.im" if n.attr == "imag" else "HasRe.re"
            if n.attr == "imag":
                self.need_im = True
            if isinstance(v, Arr) and v.elt == "K":
                r = self.pointwise([v], lambda t: f"{fn} {par(t)}")
                r.simple = v.simple
                return r
            if isinstance(v, V) and v.ty == "K":
                return V(f"{fn} {v.p()}", "K")
        raise self.err(f"unsupported attribute {ast.unparse(n)[:60]}")

    def self_attr(self, attr):
        if attr in self.attr_cache:
            return self.attr_cache[attr]
        if self.in_init and attr in self.init_attrs:
            return self.init_attrs[attr]
        if self.base_mode and attr == "dealiasing_mask":
            # the Boolean low-pass mask (when one is set: c.fq ≠ 0), promoted to the field by the product
            return Arr(["1"], "M", lambda idx, x: f"(if dealiasMask c.N c.fp c.fq (wnFlat c.D c.N {par(x)}) "
                                                   f"then (1 : K) else 0)", simple=True)
        if attr == "num_spatial_dims":
            return V("c.D", "N", atom=True)
        if attr == "num_points":
            return V("c.N", "N", atom=True)
        if attr not in self.attrs:
            raise self.err(f"unknown attribute self.{attr}")
        v = self.attrs[attr]
        if isinstance(v, Computed):
            name = self.fresh(attr)
            self.lines.append(f"let {name} : MC K := {v.call}")
            self.need_im = self.need_im or v.need_im
            v = self.named(name, v.shape, v.dom)
            self.attr_cache[attr] = v
        return v

    def subscript(self, n):
        # <array>.shape[k]
        if isinstance(n.value, ast.Attribute) and n.value.attr == "shape":
            v = self.expr(n.value.value)
            if isinstance(v, Arr) and isinstance(n.slice, ast.Constant) and isinstance(n.slice.value, int) \
                    and 0 <= n.slice.value < v.rank:
                return V(v.shape[n.slice.value], "N", atom=True)
            raise self.err(f"unsupported shape access {ast.unparse(n)[:60]}")
        v = self.expr(n.value)
        if isinstance(v, V):
            idx = n.slice
            if isinstance(idx, ast.Constant) and isinstance(idx.value, int):
                i = idx.value
                if v.items is not None:
                    if not -len(v.items) <= i < len(v.items):
                        raise self.err(f"index {i} out of range in {ast.unparse(n)[:60]}")
                    return v.items[i]
                if isinstance(v.ty, tuple) and v.ty[0] == "T":
                    k = v.ty[1]
                    if not -k <= i < k:
                        raise self.err(f"index {i} out of range in {ast.unparse(n)[:60]}")
                    if i < 0:
                        i += k
                    proj = ".2" * i + (".1" if i < k - 1 else "")
                    return V(f"{v.p()}{proj}", "K", atom=True)
                if v.ty == "L" and i >= 0:
                    return V(f"({v.p()}).getD {i} 0", "K")
            raise self.err(f"unsupported subscript {ast.unparse(n)[:60]}")
        if not isinstance(v, Arr):
            raise self.err(f"subscript of a non-array {ast.unparse(n)[:60]}")
        if v.opt1:
            raise self.err("indexing the rank-0 result of self.fft/self.ifft (its rank depends on whether a mask is set)")
        elts = list(n.slice.elts) if isinstance(n.slice, ast.Tuple) else [n.slice]
        return self.index(v, elts, n)

    def index(self, arr, elts, n):
        plan, new_shape = [], []
        pos = 0

        def static_int(e):
            if isinstance(e, ast.Constant) and isinstance(e.value, int) and not isinstance(e.value, bool) and e.value >= 0:
                return e.value
            raise self.err(f"non-static or negative index in {ast.unparse(n)[:60]}")

        def check(k, d, strict, hard):
            lit = self.dim_lit(d)
            if lit is None:
                if hard:
                    raise self.err(f"slice bound {k} on an axis of unknown extent {d} in {ast.unparse(n)[:60]}")
                self.notes.append(f"requires {k} < {d}  ({ast.unparse(n)[:50]}; IndexError otherwise)")
            elif (k >= lit) if strict else (k > lit):
                raise self.err(f"index {k} out of range for an axis of extent {d} = {lit} in {ast.unparse(n)[:60]}")

        for e in elts:
            if isinstance(e, ast.Constant) and e.value is None:
                plan.append(("new",))
                new_shape.append("1")
            elif isinstance(e, ast.Constant) and e.value is Ellipsis:
                while pos < arr.rank:
                    plan.append(("keep",))
                    new_shape.append(arr.shape[pos])
                    pos += 1
            elif isinstance(e, ast.Slice):
                if pos >= arr.rank:
                    if e.lower is None and e.upper is None and e.step is None:
                        continue   # full slice of a spatial axis
                    raise self.err(f"slicing a spatial axis in {ast.unparse(n)[:60]}")
                if e.step is not None:
                    raise self.err("slice with a step")
                if e.lower is None and e.upper is None:
                    plan.append(("keep",))
                    new_shape.append(arr.shape[pos])
                else:
                    if e.lower is None or e.upper is None:
                        raise self.err(f"half-open slice in {ast.unparse(n)[:60]}")
                    a, b = static_int(e.lower), static_int(e.upper)
                    if b <= a:
                        raise self.err(f"empty slice in {ast.unparse(n)[:60]}")
                    check(b, arr.shape[pos], strict=False, hard=True)
                    plan.append(("off", a, b - a))
                    new_shape.append(str(b - a))
                pos += 1
            else:
                k = static_int(e)
                if pos >= arr.rank:
                    raise self.err(f"indexing a spatial axis in {ast.unparse(n)[:60]}")
                check(k, arr.shape[pos], strict=True, hard=False)
                plan.append(("fix", k))
                pos += 1
        while pos < arr.rank:
            plan.append(("keep",))
            new_shape.append(arr.shape[pos])
            pos += 1

        def mapidx(idx):
            idx = list(idx)
            out = []
            for pl in plan:
                if pl[0] == "new":
                    idx.pop(0)
                elif pl[0] == "keep":
                    out.append(idx.pop(0))
                elif pl[0] == "fix":
                    out.append(str(pl[1]))
                else:
                    i = idx.pop(0)
                    out.append(str(pl[1]) if pl[2] == 1 else (par(i) if pl[1] == 0 else f"{pl[1]} + {par(i)}"))
            return out
        return Arr(new_shape, arr.dom, lambda idx, x: arr.f(mapidx(idx), x), elt=arr.elt,
                   simple=arr.simple or arr.name is not None)

    # -- calls --------------------------------------------------------------------
    def kw(self, n, allowed):
        out = {}
        for k in n.keywords:
            if k.arg not in allowed:
                raise self.err(f"unexpected keyword {k.arg} in {ast.unparse(n)[:60]}")
            out[k.arg] = k.value
        return out

    def static_axis(self, node, n):
        if isinstance(node, ast.Constant) and isinstance(node.value, int) and not isinstance(node.value, bool) \
                and node.value >= 0:
            return node.value
        raise self.err(f"axis must be a non-negative literal in {ast.unparse(n)[:60]}")

    def call(self, n):
        fn = ast.unparse(n.func)
        hint, self.hint = self.hint, None
        if fn in ("self.fft", "self.ifft"):
            if len(n.args) != 1 or n.keywords:
                raise self.err(f"unexpected arguments in {ast.unparse(n)[:60]}")
            a = self.expr(n.args[0])
            return self.transform(fn[5:], a, hint or ("t_hat" if fn == "self.fft" else "t_phys"))
        if self.base_mode and fn in ("fft", "ifft"):
            kw = self.kw(n, ("num_spatial_dims", "num_points"))
            want = {"num_spatial_dims": "c.D"} if fn == "fft" else {"num_spatial_dims": "c.D", "num_points": "c.N"}
            if len(n.args) != 1 or set(kw) != set(want) or any(
                    getattr(self.expr(kw[k]), "lean", None) != v for k, v in want.items()):
                raise self.err(f"{fn} must be called with this object's configuration: {ast.unparse(n)[:80]}")
            return self.transform(fn, self.expr(n.args[0]), hint or ("t_hat" if fn == "fft" else "t_phys"), raw=True)
        if fn == "self.dealias":
            if len(n.args) != 1 or n.keywords:
                raise self.err(f"unexpected arguments in {ast.unparse(n)[:60]}")
            a = self.expr(n.args[0])
            if not isinstance(a, Arr) or a.dom != "M" or a.elt != "K":
                raise self.err("self.dealias applied to something that is not a spectrum")
            cfg = par(self.cfg)
            self.notes.append("self.dealias raises ValueError when no dealiasing mask is set (c.fq = 0, where `mask` is 1)")
            return Arr(a.shape, "M", lambda idx, x: f"mask {cfg} {par(x)} * {par(a.f(idx, x))}",
                       opt1=a.rank == 0)
        if fn == "jnp.sum":
            kw = self.kw(n, ("axis", "keepdims"))
            if len(n.args) != 1 or "axis" not in kw:
                raise self.err(f"jnp.sum needs one array and a literal axis: {ast.unparse(n)[:60]}")
            a = self.expr(n.args[0])
            ax = self.static_axis(kw["axis"], n)
            keep = "keepdims" in kw and ast.unparse(kw["keepdims"]) == "True"
            if "keepdims" in kw and ast.unparse(kw["keepdims"]) not in ("True", "False"):
                raise self.err("keepdims must be a literal")
            if not isinstance(a, Arr) or a.elt != "K" or a.opt1 or ax >= a.rank:
                raise self.err(f"jnp.sum over a spatial / missing axis: {ast.unparse(n)[:60]}")
            dim = a.shape[ax]
            k = self.fresh_k()
            shape = a.shape[:ax] + (["1"] if keep else []) + a.shape[ax + 1:]

            def f(idx, x, a=a, ax=ax, keep=keep, dim=dim, k=k):
                idx = list(idx)
                if keep:
                    idx.pop(ax)
                inner = a.f(idx[:ax] + [k] + idx[ax:], x)
                return f"sumList (List.map (fun {k} => {inner}) (List.range {par(dim)}))"
            return Arr(shape, a.dom, f)
        if fn == "jnp.mean":
            if len(n.args) != 1 or n.keywords:
                raise self.err(f"jnp.mean with an axis: {ast.unparse(n)[:60]}")
            a = self.expr(n.args[0])
            if self.batch is None or not isinstance(a, Arr) or a.rank != 0 or a.dom != "G" or a.elt != "K":
                raise self.err("jnp.mean is only supported on one grid channel inside jax.vmap")
            bvar, dim = self.batch
            name = self.fresh((n.args[0].id if isinstance(n.args[0], ast.Name) else "t") + "_mean")
            self.lines.append(f"let {name} : Array K := tab {par(dim)} (fun {bvar} => "
                              f"sumRange G (fun x => {a.f([], 'x')}) / lit G)")
            return V(f"{name}.getD {bvar} 0", "K")
        if fn == "jnp.where":
            if len(n.args) != 3 or n.keywords:
                raise self.err(f"jnp.where needs three arguments: {ast.unparse(n)[:60]}")
            cnd, a, b = (self.expr(t) for t in n.args)
            if not (isinstance(cnd, Arr) and cnd.elt == "B"):
                raise self.err("jnp.where: condition is not a boolean array")
            for t in (a, b):
                if isinstance(t, Arr) and t.elt != "K":
                    raise self.err("jnp.where on non-field arrays")
            la, lb = self.lift(a), self.lift(b)
            shape, dom, maps, opt1 = self.broadcast([cnd, la, lb])
            f = lambda idx, x: (f"if {cnd.f(maps[0](idx), x)} then {la.f(maps[1](idx), x)} "
                                f"else {lb.f(maps[2](idx), x)}")
            return Arr(shape, dom, f, opt1=opt1)
        if fn == "jnp.zeros_like":
            a = self.expr(n.args[0]) if len(n.args) == 1 and not n.keywords else None
            if not isinstance(a, Arr) or a.opt1:
                raise self.err(f"unsupported {ast.unparse(n)[:60]}")
            return Arr(a.shape, a.dom, lambda idx, x: "(0 : K)", simple=True)
        if fn in ("jnp.stack", "jnp.concatenate"):
            kw = self.kw(n, ("axis",))
            if len(n.args) != 1 or not isinstance(n.args[0], (ast.List, ast.Tuple)) or not n.args[0].elts \
                    or ("axis" in kw and self.static_axis(kw["axis"], n) != 0):
                raise self.err(f"unsupported {ast.unparse(n)[:60]} (list literal, axis 0 only)")
            items = [self.expr(e) for e in n.args[0].elts]
            for it in items:
                if not isinstance(it, Arr) or it.elt != "K" or it.opt1:
                    raise self.err(f"{fn} of non-arrays")
            if len({(tuple(i.shape[1:]) if fn == "jnp.concatenate" else tuple(i.shape)) for i in items}) != 1 \
                    or len({i.dom for i in items}) != 1:
                raise self.err(f"{fn}: operands of different shapes")
            if fn == "jnp.stack":
                sizes = [1] * len(items)
                shape = [str(len(items))] + items[0].shape
            else:
                if any(i.rank < 1 for i in items):
                    raise self.err("jnp.concatenate of rank-0 arrays")
                sizes = []
                for it in items:
                    lit = 1 if it.shape[0] == "1" else self.dim_lit(it.shape[0])
                    if lit is None:
                        raise self.err("jnp.concatenate of an operand with a non-literal leading extent")
                    sizes.append(lit)
                shape = [str(sum(sizes))] + items[0].shape[1:]
            offs = [sum(sizes[:k]) for k in range(len(items))]
            is_stack = fn == "jnp.stack"

            def f(idx, x, items=items, sizes=sizes, offs=offs, is_stack=is_stack):
                i, rest = idx[0], list(idx[1:])
                parts = []
                for it, sz, off in zip(items, sizes, offs):
                    if is_stack:
                        parts.append(it.f(rest, x))
                    else:
                        loc = "0" if sz == 1 else (par(i) if off == 0 else f"{par(i)} - {off}")
                        parts.append(it.f([loc] + rest, x))
                out = parts[-1]
                for k in range(len(parts) - 2, -1, -1):
                    test = f"{par(i)} = {offs[k]}" if sizes[k] == 1 else f"{par(i)} < {offs[k] + sizes[k]}"
                    out = f"if {test} then {parts[k]} else {par(out)}"
                return out
            return Arr(shape, items[0].dom, f)
        if fn == "build_laplace_operator":
            kw = self.kw(n, ("order",))
            if len(n.args) != 1:
                raise self.err(f"unsupported {ast.unparse(n)[:60]}")
            a = self.expr(n.args[0])
            if not (isinstance(a, Arr) and a.rank == 1 and a.dom == "M" and a.elt == "K"):
                raise self.err("build_laplace_operator: argument is not a derivative operator")
            if "order" in kw:
                o = self.expr(kw["order"])
                if not (isinstance(o, V) and o.ty == "N"):
                    raise self.err("build_laplace_operator: order is not a static natural number")
                order = o.p()
            else:
                order = str(self.w.laplace_default_order)
            k = self.fresh_k()
            dim = par(a.shape[0])
            f = lambda idx, x: (f"Gen.Steppers.laplace_op (List.map (fun {k} => {a.f([k], x)}) "
                                f"(List.range {dim})) {order}")
            return Arr(["1"], "M", f)
        if fn == "build_wavenumbers":
            if n.keywords or [getattr(self.expr(a), "lean", None) for a in n.args] != ["c.D", "c.N"]:
                raise self.err(f"build_wavenumbers must be called as (num_spatial_dims, num_points): {ast.unparse(n)[:60]}")
            return Arr(["c.D"], "M", lambda idx, x: f"(wnFlat c.D c.N {par(x)}).getD {par(idx[0])} 0",
                       elt="Z", simple=True)
        if fn == "build_scaling_array":
            kw = self.kw(n, ("mode",))
            if [getattr(self.expr(a), "lean", None) for a in n.args] != ["c.D", "c.N"] or "mode" not in kw \
                    or not (isinstance(kw["mode"], ast.Constant) and kw["mode"].value in self.w.scaling_modes):
                raise self.err(f"unsupported {ast.unparse(n)[:80]}")
            mode = self.w.scaling_modes[kw["mode"].value]
            return Arr(["1"], "M", lambda idx, x: f"scaling c.D c.N {mode} (unflatten (wavenumberShape c.D c.N) {par(x)})",
                       simple=True)
        # jax.vmap(self.method)(x)
        if isinstance(n.func, ast.Call) and ast.unparse(n.func.func) == "jax.vmap":
            inner = n.func
            if len(inner.args) != 1 or inner.keywords or not (
                    isinstance(inner.args[0], ast.Attribute) and ast.unparse(inner.args[0].value) == "self"):
                raise self.err(f"unsupported vmap {ast.unparse(n)[:60]}")
            return self.vmap_call(inner.args[0].attr, n)
        if fn == "super().__call__":
            if self.super_obj is None:
                raise self.err("super().__call__ without a translated parent class")
            return self.call_object(self.super_obj, n, hint)
        if isinstance(n.func, ast.Attribute) and ast.unparse(n.func.value) == "self":
            attr = n.func.attr
            if attr in self.attrs or (self.in_init and attr in self.init_attrs):
                o = self.self_attr(attr)
                if isinstance(o, Obj):
                    return self.call_object(o, n, hint)
                raise self.err(f"self.{attr} is not callable")
            return self.call_method(attr, n, hint)
        if isinstance(n.func, ast.Name):
            if n.func.id in self.w.classes:
                return self.construct(self.w.classes[n.func.id], n)
            fdef = [f for f in self.modtree.body if isinstance(f, ast.FunctionDef) and f.name == n.func.id]
            if len(fdef) == 1:
                return self.call_helper(fdef[0], n, hint)
        raise self.err(f"call outside the vocabulary: {ast.unparse(n)[:80]}")

    def vmap_call(self, mname, n):
        if len(n.args) != 1 or n.keywords:
            raise self.err(f"unsupported vmap application {ast.unparse(n)[:60]}")
        owner, m = self.ci.find(mname) if self.ci is not None else (None, None)
        if m is None:
            raise self.err(f"vmap of an unknown method self.{mname}")
        self.w.hashes[f"{owner.rel}::{owner.name}.{mname}"] = T.src_hash(m, owner.src)
        params = [a.arg for a in m.args.args][1:]
        body = [s for s in m.body if not (isinstance(s, ast.Expr) and isinstance(s.value, ast.Constant))]
        if len(params) != 1 or len(body) != 1 or not isinstance(body[0], ast.Return) or m.args.kwonlyargs:
            raise self.err(f"vmap: {mname} is not a one-argument single-expression method")
        arg = self.expr(n.args[0])
        if not isinstance(arg, Arr) or arg.rank < 1 or arg.elt != "K":
            raise self.err("vmap over something that is not an array with a leading axis")
        if self.batch is not None:
            raise self.err("nested vmap")
        arg = self.ensure_named(arg, n.args[0].id if isinstance(n.args[0], ast.Name) else "t")
        dim = arg.shape[0]
        inner = Arr(arg.shape[1:], arg.dom, lambda idx, x: arg.f([BVAR] + list(idx), x), simple=True)
        saved = self.env
        self.env = {params[0]: inner}
        self.batch = (BVAR, dim)
        try:
            r = self.expr(body[0].value)
        finally:
            self.env = saved
            self.batch = None
        if not isinstance(r, Arr):
            raise self.err("vmap: the method does not return an array")
        pat = re.compile(r"\b" + BVAR + r"\b")
        return Arr([dim] + r.shape, r.dom, lambda idx, x: pat.sub(par(idx[0]), r.f(list(idx[1:]), x)))

    # values passed to generated definitions
    def arg_text(self, v, kind, what):
        if isinstance(v, V):
            if kind == "K" and v.ty in ("K", "N", "Z"):
                return self.toK(v).p()
            if kind == "B" and v.ty == "B":
                return v.p()
            if kind == "N" and v.ty == "N":
                return v.p()
            if kind == "L" and v.items is not None:
                return "[" + ", ".join(i.lean for i in v.items) + "]"
            if kind == "L" and v.ty == "L":
                return v.p()
            if isinstance(kind, tuple) and v.ty == kind:
                return v.p()
        raise self.err(f"cannot pass {what} (kind {getattr(v, 'ty', type(v).__name__)}) where {kind} is expected")

    def array_arg(self, a, want, what, base="t"):
        if not (isinstance(a, Arr) and a.rank == 1 and a.elt == "K") or a.opt1:
            raise self.err(f"{what}: argument is not an array with one leading axis")
        if want not in ("C", None) and not self.dim_eq(a.shape[0], want):
            raise self.err(f"{what}: leading extent {a.shape[0]} where {want} is expected (no guard equates them)")
        return self.ensure_named(a, base)

    def call_object(self, obj, n, hint):
        if len(n.args) != 1 or n.keywords:
            raise self.err(f"unsupported call {ast.unparse(n)[:60]}")
        while obj.cls.own("__call__") is None:
            if obj.cls.parent is None:
                raise self.err(f"{obj.cls.name} has no __call__")
            pinfo = self.w.class_init(obj.cls)
            mapping = {p: self.arg_text(a, k, p) for p, a, k in self.canon_triples(obj)}
            obj = Obj(obj.cls.parent, {k: subst_val(v, mapping) for k, v in pinfo["super_args"].items()}, obj.cfg)
        info = self.w.class_call(obj.cls)
        a = self.array_arg(self.expr(n.args[0]), info["udim"], f"call of {obj.cls.name}")
        args = [par(obj.cfg)]
        mapping = {}
        if info["udim"] == "C":
            args.append(par(a.shape[0]))
            mapping["C"] = a.shape[0]
        flagvals = {}
        for p, kind in info["params"]:
            if p not in obj.argvals:
                raise self.err(f"no value for constructor parameter {p} of {obj.cls.name}")
            t = self.arg_text(obj.argvals[p], kind, p)
            args.append(t)
            flagvals[p] = t
        args.append(a.name)
        name = self.fresh(hint or "t_hat")
        self.lines.append(f"let {name} : MC K := {info['name']} {' '.join(args)}")
        if info["need_im"]:
            self.need_im = True
        shape, dom = resolve_ret(info["ret"], flagvals, self)
        shape = [mapping.get(d, d) for d in shape]
        return self.named(name, shape, dom)

    def canon_triples(self, obj):
        _, _, params = ctor_params(obj.cls)
        return [(p, obj.argvals[p], k) for p, k, _ in params if k != "CFG" and k is not None and p in obj.argvals]

    def call_method(self, mname, n, hint):
        if self.ci is None:
            raise self.err(f"self.{mname} outside a class")
        info = self.w.method_def(self.ci, mname)
        if n.keywords or len(n.args) != len(info["arrays"]):
            raise self.err(f"unsupported call {ast.unparse(n)[:60]}")
        args = [par(self.cfg)]
        mapping = {}
        arrs = []
        for node, (pn, want) in zip(n.args, info["arrays"]):
            a = self.array_arg(self.expr(node), want, f"call of self.{mname}",
                               node.id if isinstance(node, ast.Name) else "t")
            if want == "C":
                if "C" in mapping and not self.dim_eq(mapping["C"], a.shape[0]):
                    raise self.err(f"self.{mname}: inconsistent channel counts")
                mapping.setdefault("C", a.shape[0])
            arrs.append(a.name)
        if "C" in mapping:
            args.append(par(mapping["C"]))
        flagvals = {}
        for p, kind in info["params"]:
            args.append(p)
            flagvals[p] = p
        name = self.fresh(hint or "t_hat")
        self.lines.append(f"let {name} : MC K := {info['name']} {' '.join(args + arrs)}")
        if info["need_im"]:
            self.need_im = True
        shape, dom = resolve_ret(info["ret"], flagvals, self)
        shape = [mapping.get(d, d) for d in shape]
        return self.named(name, shape, dom)

    def call_helper(self, fdef, n, hint):
        if n.keywords or len(n.args) != len(fdef.args.args) or fdef.args.kwonlyargs or fdef.args.vararg:
            raise self.err(f"unsupported call {ast.unparse(n)[:60]}")
        arrs = []
        for node in n.args:
            a = self.expr(node)
            if not (isinstance(a, Arr) and a.rank == 1 and a.elt == "K") or a.opt1:
                raise self.err(f"{fdef.name}: argument is not an array with one leading axis")
            arrs.append(self.ensure_named(a, node.id if isinstance(node, ast.Name) else
                                          (node.attr if isinstance(node, ast.Attribute) else "t")))
        doms = {a.dom for a in arrs}
        if len(doms) != 1:
            raise self.err(f"{fdef.name}: arguments on different domains")
        info = self.w.helper_def(self, fdef, [a.shape[0] for a in arrs], arrs[0].dom)
        name = self.fresh(hint or "t")
        self.lines.append(f"let {name} : MC K := {info['name']} {par(self.cfg)} {' '.join(a.name for a in arrs)}")
        self.notes += [f"{fdef.name}: {t}" for t in info["notes"]]
        shape, dom = resolve_ret(info["ret"], {}, self)
        return self.named(name, shape, dom)

    def construct(self, cls, n):
        """ClassName(...) inside __init__: an object value"""
        _, _, params = ctor_params(cls)
        argvals = self.bind_call(params, n)
        cfg = self.check_config(cls, argvals, ast.unparse(n)[:60])
        return Obj(cls, argvals, cfg)

    def check_config(self, cls, argvals, what):
        """the configuration arguments of a sub-object must be those of this object; the callee is then
        given this object's `c` (a class that never sets a mask overrides `fq` itself)"""
        self.check_passthrough(argvals, what)
        info = self.w.class_init(cls)
        if not info["nodealias"]:
            if not isinstance(argvals.get("dealiasing_fraction"), DF):
                raise self.err(f"{what}: dealiasing_fraction is not passed through")
            if self.cfg != "c":
                raise self.err(f"{what}: a class without dealiasing mask constructs one with a mask")
        return "c"

    # -- statements ---------------------------------------------------------------
    def cond(self, t):
        """(Lean proposition text, flag name | None)"""
        if isinstance(t, ast.UnaryOp) and isinstance(t.op, ast.Not):
            c, _ = self.cond(t.operand)
            return f"¬ ({c})", None
        if self.base_mode and isinstance(t, ast.Compare) and len(t.ops) == 1 \
                and isinstance(t.ops[0], (ast.Is, ast.IsNot)) and ast.unparse(t.left) == "self.dealiasing_mask" \
                and ast.unparse(t.comparators[0]) == "None":
            # Nonlin.Cfg encodes "no dealiasing mask" as fq = 0
            return ("c.fq = 0" if isinstance(t.ops[0], ast.Is) else "c.fq ≠ 0"), None
        v = self.expr(t)
        if isinstance(v, V) and v.ty == "B":
            return f"{v.p()} = true", v.lean
        raise self.err(f"unsupported condition {ast.unparse(t)[:60]}")

    def guard(self, s):
        exc = s.body[0].exc
        name = ast.unparse(exc.func) if isinstance(exc, ast.Call) else (ast.unparse(exc) if exc else "?")
        text = f"{name} if {ast.unparse(s.test)}"
        t = s.test
        if self.base_mode and ast.unparse(t) == "self.dealiasing_mask is None":
            text += "   [so c.fq ≠ 0]"
        if isinstance(t, ast.Compare) and len(t.ops) == 1 and isinstance(t.ops[0], ast.NotEq):
            try:
                a, b = self.expr(t.left), self.expr(t.comparators[0])
                if isinstance(a, V) and isinstance(b, V) and a.ty == "N" and b.ty == "N":
                    self.eqs.append((a.lean, b.lean))
                    text += f"   [so {a.lean} = {b.lean}]"
            except TranslateError:
                pass
        self.guards.append(text)

    def assign_name(self, name, v, rest_names=None):
        if isinstance(v, Arr):
            if v.elt != "K" or v.simple or v.name is not None:
                self.env[name] = v        # views, primitives, boolean / integer arrays: no storage
            else:
                self.env[name] = self.materialize(v, name)
            return
        if isinstance(v, V):
            if v.ty in ("N", "Z", "B", "S", "NONE") or v.atom or v.items is not None:
                self.env[name] = v
                return
            if v.ty == "K":
                ln = self.fresh(name)
                self.lines.append(f"let {ln} : K := {v.lean}")
                self.env[name] = V(ln, "K", atom=True)
                return
        if isinstance(v, (Obj, DF)):
            self.env[name] = v
            return
        raise self.err(f"cannot bind {name}")

    def stmt(self, s, rest=()):
        if isinstance(s, ast.Expr) and isinstance(s.value, ast.Constant) and isinstance(s.value.value, str):
            return
        if isinstance(s, ast.Expr) and isinstance(s.value, ast.Call) and ast.unparse(s.value.func) == "super().__init__":
            if not self.in_init:
                raise self.err("super().__init__ outside __init__")
            self.super_init(s.value)
            return
        if isinstance(s, ast.AugAssign):
            sym = s.op
            s = ast.Assign(targets=[s.target], value=ast.BinOp(left=ast.Name(id=s.target.id, ctx=ast.Load())
                                                                if isinstance(s.target, ast.Name) else s.target,
                                                                op=sym, right=s.value))
        if isinstance(s, ast.Assign):
            if len(s.targets) != 1:
                raise self.err("multiple assignment targets")
            t = s.targets[0]
            if isinstance(t, ast.Name):
                self.hint = t.id
                v = self.expr(s.value)
                self.hint = None
                if isinstance(s.value, ast.Constant) and isinstance(v, V):
                    self.env[t.id] = v      # a literal: no storage
                    return
                self.assign_name(t.id, v)
                return
            if isinstance(t, ast.Attribute) and ast.unparse(t.value) == "self" and self.in_init:
                self.hint = t.attr
                v = self.expr(s.value)
                self.hint = None
                if isinstance(v, Arr) and not getattr(v, "is_deriv", False):
                    if v.elt != "K":
                        raise self.err(f"self.{t.attr}: boolean / integer array attributes are not supported")
                    v = self.ensure_named(v, t.attr)
                    if v.rank != 1:
                        raise self.err(f"self.{t.attr}: array attribute without exactly one leading axis")
                    self.computed.append((t.attr, v))
                self.init_attrs[t.attr] = v
                return
            raise self.err(f"unsupported assignment target {ast.unparse(t)[:60]}")
        if isinstance(s, ast.If):
            if len(s.body) == 1 and isinstance(s.body[0], ast.Raise) and not s.orelse:
                self.guard(s)
                return
            self.flag_branch(s)
            return
        if isinstance(s, ast.For):
            self.for_loop(s, rest)
            return
        raise self.err(f"unsupported statement {type(s).__name__}: {ast.unparse(s)[:60]}")

    def finish(self, v):
        if not (isinstance(v, Arr) and v.elt == "K"):
            raise self.err("the returned value is not a field-valued array")
        if v.opt1:
            raise self.err("the rank of the returned array depends on whether a dealiasing mask is set")
        if v.rank != 1:
            raise self.err(f"the returned array has {v.rank} leading axes (exactly one is supported)")
        if v.name is not None:
            return v.name, ("shape", list(v.shape), v.dom)
        return self.tabulate(v)[0], ("shape", list(v.shape), v.dom)

    def block(self, stmts):
        for i, s in enumerate(stmts):
            if isinstance(s, ast.Return):
                if s.value is None or i != len(stmts) - 1:
                    raise self.err("bare return / statements after return")
                text, ret = self.finish(self.expr(s.value))
                self.lines.append(text)
                return ret
            if isinstance(s, ast.If) and always_returns(s.body):
                rest = s.orelse if s.orelse else stmts[i + 1:]
                if s.orelse and i != len(stmts) - 1:
                    raise self.err("statements after a returning if/else")
                c, flag = self.cond(s.test)
                env0, lines0 = dict(self.env), self.lines
                self.lines = []
                r1 = self.block(s.body)
                tl = self.lines
                self.env, self.lines = dict(env0), []
                r2 = self.block(list(rest))
                el = self.lines
                self.env = env0
                self.lines = lines0 + [f"if {c} then"] + T._indent(tl, 2) + ["else"] + T._indent(el, 2)
                if flag is None:
                    if r1 != r2:
                        raise self.err("branches return arrays of different shapes")
                    return r1
                return ("if", flag, r1, r2)
            self.stmt(s, stmts[i + 1:])
        raise self.err("block does not end in return")

    def flag_branch(self, s):
        if any(isinstance(t, ast.Return) for t in ast.walk(s)):
            raise self.err("only one branch of an if/else returns")
        c, _ = self.cond(s.test)
        env0, lines0 = dict(self.env), self.lines
        self.lines = []
        for t in s.body:
            self.stmt(t)
        tl, env1 = self.lines, self.env
        self.env, self.lines = dict(env0), []
        for t in s.orelse:
            self.stmt(t)
        el, env2 = self.lines, self.env
        self.lines = lines0
        self.env = dict(env0)
        changed = [k for k in env0 if env1.get(k) is not env0[k] or env2.get(k) is not env0[k]]
        if len(changed) != 1:
            raise self.err(f"`if {ast.unparse(s.test)}`: exactly one previously defined array must be reassigned "
                           f"(got {changed})")
        nm = changed[0]
        old = env0[nm]
        if not isinstance(old, Arr) or old.elt != "K" or old.rank > 2:
            raise self.err(f"`if {ast.unparse(s.test)}`: {nm} is not a storable array")
        old = self.ensure_named(old, nm)

        def branch_value(env, lines):
            v = env[nm]
            if v is env0[nm]:
                return old.name, lines
            if not isinstance(v, Arr) or v.shape != old.shape or v.dom != old.dom or v.opt1 != old.opt1:
                raise self.err(f"`if {ast.unparse(s.test)}`: {nm} changes its shape")
            if v.name is None:
                saved = self.lines
                self.lines = lines
                v = self.materialize(v, nm)
                lines = self.lines
                self.lines = saved
            return v.name, lines
        n1, tl = branch_value(env1, tl)
        n2, el = branch_value(env2, el)
        new = self.fresh(nm)
        ty = "Array K" if old.rank == 0 else "MC K"
        self.lines.append(f"let {new} : {ty} := if {c} then (")
        self.lines += T._indent(tl + [n1 + ")"], 4)
        self.lines.append("  else (")
        self.lines += T._indent(el + [n2 + ")"], 4)
        self.env[nm] = self.named(new, old.shape, old.dom, opt1=old.opt1)

    def for_loop(self, s, rest):
        if s.orelse or not isinstance(s.target, ast.Name):
            raise self.err("unsupported for loop")
        it = self.expr(s.iter)
        if not (isinstance(it, V) and it.ty == "L"):
            raise self.err(f"for loop over something that is not a tuple of floats: {ast.unparse(s.iter)[:40]}")
        lv = s.target.id
        body = []
        for t in s.body:
            if isinstance(t, ast.AugAssign) and isinstance(t.target, ast.Name):
                t = ast.Assign(targets=[t.target], value=ast.BinOp(left=ast.Name(id=t.target.id, ctx=ast.Load()),
                                                                   op=t.op, right=t.value))
            if not (isinstance(t, ast.Assign) and len(t.targets) == 1 and isinstance(t.targets[0], ast.Name)):
                raise self.err(f"for loop body: only assignments to names are supported: {ast.unparse(t)[:50]}")
            body.append(t)
        state = []
        for t in body:
            if t.targets[0].id not in state:
                state.append(t.targets[0].id)
        for v in state:
            if v not in self.env or not isinstance(self.env[v], (V, Arr)):
                raise self.err(f"for loop: {v} is not initialised before the loop")
        inits = {v: self.lift(self.env[v]) for v in state}
        saved_env, saved_lines = self.env, self.lines

        def run(shapes):
            """one symbolic pass of the body; state variables are arrays of the given shapes whose entries
            are the local names"""
            self.env = dict(saved_env)
            self.lines = []
            self.env[lv] = V(lv, "K", atom=True)
            for v in state:
                sh, dom = shapes[v]
                self.env[v] = Arr(sh, dom, (lambda idx, x, v=v: v), simple=True)
            outs = []
            for t in body:
                r = self.lift(self.expr(t.value))
                if self.lines:
                    raise self.err("for loop body: only pointwise arithmetic is supported")
                if r.elt != "K" or r.opt1:
                    raise self.err("for loop body: non-field value")
                nm = t.targets[0].id
                outs.append((nm, r))
                self.env[nm] = Arr(r.shape, r.dom, (lambda idx, x, nm=nm: nm), simple=True)
            return outs, {v: (self.env[v].shape, self.env[v].dom) for v in state}
        try:
            shapes = {v: (inits[v].shape, inits[v].dom) for v in state}
            for _ in range(4):
                outs, new = run(shapes)
                merged = {}
                for v in state:
                    sh, dom, _, _ = self.broadcast([Arr(*shapes[v], None), Arr(*new[v], None)])
                    merged[v] = (sh, dom)
                if merged == shapes:
                    break
                shapes = merged
            else:
                raise self.err("for loop: shapes do not stabilise")
            full = self.broadcast([Arr(*shapes[v], None) for v in state])
            for v in state:
                if shapes[v] != (full[0], full[1]):
                    raise self.err("for loop: the loop variables end with different shapes")
            outs, _ = run(shapes)
        finally:
            self.env, self.lines = saved_env, saved_lines
        shape, dom = full[0], full[1]
        if dom is None:
            raise self.err("for loop over scalars only")
        n = len(state)
        proj = (lambda k: "") if n == 1 else (lambda k: ".2" * k + (".1" if k < n - 1 else ""))
        accty = " × ".join(["K"] * n)

        def entry(idx, x, k):
            lets = [f"let {v} := acc{proj(j)}" for j, v in enumerate(state)]
            for nm, r in outs:
                off = len(shape) - r.rank
                ridx = ["0" if r.shape[j] == "1" else idx[j + off] for j in range(r.rank)]
                lets.append(f"let {nm} := {r.f(ridx, x)}")
            res = state[0] if n == 1 else "(" + ", ".join(state) + ")"
            init = []
            for v in state:
                a = inits[v]
                off = len(shape) - a.rank
                init.append(a.f(["0" if a.shape[j] == "1" else idx[j + off] for j in range(a.rank)], x))
            i0 = init[0] if n == 1 else "(" + ", ".join(init) + ")"
            return (f"(List.foldl (fun (acc : {accty}) ({lv} : K) => {'; '.join(lets)}; {res}) "
                    f"{i0} {it.p()}){proj(k)}")
        live = {m.id for t in rest for m in ast.walk(t) if isinstance(m, ast.Name)}
        for k, v in enumerate(state):
            arr = Arr(shape, dom, (lambda idx, x, k=k: entry(idx, x, k)))
            if v in live:
                self.env[v] = self.materialize(arr, v)
            else:
                self.env[v] = arr

    # -- __init__ ----------------------------------------------------------------
    def bind_call(self, params, n):
        """bind the arguments of a constructor call to the parameter list [(name, kind, default)]"""
        argvals = {}
        if len(n.args) > len(params):
            raise self.err(f"too many arguments in {ast.unparse(n)[:60]}")
        for (p, kind, d), a in zip(params, n.args):
            argvals[p] = self.expr(a)
        for k in n.keywords:
            if k.arg not in [p for p, _, _ in params] or k.arg in argvals:
                raise self.err(f"bad keyword {k.arg} in {ast.unparse(n)[:60]}")
            argvals[k.arg] = self.expr(k.value)
        for p, kind, d in params:
            if p not in argvals:
                if d is None:
                    raise self.err(f"missing argument {p} in {ast.unparse(n)[:60]}")
                argvals[p] = self.expr(d)
        return argvals

    def super_init(self, n):
        if self.base_init is not None:
            raise self.err("super().__init__ called twice")
        if self.ci.parent is None:
            params = [("num_spatial_dims", "CFG", None), ("num_points", "CFG", None),
                      ("dealiasing_fraction", "CFG", ast.Constant(None))]
            argvals = self.bind_call(params, n)
            self.check_passthrough(argvals, "BaseNonlinearFun.__init__")
            df = argvals["dealiasing_fraction"]
            if isinstance(df, DF):
                self.base_init = {"nodealias": False}
            elif isinstance(df, V) and df.ty == "NONE":
                self.base_init = {"nodealias": True}
            else:
                raise self.err("dealiasing_fraction is not passed through to BaseNonlinearFun.__init__")
            return
        _, _, params = ctor_params(self.ci.parent)
        argvals = self.bind_call(params, n)
        self.check_passthrough(argvals, f"{self.ci.parent.name}.__init__")
        pinfo = self.w.class_init(self.ci.parent)
        if not pinfo["nodealias"] and not isinstance(argvals.get("dealiasing_fraction"), DF):
            raise self.err("dealiasing_fraction is not passed through to the parent class")
        self.base_init = {"nodealias": pinfo["nodealias"]}
        self.super_args = argvals
        self.eqs = pinfo["eqs"] + self.eqs       # the parent's guards hold from here on

    def check_passthrough(self, argvals, what):
        for p, want in (("num_spatial_dims", "c.D"), ("num_points", "c.N")):
            if p in argvals and not (isinstance(argvals[p], V) and argvals[p].lean == want):
                raise self.err(f"{what}: {p} is not passed through")
        if "derivative_operator" in argvals and not getattr(argvals["derivative_operator"], "is_deriv", False):
            raise self.err(f"{what}: derivative_operator is not passed through")


# ----------------------------------------------------------------------------
# classes, methods, helpers -> definitions
# ----------------------------------------------------------------------------
def always_returns(stmts):
    if not stmts:
        return False
    last = stmts[-1]
    if isinstance(last, ast.Return):
        return True
    return isinstance(last, ast.If) and always_returns(last.body) and always_returns(last.orelse)


def resolve_ret(ret, flagvals, tr):
    if ret[0] == "shape":
        return list(ret[1]), ret[2]
    _, flag, r1, r2 = ret
    v = flagvals.get(flag)
    if v == "true":
        return resolve_ret(r1, flagvals, tr)
    if v == "false":
        return resolve_ret(r2, flagvals, tr)
    a, b = resolve_ret(r1, flagvals, tr), resolve_ret(r2, flagvals, tr)
    if a != b:
        raise tr.err(f"the shape of the result depends on the non-static flag {flag}")
    return a


def ret_text(ret):
    if ret[0] == "shape":
        return "(" + ", ".join(ret[1] + ["modes" if ret[2] == "M" else "grid"]) + ")"
    return f"if {ret[1]} then {ret_text(ret[2])} else {ret_text(ret[3])}"


def deriv_arr():
    a = Arr(["c.D"], "M", lambda idx, x: f"deriv c {par(idx[0])} {par(x)}", simple=True)
    a.is_deriv = True
    return a


LET_RE = re.compile(r"let ([A-Za-z_][A-Za-z_0-9]*) : [^:]*:=")


def slice_lets(lines, needed):
    """keep the single-line lets `needed` depends on"""
    if any(not LET_RE.match(l) for l in lines):
        return lines
    needed = set(needed)
    keep = []
    for l in reversed(lines):
        nm = LET_RE.match(l).group(1)
        if nm in needed:
            keep.append(l)
            needed |= T.tokens(l.split(":=", 1)[1])
    keep.reverse()
    return keep


def binder(kind, name):
    ty = {"K": "K", "B": "Bool", "N": "Nat", "L": "List K"}.get(kind)
    if ty is None and isinstance(kind, tuple) and kind[0] == "T":
        ty = " × ".join(["K"] * kind[1])
    if ty is None:
        raise TranslateError(f"no Lean type for parameter {name} of kind {kind}")
    return f"({name} : {ty})"


def used_params(params, text):
    toks = T.tokens(text)
    return [(p, k) for p, k, _ in params if k not in ("CFG", None) and p in toks]


def emit(name, comments, need_im, binders, lines, ret_ty="MC K"):
    head = f"def {name} {'[HasIm K] ' if need_im else ''}(c : Cfg K) {' '.join(binders)}".rstrip() + f" : {ret_ty} :="
    out = "".join(f"-- {c}\n" for c in comments) + head + "\n"
    out += "  let M := modes c\n  let G := gridSize c\n"
    out += "\n".join(T._indent(lines, 2)) + "\n"
    return out


def canonical_env(tr, params):
    for p, kind, d in params:
        if p == "num_spatial_dims":
            tr.env[p] = V("c.D", "N", atom=True)
        elif p == "num_points":
            tr.env[p] = V("c.N", "N", atom=True)
        elif p == "derivative_operator":
            tr.env[p] = deriv_arr()
        elif p == "dealiasing_fraction":
            tr.env[p] = DF()
        elif kind is not None:
            tr.env[p] = V(p, kind, atom=True)
            tr.names.add(p)


def class_init(self, cls):
    """canonical translation of the constructor in force for `cls` (constructor parameters are variables)"""
    if getattr(cls, "init_info", None) is not None:
        if cls.init_info == "busy":
            raise TranslateError(f"{cls.name}: recursive construction")
        return cls.init_info
    owner, init, params = ctor_params(cls)
    if owner is not cls:
        cls.init_info = self.class_init(owner)
        return cls.init_info
    cls.init_info = "busy"
    self.hashes[f"{cls.rel}::{cls.name}.__init__"] = T.src_hash(init, cls.src)
    tr = ArrTr(self, cls, f"{cls.name}.__init__", cls.tree, cls.src, cls.rel)
    tr.in_init = True
    tr.computed = []
    canonical_env(tr, params)
    for i, s in enumerate(init.body):
        if isinstance(s, ast.Return):
            raise tr.err("return in __init__")
        tr.stmt(s, init.body[i + 1:])
    if tr.base_init is None:
        raise tr.err("__init__ never reaches BaseNonlinearFun.__init__")
    attrs, eqs, guards = {}, [], []
    if cls.parent is not None:
        pinfo = self.class_init(cls.parent)
        _, _, pparams = ctor_params(cls.parent)
        mapping = {}
        for p, kind, d in pparams:
            if kind not in ("CFG", None):
                mapping[p] = tr.arg_text(tr.super_args[p], kind, p)
        attrs = {k: subst_val(v, mapping) for k, v in pinfo["attrs"].items()}
        guards += [f"({cls.parent.name}) {g}" for g in pinfo["guards"]]
    eqs += tr.eqs
    guards += tr.guards
    # array attributes computed here: one definition each
    comp_names = {}
    for attr, arr in tr.computed:
        dname = f"{cls.name}_init_{attr}"
        lines = slice_lets(tr.lines, {arr.name}) + [arr.name]
        body = "\n".join(lines)
        up = used_params(params, body)
        comments = [f"{cls.name}.__init__ → self.{attr}  (exponax/{cls.rel}); leading extent {arr.shape[0]}"]
        comments += [f"guard (source raises otherwise): {g}" for g in guards]
        comments += [f"note: {t}" for t in tr.notes]
        self.add_def(dname, emit(dname, comments, tr.need_im, [binder(k, p) for p, k in up], lines))
        call = " ".join([dname, "c"] + [p for p, _ in up])
        attrs[attr] = Computed(call, list(arr.shape), arr.dom, tr.need_im)
        comp_names[attr] = dname
    for attr, v in tr.init_attrs.items():
        if attr not in comp_names:
            attrs[attr] = v
    info = {"attrs": attrs, "eqs": eqs, "guards": guards, "nodealias": tr.base_init["nodealias"],
            "super_args": tr.super_args, "params": params, "need_im": tr.need_im}
    cls.init_info = info
    return info


def dom_of(fn_name, arg):
    tok = arg.annotation.slice.elts[1].value.split()
    return "M" if "//2" in tok[-1] else "G"


BASE_INFO = {"attrs": {}, "eqs": [], "guards": [], "nodealias": False, "params": [], "super_args": None}


def translate_function(self, cls, m, defname, what):
    iinfo = BASE_INFO if cls is self.base else self.class_init(cls)
    owner = cls
    self.hashes[f"{owner.rel}::{owner.name}.{m.name}"] = T.src_hash(m, owner.src)
    if m.decorator_list or m.args.kwonlyargs or m.args.vararg or m.args.kwarg or m.args.defaults:
        raise TranslateError(f"{what}: unsupported signature")
    tr = ArrTr(self, cls, what, cls.tree, cls.src, cls.rel, cfg="{ c with fq := 0 }" if iinfo["nodealias"] else "c",
               attrs=iinfo["attrs"], eqs=iinfo["eqs"])
    tr.base_mode = cls is self.base
    assumed = ASSUMED.get((cls.name, m.name), [])
    tr.eqs += assumed
    for p, kind, d in iinfo["params"]:
        if kind not in ("CFG", None):
            tr.names.add(p)
    if cls.parent is not None:
        tr.super_obj = Obj(cls.parent, iinfo["super_args"], "c")
    arrays = []
    for a in m.args.args[1:]:
        dim = leading_dim(what, a)
        ln = tr.fresh(a.arg)
        tr.env[a.arg] = tr.named(ln, [dim], dom_of(what, a))
        arrays.append((ln, dim))
    if not arrays:
        raise TranslateError(f"{what}: no array parameter")
    hasC = any(d == "C" for _, d in arrays)
    ret = tr.block(m.body)
    body = "\n".join(tr.lines)
    up = used_params(iinfo["params"], body)
    comments = [f"{what}  (exponax/{cls.rel});  result {ret_text(ret)}",
                "parameters: c " + ("C " if hasC else "") + " ".join(f"self.{p}" for p, _ in up)
                + " " + " ".join(n for n, _ in arrays)]
    if iinfo["nodealias"]:
        comments.append("this class never sets a dealiasing mask (its own fft/ifft use `{ c with fq := 0 }`)")
    comments += [f"guard (source raises otherwise): {g}" for g in iinfo["guards"] + tr.guards]
    comments += [f"ASSUMED (not checked by the source, needed for the broadcasts below): {a} = {b}" for a, b in assumed]
    comments += [f"note: {t}" for t in dict.fromkeys(tr.notes)]
    binders = (["(C : Nat)"] if hasC else []) + [binder(k, p) for p, k in up] + [f"({n} : MC K)" for n, _ in arrays]
    need_im = tr.need_im
    self.add_def(defname, emit(defname, comments, need_im, binders, tr.lines))
    return {"name": defname, "params": up, "arrays": arrays, "udim": arrays[0][1], "ret": ret,
            "need_im": need_im, "guards": iinfo["guards"] + tr.guards}


def class_call(self, cls):
    if cls.call_info is not None:
        if cls.call_info == "busy":
            raise TranslateError(f"{cls.name}.__call__: recursive call")
        return cls.call_info
    m = cls.own("__call__")
    if m is None:
        raise TranslateError(f"{cls.name} has no own __call__")
    cls.call_info = "busy"
    cls.call_info = self.translate_function(cls, m, f"{cls.name}_call", f"{cls.name}.__call__")
    return cls.call_info


def method_def(self, cls, mname):
    owner, m = cls.find(mname)
    if m is None:
        raise TranslateError(f"{cls.name}: unknown method self.{mname}")
    if owner is not cls:
        raise TranslateError(f"{cls.name}: call of the inherited method self.{mname} is not supported")
    if mname in cls.method_info:
        if cls.method_info[mname] == "busy":
            raise TranslateError(f"{cls.name}.{mname}: recursive call")
        return cls.method_info[mname]
    cls.method_info[mname] = "busy"
    cls.method_info[mname] = self.translate_function(cls, m, f"{cls.name}_{mname}", f"{cls.name}.{mname}")
    return cls.method_info[mname]


def helper_def(self, caller, fdef, shapes, dom):
    key = (caller.modrel, fdef.name, tuple(shapes), dom)
    if key in self.helper_memo:
        return self.helper_memo[key]
    self.hashes[f"{caller.modrel}::{fdef.name}"] = T.src_hash(fdef, caller.modsrc)
    base = f"{fdef.name.lstrip('_')}_{dom}"
    name, k = base, 1
    while any(n == name for n, _ in self.defs):
        k += 1
        name = f"{base}_{k}"
    tr = ArrTr(self, None, fdef.name, caller.modtree, caller.modsrc, caller.modrel, cfg=caller.cfg, eqs=caller.eqs)
    binders = []
    for a, sh in zip(fdef.args.args, shapes):
        ln = tr.fresh(a.arg)
        tr.env[a.arg] = tr.named(ln, [sh], dom)
        binders.append(f"({ln} : MC K)")
    ret = tr.block(fdef.body)
    comments = [f"{fdef.name}  (exponax/{caller.modrel}) on {'spectra' if dom == 'M' else 'grid fields'} with leading "
                f"extents ({', '.join(shapes)});  result {ret_text(ret)}"]
    comments += [f"note: {t}" for t in dict.fromkeys(tr.notes)]
    self.add_def(name, emit(name, comments, tr.need_im, binders, tr.lines))
    info = {"name": name, "ret": ret, "notes": list(dict.fromkeys(tr.notes))}
    self.helper_memo[key] = info
    return info


World.class_init = class_init
World.translate_function = translate_function
World.class_call = class_call
World.method_def = method_def
World.helper_def = helper_def


HEADER = """/- GENERATED by harness/translate_nonlin.py from the classes deriving from BaseNonlinearFun under exponax/ — do not edit.
   source span hashes: see Generated/hashes_nonlin.json -/
import ExponaxModel.Model.Ops
import ExponaxModel.Model.Layout
import ExponaxModel.Model.Transform
import ExponaxModel.Model.Nonlin
import ExponaxModel.Generated.Steppers
set_option linter.unusedVariables false
namespace Exponax.Gen.NonlinFuns
open Exponax.Layout Exponax.Transform Exponax.Nonlin

section
variable {K : Type} [Add K] [Sub K] [Mul K] [Div K] [Neg K] [Zero K] [One K] [NatCast K] [IntCast K]
  [HasExp K] [HasI K] [HasPi K] [HasRe K] [HasIsZero K]

"""


def translate_nonlinfuns(out_hashes):
    w = World(out_hashes)
    # the primitives `Nonlin.nfft` / `Nonlin.nifft` / `Nonlin.mask` of all other definitions are the methods of the
    # base class; they are regenerated too (from jnp.fft.rfftn / irfftn = Transform.rfftnM / irfftnM and the mask)
    for meth in ("fft", "ifft", "dealias"):
        m = w.base.own(meth)
        if m is None:
            raise TranslateError(f"{BASE}.{meth} not found")
        w.translate_function(w.base, m, f"{BASE}_{meth}", f"{BASE}.{meth}")
    inherited = []
    for name in sorted(w.classes):
        ci = w.classes[name]
        if ci.own("__call__") is None:
            oc, _ = ci.find("__call__")
            if oc is None:
                raise TranslateError(f"{name}: no __call__ in the class chain")
            w.class_init(ci)
            inherited.append((name, oc.name))
            continue
        w.class_call(ci)
    q = lambda x: '"' + x + '"'
    gen = sorted(n for n in w.classes if w.classes[n].own("__call__") is not None)
    tail = ("end\n\n/-- the classes deriving from `BaseNonlinearFun` with their own `__call__` (sorted); "
            "`Proofs/NonlinFunsEq.lean` pins this list,\n    so a new class without a theorem breaks the build -/\n"
            "def generated_classes : List String :=\n  [" + ", ".join(q(n) for n in gen) + "]\n\n"
            "/-- (class, class whose `__call__` it inherits) -/\n"
            "def inherited_classes : List (String × String) :=\n  ["
            + ", ".join(f"({q(a)}, {q(b)})" for a, b in inherited) + "]\n\n"
            "/-- every generated definition, in dependency order -/\n"
            "def generated_defs : List String :=\n  [" + ",\n   ".join(q(n) for n, _ in w.defs) + "]\n")
    return HEADER + "\n".join(t for _, t in w.defs) + "\n" + tail + f"\nend Exponax.Gen.{NS}\n"


TARGETS = {
    NS: translate_nonlinfuns,
}


def run(targets=None):
    os.makedirs(T.GEN_DIR, exist_ok=True)
    res, hashes = {}, {}
    for name, fn in TARGETS.items():
        if targets and name not in targets:
            continue
        path = os.path.join(T.GEN_DIR, name + ".lean")
        try:
            text = fn(hashes)
            changed = T.write_if_changed(path, text)
            res[name] = {"ok": True, "error": None, "changed": changed}
        except (TranslateError, SyntaxError, FileNotFoundError) as e:  # broken obligation
            # a stale generated file must not keep the proofs green
            T.write_if_changed(path, f"/- GENERATION FAILED: {type(e).__name__}: {e} -/\n#exit\n")
            res[name] = {"ok": False, "error": f"{type(e).__name__}: {e}", "changed": True}
    T.write_if_changed(os.path.join(T.GEN_DIR, "hashes_nonlin.json"), json.dumps(hashes, indent=1, sort_keys=True) + "\n")
    return res, hashes


if __name__ == "__main__":
    r, h = run(sys.argv[1:] or None)
    print(json.dumps(r, indent=1))
    sys.exit(0 if all(v["ok"] for v in r.values()) else 3)
