#!/venv/bin/python
"""
Check protocol (DESIGN §3.4):  run_check.py <Cxx> --tier quick|thorough

 1 translate      regenerate lean/ExponaxModel/Generated from /repo's working tree
 2 build          lake build driver + ExponaxModel.Properties.<Cxx>   (proof obligations)
 3 audit          forbidden-token grep + `#print axioms` of every property theorem
 4 correspondence model (driver) vs implementation on seeded / enumerated inputs
 5 oracle         property-level probes on the real code: a small fixed set on every quick run
                  (this is where known findings are re-observed), the full search when 1-4 broke
                  and always in the thorough tier
 5b history       the same fixed probe set once more, in a fresh child process AFTER a "previous life" of that
                  process (harness/history.py: the public API used with non-default options on the same grids) —
                  module-level memos, in-place updates of cached arrays and other hidden state show only there
 6 verdict        exit 0 / "VIOLATION property=<id> replay=<path>[ no-failing-input-found]" exit 1
"""
from __future__ import annotations

import argparse
import contextlib
import importlib
import json
import os
import sys
import time
import traceback

HERE = os.path.dirname(os.path.abspath(__file__))
sys.path.insert(0, HERE)
os.environ.setdefault("JAX_PLATFORMS", "cpu")
os.environ.setdefault("XLA_FLAGS", "--xla_force_host_platform_device_count=1")

import common as C  # noqa: E402


def main():
    ap = argparse.ArgumentParser()
    ap.add_argument("pid")
    ap.add_argument("--tier", default=os.environ.get("VERIF_TIER", "quick"), choices=["quick", "thorough"])
    args = ap.parse_args()
    pid = args.pid
    ctx = C.Ctx(pid, args.tier)
    mod = importlib.import_module(f"props.{pid.lower()}")

    broken = []          # (kind, detail) — broken obligations / correspondence
    obligations = 0
    discharged = 0
    thms = []
    axioms = {}
    trans_hashes = {}

    # 1-3 under the build lock (translator writes into the lake project)
    with C.Lock():
        try:
            tres, trans_hashes = C.translate()
        except Exception as e:  # translator crashed: broken obligation
            tres = {"translator": {"ok": False, "error": f"{type(e).__name__}: {e}"}}
        for name, r in tres.items():
            if not r["ok"]:
                broken.append(("translate", f"Generated/{name}.lean: {r['error']}"))
        targets = ["driver"] + [m for _, m in C.property_modules(pid)] + list(getattr(mod, "EXTRA_TARGETS", []))
        ok, out = C.lake_build(targets)
        driver_ok = True
        if not ok:
            # find out which part fails: the driver (model + generated code) or the proofs
            okd, outd = C.lake_build(["driver"])
            driver_ok = okd
            failing = [l for l in out.splitlines() if l.startswith("error") or "✖" in l][:12]
            broken.append(("build", "lake build failed: " + " | ".join(failing)))
        thms, examples = C.property_theorems(pid)
        obligations = len(thms) + examples
        if ok:
            hits = C.grep_forbidden(C.lean_sources_for(pid))
            if hits:
                broken.append(("audit", "forbidden tokens: " + "; ".join(hits[:5])))
            aok, axioms = C.audit_axioms(pid, thms)
            if not aok:
                broken.append(("audit", "axiom audit failed: " + json.dumps(axioms.get("_error", {}))[:600]))
            if not hits and aok:
                discharged = obligations
    if ctx.tier == "thorough" and not broken:
        rc, out = C.run(["lake", "env", "leanchecker"] + [m for _, m in C.property_modules(pid)], cwd=C.LEAN_DIR, timeout=3000)
        ctx.notes.append(f"leanchecker rc={rc}")
        if rc != 0:
            broken.append(("audit", "leanchecker rejected the compiled module: " + out[-400:]))
            discharged = 0

    # 5b (started here, collected after 5): the history pass runs beside the correspondence
    hist_proc = None
    if driver_ok and os.environ.get("VERIF_NO_HISTORY") != "1":
        import subprocess
        hist_proc = subprocess.Popen([sys.executable, os.path.join(HERE, "history.py"), pid, ctx.tier, str(ctx.seed)],
                                     stdout=subprocess.PIPE, stderr=subprocess.DEVNULL, text=True, cwd=C.VERIF)

    # 4 correspondence
    if driver_ok:
        try:
            ctx.driver = C.Driver()
            import props.steppers as _S
            _S.DRIVER = ctx.driver
            _S._EFF_CACHE.clear()
            with contextlib.redirect_stdout(sys.stderr):   # the package prints warnings on stdout
                mod.correspondence(ctx)
        except C.DriverError as e:
            broken.append(("correspondence", f"driver error: {e}"))
        except Exception as e:
            broken.append(("correspondence", f"harness exception {type(e).__name__}: {e}\n" + traceback.format_exc()[-1200:]))
        finally:
            if ctx.driver is not None:
                ctx.driver.close()
        for m in ctx.mismatches:
            broken.append(("correspondence", f"{m['what']}: {json.dumps(m['detail'], default=str)[:500]}"))
    else:
        broken.append(("correspondence", "driver does not build; correspondence not run"))

    # 5 oracle on the real code
    failures = []
    try:
        with contextlib.redirect_stdout(sys.stderr):
            failures = mod.oracle(ctx, deep=bool(broken) or ctx.tier == "thorough" or os.environ.get("VERIF_FORCE_DEEP") == "1")
    except Exception as e:
        broken.append(("oracle", f"oracle exception {type(e).__name__}: {e}\n" + traceback.format_exc()[-1200:]))

    # 5b history pass: collect
    history_info = {"ran": 0}
    if hist_proc is not None:
        try:
            hout, _ = hist_proc.communicate(timeout=1500 if ctx.tier == "quick" else 3000)
            line = [l for l in hout.splitlines() if l.startswith("HISTORY-RESULT ")]
            if line:
                hres = json.loads(line[-1][len("HISTORY-RESULT "):])
                history_info = {"ran": hres.get("ran", 0), "disturbed": hres.get("disturbed", 0),
                                "failures": [f.get("key") for f in hres.get("failures", [])], "error": hres.get("error")}
                have = {f["key"] for f in failures}
                for f in hres.get("failures", []):
                    if f.get("key") in have:
                        continue
                    f["history"] = ctx.seed
                    f["what"] = "after a previous life of the process (history pass, harness/history.py): " + str(f.get("what"))
                    failures.append(f)
                if hres.get("error"):
                    ctx.notes.append("history pass: oracle exception " + str(hres["error"])[:300])
            else:
                ctx.notes.append(f"history pass produced no result (rc={hist_proc.returncode})")
        except Exception as e:  # noqa: BLE001  (timeout or unreadable output: recorded, never an alarm by itself)
            with contextlib.suppress(Exception):
                hist_proc.kill()
            ctx.notes.append(f"history pass not completed: {type(e).__name__}")

    # 6 verdict
    known = C.load_known_findings()
    known_keys = {f["key"]: f for f in known.get("findings", []) if f.get("property") == pid}
    violations = []
    for f in failures:
        if f["key"] in known_keys:
            print(f"KNOWN-FINDING: property={pid} {known_keys[f['key']]['what']}")
        else:
            violations.append(f)

    exit_code = 0
    for f in violations:
        path = C.write_replay(pid, {"property": pid, "kind": "failing-input", "key": f["key"], "what": f["what"],
                                    "probe": f.get("probe"), "args": f.get("args"), "observed": f.get("observed"),
                                    "history": f.get("history"),
                                    "broken_obligations": [f"{k}: {d}" for k, d in broken][:10]})
        print(f"VIOLATION property={pid} replay={os.path.relpath(path, C.VERIF)}")
        exit_code = 1
    if broken and not violations:
        path = C.write_replay(pid, {"property": pid, "kind": "no-failing-input-found",
                                    "no_longer_checks": [f"{k}: {d}" for k, d in broken][:20],
                                    "theorems": thms})
        print(f"VIOLATION property={pid} replay={os.path.relpath(path, C.VERIF)} no-failing-input-found")
        exit_code = 1

    extra = {
        "theorems": thms,
        "axioms": {k: v for k, v in axioms.items() if not k.startswith("_")},
        "translator_span_hashes": trans_hashes,
        "broken_obligations": [f"{k}: {d}"[:300] for k, d in broken],
        "oracle_failures": [f["key"] for f in failures],
        "history_pass": history_info,
        "driver_requests": ctx.driver.requests if ctx.driver else 0,
        "notes": ctx.notes,
    }
    if ctx.driver and ctx.driver.log:
        for l in ctx.driver.log:
            ctx.sample({"driver_line": l})
    checker = (f"cd lean && lake build driver ExponaxModel.Properties.{pid} && lake env lean <#print axioms of "
               f"{len(thms)} theorems>" + (" && lake env leanchecker" if ctx.tier == "thorough" else ""))
    C.write_evidence(ctx, max(obligations, 1), discharged, checker, extra_cov=extra,
                     violations=len(violations) + (1 if broken and not violations else 0))
    dt = time.time() - ctx.t0
    print(f"[{pid}] tier={ctx.tier} seed={ctx.seed} theorems={len(thms)} discharged={discharged}/{obligations} "
          f"evaluations={ctx.evaluations} cells={len(ctx.cells)} broken={len(broken)} "
          f"oracle_failures={len(failures)} wall={dt:.1f}s")
    sys.exit(exit_code)


if __name__ == "__main__":
    main()
