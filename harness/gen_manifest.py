#!/usr/bin/env python3
"""writes /verif/MANIFEST.json from the table below (kept valid at all times)"""
import json
import os

VERIF = os.path.dirname(os.path.dirname(os.path.abspath(__file__)))

NOTE_COMMON = ("Trusted: Lean 4.33 kernel + Mathlib v4.33 (axioms propext, Classical.choice, Quot.sound only; audited each run), "
               "the translators harness/translate*.py (Python ast -> Lean), the correspondence harness/driver I/O. Modelled not verified: IEEE-754 rounding, jnp.fft "
               "(as DFT sums), JAX tracing/jit/vmap/AD, jax.random. Tiers: quick = translate + lake build + axiom audit + correspondence + a fixed small set of "
               "property-level probes (the full failing-input search only after a break); thorough = the same with larger sweeps, leanchecker on "
               "the compiled property modules, and the full property-level search on every run. HISTORY PASS (every run, both tiers): the fixed "
               "probe set is run once more in a fresh child process after a seeded 'previous life' of that process (harness/history.py: the public API "
               "used with non-default indexing, contour parameters, domain extents, resolutions, orders and wrappers of wrappers on the same grids), "
               "so hidden state (module-level memos keyed on too little, in-place updates of cached arrays) is exercised; a failure found there is "
               "replayed with the same previous life in front of the probe.")

# additions of the third build session, appended to the claim texts
ADDENDA = {
    "C02": " GLUE (Properties/C02_base.lean, Generated/BaseStepperGen.lean regenerated from exponax/_base_stepper.py on every run by "
           "harness/translate_base.py): a stepper constructed with order = p <= 4 evaluates exactly the ETDRK-p update assembled from its own "
           "linear operator, its own nonlinear function and the USER's dt, num_circle_points, circle_radius (order dispatch bound through each "
           "ETDRK constructor's real signature, defaults included); order 0 is the entrywise propagation by exp(dt*lambda) whatever the nonlinear "
           "function and contour are; every other order is refused, in agreement with the regenerated constructor guard; BaseStepper.step is that "
           "update between the model transforms of the configured (D, N). Correspondence: the translator's reading against the live objects "
           "(integrator class per order 0..6, copied attributes, dx, stored ETDRK attributes = those of a directly built integrator with the "
           "user's (dt, M, r)).",
    "C13": " The assembly `Interface.baseStep` that all step-level equivalences are stated about IS what the regenerated "
           "BaseStepper.__init__ + step_fourier evaluate (Properties/C13_base.lean); both builders receive the derivative operator of the "
           "user's (D, L, N). LINEAR CLASSES (Properties/C13_linear.lean, 17 theorems on the regenerated operators and wiring): Advection, "
           "Diffusion, AdvectionDiffusion, Dispersion (default flag; both flags in 1-D), HyperDiffusion (default flag; both in 1-D) step exactly "
           "like GeneralLinearStepper with [0,-v], [0,0,nu], [0,-v,nu], [0,0,0,xi], [0,0,0,0,-mu] (scalar or uniform-vector / scalar-matrix "
           "coefficients), NavierStokesVorticity like GeneralVorticityConvectionStepper with [drag/D, 0, nu]; proved NON-equivalences: the mixing "
           "flags in D=2, anisotropic advection has no generic equivalent, the naive zeroth coefficient [drag,0,nu] differs in D=2 (the generic "
           "a0 enters as D*a0, as for Fisher-KPP).",
    "C16": " mean_metric (regenerated from metrics/_utils.py): the arithmetic mean over the batch of the per-member metric, the metric itself "
           "for one member or equal members (Properties/C16_mean.lean); probe on the implementation with six metrics and keyword arguments.",
    "C18": " build_ic_set (regenerated from _utils.py): a deterministic function of the key with num_samples members, member i = the generator "
           "at the second half of the split of the key carried after i samples, prefix-stable in num_samples (Properties/C18_icset.lean); "
           "bit-exact probe against the key-threading loop on the implementation.",
    "C11": " NYQUIST-FREE STATES ON EVERY GRID (Properties/C11_nyquist_free.lean): for every symbol with Lambda(-k) = conj Lambda(k) and zero "
           "real part (advection, dispersion, mixed dispersion instantiated), every real Nyquist-free state, every D >= 1, every N > 0 (even "
           "grids included) and every real dt, one step and every rollout preserve the 2-norm exactly: at a self-conjugate stored mode either "
           "all wavenumber components are negated (Hermitian pair) or a Nyquist component exists (coefficient zero).",
    "C14": " NYQUIST-FREE CLAUSE (Properties/C14_nyquist_free.lean): invariant version of the repeated-stepper theorem (a Fourier step that maps "
           "realisable spectra satisfying P to realisable spectra satisfying P gives repeated stepper = physical loop on states satisfying P); "
           "instance: every diagonal step with g(-k) = conj g(k) — odd-order symbols included — on ANY grid, for every real Nyquist-free state and "
           "every n; ETD-type steps whose nonlinear part is masked at the Nyquist modes; odd grids are the special case 'every state is "
           "Nyquist-free'.",
    "C20": " BaseStepper.__call__ as a whole (regenerated: guard, then step): every shape but (C,)+(N,)*D is refused, the configured shape is "
           "stepped; unsupported orders are refused by the constructor (Properties/C20_base.lean).",
}

CLAIMS = {
    "C02": {
        "text": "Lean theorems over C about the definitions regenerated from exponax/etdrk/*.py on every run: every closed form under "
                "the contour integral equals its Cox-Matthews phi-combination, every stored coefficient is dt x the M-point contour "
                "mean at z=L*dt, the contour rule is exact on degree<M polynomials and its nodes avoid the singularity, the stage "
                "formulas equal the Cox-Matthews schemes for any nonlinear map, constant/zero nonlinearity are integrated exactly; "
                "ACCURACY OF THE CONTOUR RULE (Properties/C02_accuracy.lean): aliasing identity for power series, Cauchy-estimate "
                "error bound S q^M/(1-q^M), entire phi functions (limit values, integral representations, differentiable), and for "
                "all fourteen stored coefficients |coef - dt*phi-combination(z)| <= |dt| c e^{max(0,z+R)} (r/R)^M/(1-(r/R)^M) for every "
                "real z (zero, tiny and stiff alike), even M, r<R; with the code's defaults M=16, r=1 every coefficient is within "
                "5e-8*|dt| of the exact Cox-Matthews value for every z<=0. For COMPLEX z=lambda dt (advection, dispersion, damped waves): within "
                "1.7e-12*|dt| on the closed left half-plane and 8.3e-4*|dt| for Re z<=20, if and only if z is none of the sixteen points "
                "-zeta_j (node on the removable singularity: closed form 0/0); real and purely imaginary symbols never are. Correspondence: stored arrays and step_fourier vs the "
                "compiled model over a dense z cover. ORDER (Properties/C02_order.lean): on the linear test family N(u)=mu*u, for every "
                "lambda, mu in C (lambda=0 and tiny lambda*dt included), one regenerated ETDRKp step is multiplication by an explicit "
                "R_p(lambda dt, mu dt), |R_p - e^{(lambda+mu)t}| <= C_loc t^{p+1} and n steps with n dt <= T are within "
                "C_loc T exp((|lambda+mu| + C_loc T^p) T) dt^p |u| of the exact solution (explicit C_loc), p = 1..4; the order is "
                "exactly p; a wrong weight (relative error eps in one coefficient, or the sign typo -4+z for -4-z in the ETDRK4 "
                "weight) provably destroys it; ETDRK1 and ETDRK2 with ANY globally Lipschitz nonlinear N on C^n with diagonal L "
                "converge with order 1 resp. 2 (ETDRK2: N(u(t)) with a Lipschitz derivative along the solution) with explicit "
                "constants depending on the spectrum only through max(0, sup Re lambda) (stiffness-uniform); with coefficients "
                "perturbed by delta*dt the linear-test bounds hold up to a floor C''*delta, hence for the STORED contour "
                "coefficients (regenerated E?_coef_i dt lambda 16 1, real lambda<=0, delta=5e-8), p = 1..4. ETDRK3 and ETDRK4 with genuinely "
                "nonlinear N (systems with diagonal L): classical order 3 resp. 4, local error C h^{p+1} and global error C dt^p with "
                "explicit constants (depending on sup|lambda|), under a Taylor hypothesis on N(u(t)) and a linearisation of N along the "
                "solution. NOT proved: stiffness-uniform constants for orders 3, 4 (the stiff order is lower in general) and the nonlinear "
                "results for stored instead of exact coefficients - measured by the oracle against an independent DOP853 reference.",
        "technique": "Lean 4 proof over translated ETDRK definitions + model/implementation correspondence",
        "design_ref": "DESIGN.md §5 C02",
    },
    "C13": {
        "text": "Lean theorems over any field about the conversion functions regenerated from stepper/generic/_utils.py on "
                "every run (documented formulas alpha_j=a_j*dt/L^j, gamma_j=alpha_j*N^j*2^(j-1)*D, convection/gradient-norm/"
                "polynomial scales; all normalize/denormalize and reduce/extract pairs are mutual inverses), about the "
                "regenerated ETDRK code (scaling covariance step(dt,lambda,N)=step(1,dt*lambda,dt*N): only the non-dimensional "
                "groups matter) and about the linear symbols regenerated from every class's _build_linear_operator: the six "
                "General* classes share one symbol sum_j a_j sum_d (i k_d)^j, the Normalized/Difficulty classes inherit it, "
                "Burgers / KS equal their generic equivalents; and about the WIRING regenerated from every class's __init__ / "
                "_build_nonlinear_fun (37 classes, harness/translate_wiring.py): the difficulty and normalized interfaces hand their "
                "parent exactly the documented conversions and every option unchanged, and specific / general / difficulty steppers "
                "instantiate the same documented nonlinear term with the user's flags. ASSEMBLED (Properties/C13_assembly.lean): for the convection, gradient-norm, general-nonlinear, polynomial and linear families the ETDRK-p step (p=0..4, whole spectra, regenerated coefficients/operators/wiring) of the physical stepper equals that of the normalized stepper on (alpha,beta) and of the difficulty stepper on (gamma,delta); two configurations with equal groups have equal steps (real domain extent needed for the nonlinear laws, counterexample otherwise). Step-level specific = generic on the regenerated operators and wiring: Burgers, KdV (default flags, or D=1), both KS forms and Fisher-KPP (generic zeroth coefficient r/D) equal their generic equivalents. Correspondence: conversions; every member of the specific/generic/"
                "normalized/difficulty families vs the one model evaluated on the documented equivalent, EVERY combination of the "
                "boolean options (conservative, single_channel, mixing flags); the regenerated symbol of every stepper class vs the "
                "array the class builds. Oracle: specific-vs-generic pairs of the overview.",
        "technique": "Lean 4 proof over translated conversion/ETDRK definitions + model/implementation correspondence",
        "design_ref": "DESIGN.md §5 C13",
    },
    "C14": {
        "text": "Lean theorems by induction, for any state/aux type and every n>=0, about Loops.* (hand-written mirror of "
                "exponax/_utils.py: lax.scan as a fold): entry i of rollout is the (i+1)-fold application (shifted with the "
                "initial state prepended), repeat = last entry = f^n, step counts add, aux inputs are consumed in order / held "
                "constant, windows = every contiguous slice in order with rejection iff too long, RepeatedStepper = n inner "
                "steps with dt*n. Variable aux with include_init (entry 0 the initial state, entry i+1 after consuming aux 0..i) and the regenerated aux rollout (wrong-length aux rejected). RepeatedStepper against the physical loop (Properties/C14_physical.lean, general D, N, between the model transforms): a half spectrum is realisable iff it is the spectrum of a real state iff rfftn(irfftn .) fixes it; if the Fourier step preserves realisable spectra, irfftn(step^n(rfftn u)) = (irfftn.step.rfftn)^n(u) for every n; linear steps qualify iff the symbol is Hermitian on the self-conjugate columns (every g(-k)=conj g(k) on odd grids, even-order symbols on every grid), ETD-type steps with a real nonlinearity too — instantiated on every REGENERATED ETDRK-p step (p=0..4) with the regenerated exp/half-step/contour coefficients of a Hermitian symbol and a pseudo-spectral term: the repeated stepper is the physical loop for every order, n and real state; counterexample at the Nyquist bin of an even grid. Correspondence: exact integer bookkeeping steppers for every (n, flags), pytree leaves, "
                "every (T, window) pair; RepeatedStepper numerically vs n model steps.",
        "technique": "Lean 4 proof (induction over fold model) + exact model/implementation correspondence",
        "design_ref": "DESIGN.md §5 C14",
    },
    "C20": {
        "text": "Lean theorems about the decision logic (Layout.acceptsShape, Guards.*): accepted iff shape = (C, N,..,N) with D "
                "spatial axes, hence wrong channel count / extra batch axis / missing axis / any unequal axis rejected and "
                "accepted shapes returned unchanged; dimension, order-parity, generator-option and metric-mode guards equal the "
                "documented tables; the guards themselves are REGENERATED from every `if ...: raise` of the package on every run "
                "(56 guarded functions, 77 raise sites, pinned) and each regenerated acceptance predicate is proved equal to the "
                "documented one: BaseStepper / RepeatedStepper / ForcedStepper (state and forcing) accept iff the shape is exactly "
                "(C, N,..,N), Poisson iff the spatial part is, the seven dimension-restricted constructors iff D is the documented "
                "one, operator builders by order parity, generators by the documented option table. Correspondence: "
                "accept/reject/exception class of every exported stepper class (enumerated from the package exports), "
                "RepeatedStepper, ForcedStepper (state and forcing), Poisson, operators, generators (incl. the offset-range "
                "generators), metrics, nonlinear funs vs the model, exact. Vector coefficients (Properties/C20_coefficients.lean): the regenerated constructors of Advection/AdvectionDiffusion/Dispersion store a vector unchanged and expand only scalars; a stored vector of length n passes the regenerated velocity-shape guard iff n = D (oracle: lengths 1..4 in D = 1..3). (Repaired defect D9: ForcedStepper skipped the check.)",
        "technique": "Lean 4 proof of decision logic over guards translated from the source + exhaustive exact accept/reject correspondence over package exports",
        "design_ref": "DESIGN.md §5 C20",
    },
    "C01": {
        "text": "Lean theorems (general D): THE PROPERTY assembled — for every real state that is a superposition of modes strictly "
                "below Nyquist (and every real band-limited grid state is one), the regenerated ETDRK0 step between the model "
                "transforms returns the superposition of the analytic solutions a e^{t Re lambda} cos(k.x + phi + t Im lambda) of the "
                "documented operator, whole arrays, all D>=1, N>=1, every real t (no CFL limit, negative t); n steps of dt = one step "
                "of n*dt and -dt undoes dt on these states, with proved counterexamples showing the Nyquist-free hypothesis is "
                "necessary; plane waves are eigenfunctions with eigenvalue polySymbol; the symbols REGENERATED from each linear "
                "class's _build_linear_operator source (Advection, Diffusion, AdvectionDiffusion, Dispersion, HyperDiffusion both "
                "flags, general linear family, Wave) equal the documented operators, with a coverage theorem over all 26 classes "
                "that define an operator and the 11 that inherit one; closed forms of the documented symbols; wave stepper per mode: "
                "exact rotation, DC drift, ODE, group law; rfftn/irfftn round trip all D, N. the Wave stepper's constructor norm, transforms and step_fourier REGENERATED from "
                "stepper/_wave.py equal the per-mode model. Wave stepper on WHOLE STATES: the regenerated fft/Wave_step_fourier/ifft pipeline maps every real band-limited pair (h,v) to the superposition of the analytic d'Alembert solutions (all D, N, real dt, L>0, c!=0), with group law and inverse. Correspondence: every linear class's "
                "operator array vs polySymbol of the documented operator AND vs the regenerated symbol evaluated by the driver, "
                "whole step vs the model, dt in {1e-3,1,1e3,-0.3}; Wave per mode.",
        "technique": "Lean 4 proof (symbol algebra, exact ODE solution per mode, DFT round trip) + model/implementation correspondence",
        "design_ref": "DESIGN.md §5 C01",
    },
    "C04": {
        "text": "Lean theorems for all N: fftfreq layout (congruence, band, injective, surjective, Nyquist), low-pass / sphere / "
                "oddball masks select exactly the documented modes, mode slices partition the stored indices by the signs of the "
                "leading wavenumbers (all D>=1, N>=2), scaling arrays in closed form N^D/2^#halved, grid left-inclusive / "
                "right-exclusive with spacing L/N, flat<->multi index bijection; DFT: irfftn(rfftn u)=u for every real u, all D>=1, "
                "N>=1; single-mode read-off a cos(2 pi k x/L+phi) (1-D, incl. DC/Nyquist); Parseval in the half layout. "
                "exponax.fft/ifft REGENERATED from _spectral.py (axis selection, inference of omitted "
                "arguments) are the model transforms per channel. Composed extraction: the regenerated get_fourier_coefficients of a sampled mode a cos(k.x+phi) is a e^{i phi} 2^{n-1} at the stored index of k (n = non-zero components; exactly a e^{i phi} axis-aligned) and 0 elsewhere. indexing='xy' for every D>=2: wavenumbers and grid swap their first two components, scaling arrays do not depend on the indexing, the single-mode read-off holds on the xy grid; n-D read-off at Nyquist wavenumbers (stored representative, self-conjugate modes carry a cos(phi)). Correspondence: exhaustive exact comparison of wavenumbers, scalings, masks (every cutoff), slices for all N in "
                "range x D in 1..3; rfftn/irfftn (non-Hermitian input too), make_grid, wrap_bc. Oracle: every wavenumber vector of "
                "the layout as a single mode; ij/xy consistency.",
        "technique": "Lean 4 proof (integer layout + DFT theory) + exhaustive exact correspondence",
        "design_ref": "DESIGN.md §5 C04",
    },
    "C10": {
        "text": "Lean theorems at every stored mode, general D: the Leray projection output has zero spectral divergence, is "
                "idempotent, is the identity on divergence-free input, is the matrix delta - d d^T/Lap; the 3-D rotational "
                "convection term is divergence-free for every input, with and without Kolmogorov injection; every regenerated "
                "ETDRK stage formula (orders 0-4) maps divergence-free spectra to divergence-free spectra for any nonlinear map with "
                "divergence-free output, hence any rollout length. make_incompressible REGENERATED from _spectral.py is that "
                "projection between the model transforms; with indexing='xy' (Properties/C10_xy.lean, D >= 2) it is the 'ij' projection of the field with channels 0 and 1 exchanged, divergence-free in the meshgrid convention and idempotent in Fourier space, and in physical space at every mode of Hermitian weight 2 / at every mode for real fields on odd grids (also newly for 'ij'). Instantiated: every ETDRK order and rollout of the 3-D velocity stepper (N = the rotational term, with or without injection) preserves divergence-freeness. Correspondence: Leray, make_incompressible, ProjectedConvection3d, "
                "NavierStokesVelocity, KolmogorovFlowVelocity vs the model.",
        "technique": "Lean 4 proof (per-mode linear algebra + induction over ETDRK stages / rollout) + correspondence",
        "design_ref": "DESIGN.md §5 C10",
    },
    "C11": {
        "text": "Lean theorems: |exp_term dt lambda| = exp(dt Re lambda) (regenerated code), <=1 / =1 / <1 by the sign of Re lambda; "
                "Re of the documented symbols: advection and dispersion (both forms) 0, diffusion <=0 for PSD matrices, "
                "hyper-diffusion (both forms) real <=0 and <0 off the mean mode, general linear family; Parseval in the half layout "
                "(all D, N); the c2r transform is a contraction for ANY stored spectrum (Pythagoras identity), hence the whole step "
                "irfftn(E0step(exp_term dt L) rfftn u) of the regenerated code never increases the grid 2-norm of ANY real state "
                "(white noise, Nyquist content) for all D>=1, N>=1, dt>=0, Re L<=0, and neither does any state of any rollout; exact "
                "energy budget (damping + projection loss); norm preserved iff E is Hermitian-consistent or the state has no content "
                "on each self-conjugate mode (odd grids / Nyquist-free states), with a proved strict-loss example at the Nyquist mode; "
                "wave energy per mode conserved. Wave energy sum v^2 + c^2 sum |grad h|^2 conserved by the whole step on every real Nyquist-free pair and on every real state of an odd grid (counterexample with Nyquist content); positive-definite diffusivity strictly damps every non-constant mode; advection/dispersion are isometries for every real state on odd grids. Correspondence: linear steppers on white noise with dt up to 1e6 vs the model.",
        "technique": "Lean 4 proof (norm of the propagator, symbol signs, Parseval) + correspondence",
        "design_ref": "DESIGN.md §5 C11",
    },
    "C17": {
        "text": "Lean theorems on the integer form of the bins: no integer wavenumber vector lies on a bin edge (parity), a mode "
                "is in bin b>=1 iff (2b-1)^2 < 4|k|^2 < (2b+1)^2 (i.e. round(|k|)=b), bin 0 is exactly the mean mode, a mode is in "
                "at most one bin, modes outside the Nyquist sphere are in none, on-axis modes make every bin non-empty; through "
                "the model Spectrum.spectrum in every dimension: a cos(k.x+phi) shows |a| (amplitude) resp. a^2/4 (power) in the bin "
                "of |k| and 0 elsewhere; 1-D full Parseval identity for every real state and both binnings; n-D: summed power + "
                "power of the stored modes outside the Nyquist sphere = half the mean square. get_spectrum / get_fourier_coefficients REGENERATED from "
                "_spectral.py (scan over bins as a fold) equal the model read-offs. average = sum / (number of stored modes of the bin) for every D, state and bin; every bin up to N/2 is populated. Read-off INCLUDING Nyquist wavenumbers (even N): self-conjugate waves show |a cos(phi)|, other Nyquist waves |a| resp. a^2/4, Nyquist waves outside the sphere appear in no bin. Correspondence: the bin of every "
                "stored mode (exact) and full spectra (power/amplitude x sum/average x channels) vs the Spectrum model. Oracle: "
                "amplitude read-off for every wavenumber vector, Parseval with the Nyquist-sphere truncation, average = sum / count.",
        "technique": "Lean 4 proof (integer bin arithmetic + n-D DFT read-off through the spectrum model) + exact per-mode correspondence",
        "design_ref": "DESIGN.md §5 C17",
    },
    "C03": {
        "text": "Lean theorems: cutoff arithmetic for every N on the REGENERATED cut-off expression (2/3 rule: 3K<N; 1/2 rule: 4K<N; its "
                "integer part is the model band; the binary64 evaluation used by the code never exceeds the rational one and is what "
                "the model is driven with); circular convolution theorem and its alias-free form for band-limited fields, quadratic "
                "and cubic, in 1-D and in EVERY dimension (box |k_d|<=K); ifft(mask*u_hat) is the band truncation (all D), also for "
                "differentiated spectra; per-term statement 'output on every retained mode = linear (alias-free) convolution form "
                "of the documented operator on the truncated state, 0 on every dropped mode' in EVERY dimension for: polynomial "
                "(degree<=2 with 2/3, degree<=3 with 1/2), conservative and non-conservative convection (multi- and single-channel), "
                "gradient norm (both zero-mode options), the general nonlinear term, Cahn-Hilliard, Gray-Scott, "
                "Belousov-Zhabotinsky, the 2-D vorticity term and the 3-D rotational term P(u x curl u) built on the regenerated cross "
                "product — i.e. every nonlinear function of the library; zero outside the band for all terms in every dimension; "
                "regenerated cross product = documented formula. Multi-channel gradient-norm / general variants are tied by the "
                "correspondence and the 4x-oversampled oracle. "
                "Channels: polynomial / gradient-norm / general terms are channel-wise, so the statements hold per channel for any C; single-channel non-conservative convection in every D; the linear convolution of band-limited coefficient families IS the coefficient family of the pointwise product of the trigonometric polynomials in every D (sampling on N>3K resp. 4K points reads it exactly), hence on the retained modes each term is the band truncation of the spectrum of the documented CONTINUOUS operator (1/2 d(u^2), 1/2|grad u|^2, u sum d_d u, u^3, honest partial derivatives) applied to the continuous band-truncated field. Correspondence: masks exactly for a contiguous N range (all residues mod 12), every nonlinear-function class vs the "
                "model, D=1..3.",
        "technique": "Lean 4 proof (DFT convolution/aliasing theory on the model pipeline) + model/implementation correspondence",
        "design_ref": "DESIGN.md §5 C03",
    },
    "C05": {
        "text": "Lean theorems (general D): derivative symbol (i s k_d)^m; through the model routine, the order-m derivative along any "
                "axis of every Nyquist-free real state is the grid sample of its analytic derivative (all D>=1, N odd/even, m>=0); "
                "Laplace symbols of every even order and gradient-inner-product symbols of every odd order in closed form; "
                "Poisson: per mode zero mean mode / operator*solution = -rhs / guard only at the mean mode, and in physical space "
                "the solver returns for every Nyquist-free right-hand side the field with modes divided by s^2|k|^2, which the model "
                "Laplacian maps back to -f; transform round trip for all D, N. derivative and the Poisson solver "
                "(inverse operator with zero-mode guard, step) REGENERATED from _spectral.py / _poisson.py equal the model routines.  Poisson of every even order in physical space (order 4: opposite gain sign; operator applied to the solution returns -(f - mean f)), also through the regenerated Poisson_step. Correspondence: build_laplace_operator, derivative "
                "(orders 1..6, C>=1), Poisson (orders 2, 4) vs the model on arbitrary states. Oracle: analytic derivatives of "
                "Nyquist-free trigonometric polynomials, Poisson residual.",
        "technique": "Lean 4 proof (symbol algebra per mode + n-D DFT read-off of the model routines) + model/implementation correspondence",
        "design_ref": "DESIGN.md §5 C05",
    },
    "C12": {
        "text": "Lean theorems: ForcedStepper (regenerated) = inner(u + dt f), zero forcing = unforced; on the forced mode every "
                "ETDRK order updates a -> e^z a + dt phi1(z) f and from rest a_n = f (e^{n z}-1)/sigma for every n, dt (laminar "
                "solution); steady amplitude is a fixed point; at rest the 2-D vorticity model term returns exactly rfftn of "
                "-m(2pi/L)gamma cos(m 2pi x_1/L) and the 3-D velocity term rfftn of gamma sin(m 2pi x_1/L) in channel 0 and zero in "
                "channels 1, 2 (every N with 2m<N, any convection scale / dealiasing). WHOLE spectrum: the 2-D vorticity convection vanishes on every shear spectrum, so from rest every order moves only the forced mode (exact coefficients: f(e^{n sigma dt}-1)/sigma there, 0 elsewhere; stored coefficients: all four orders the same trajectory); 3-D for the two Kolmogorov modes (_partial). 3-D: the rotational term vanishes on EVERY real shear profile (f(x_1),0,0), any N, any mask, Nyquist content included. Correspondence: injected spectra, rest-start "
                "rollouts for L in {2pi,1,5}, ForcedStepper over several base steppers. Oracle: laminar closed form of the "
                "documented forcing with varied convection scale and sign, also forced at the highest resolved wavenumber (N-1)//2. The coefficient-extraction scaling array regenerated from _spectral.py is the scaling the regenerated injection uses (N*N/2 at (0,m) for every 0<2m<N). (Repaired forcing defects: known_findings.json, fixed.)",
        "technique": "Lean 4 proof (recurrence/closed form + per-mode injection) + model/implementation correspondence",
        "design_ref": "DESIGN.md §5 C12",
    },
    "C15": {
        "text": "Lean theorems through the model routines (all D>=1, all resolution pairs >=1 incl. +-1 and every parity, both oddball "
                "options): every resolution change preserves the mean of ANY real state; the Fourier interpolant reproduces every "
                "real state at its grid points and returns, for every Nyquist-free state, the ANALYTIC value sum a cos(s k.x + phi) "
                "at ANY real query point, is periodic with the domain extent for every state (periodic extension), and the "
                "Nyquist-free hypothesis is sharp (proved counterexample); mapping a state band-limited below both Nyquist "
                "wavenumbers to any finer or coarser grid samples its own interpolant there (exact up- and down-sampling); "
                "up-sampling from an odd grid is exact for every state; 1-D: there-and-back is the identity, integer refinement keeps "
                "the samples; block-copy index theorems; same resolution is the identity. map_between_resolutions and FourierInterpolator REGENERATED from _interpolation.py "
                "equal the model routines. There-and-back is the identity in EVERY dimension for real states band-limited below both Nyquist wavenumbers (every real state from an odd grid upwards). Correspondence: exact index maps for all "
                "(N_old, N_new) in range x D, map_between_resolutions and FourierInterpolator numerically. Oracle: Nyquist-free "
                "trigonometric polynomials at arbitrary query points, round trips, mean.",
        "technique": "Lean 4 proof (DFT theory of the resampling routine + slice/index arithmetic) + exact index-map and numerical correspondence",
        "design_ref": "DESIGN.md §5 C15",
    },
    "C16": {
        "text": "Lean theorems over R about the metrics model: the value is the documented quadrature, scales with L as "
                "(a^D)^q, Parseval (Fourier aggregate with 1/reconstruction-scaling weights = spatial aggregate for p=2, all D, "
                "N), channel additivity, band additivity over adjacent bands and the full band, zero iff identical / positive "
                "otherwise, symmetry, homogeneity of degree p*q, scale-freeness and symmetry of the normalized / symmetric "
                "combinations, correlation in [-1,1] and +-1 for proportional fields. Sobolev split of the regenerated H1_* functions (plain + derivative-order-1 metric; the latter is the sum over axes of the gradient components' metric); p=2 metrics of a band-limited pair are unchanged by resampling to another resolution. For a band-limited state the p=2 aggregator equals the (Mathlib) integral of u^2 over the box [0,L]^D, hence does not depend on N; multi-channel correlation lies in [-1,1] and is +-1 for proportional channels. Correspondence: every exported metric "
                "function (spatial, Fourier with bands and derivatives, correlation) vs the model. Oracle: the same laws "
                "measured on the implementation, resolution independence, Sobolev = value + gradient term.",
        "technique": "Lean 4 proof (real analysis of the quadratures + DFT Parseval) + model/implementation correspondence",
        "design_ref": "DESIGN.md §5 C16",
    },
    "C18": {
        "text": "Lean theorems over R about the deterministic post-processing (random draws are inputs): zero mean, unit std "
                "(with zero mean), unit max, clamping into [lo,hi] with both limits reached, scale factor, size preservation; "
                "truncated Fourier series: requested offset in the mean mode and zero outside the cutoff; invalid option "
                "combinations. jax.random, shapes of the drawn arrays and the function-form/sampled-form agreement are not "
                "modelled (oracle on the implementation). The remaining generators REGENERATED from ic/*.py with every random draw as an explicit input (Gaussian random field, diffused noise, discontinuities, sine waves, Gaussian blobs, multi-channel wrapper): spectrum-shaping contracts, two-valued discontinuity blocks, one_complement = 1 - blob, sampled form = function form on the regenerated grid, and the multi-channel function form equals the sampled form because both code paths route the sub-keys identically. Correspondence: normalize_ic, ClampingICGenerator, "
                "RandomTruncatedFourierSeries (draws replicated) vs the model. (Repaired defects: see known_findings.json.)",
        "technique": "Lean 4 proof (normalisation algebra) + model/implementation correspondence; PRNG external",
        "design_ref": "DESIGN.md §5 C18",
    },
    "C06": {
        "text": "PARTIAL. Lean theorems (induction, any state type, every n): repeat over a batch = batch of repeats; "
                "entry [t][b] of the rollout of the batched stepper = entry [b][t] of the batch of rollouts for every t, b, with "
                "and without the initial state (vmap o rollout = transpose(rollout o vmap)); no cross-talk between batch members; "
                "a parameter sweep (zipWith over constructor arguments) equals building each stepper separately. XLA "
                "compilation, tracers and Python-level value-dependent branching under tracing cannot be expressed in the model: "
                "they are reached by the correspondence (eager / filter_jit / vmap / vmap-jit-rollout outputs of every public "
                "stepper class against the single model evaluation) and by the oracle (leaf dtypes, traced constructor "
                "arguments, batch-order permutations). (Repaired defect: traced injection_scale, see known_findings.json.)",
        "technique": "Lean 4 proof (batch/rollout algebra by induction) + model/implementation correspondence under jit/vmap/scan; XLA external",
        "design_ref": "DESIGN.md §5 C06",
    },
    "C07": {
        "text": "PARTIAL. Lean theorems (Mathlib HasDerivAt / HasFDerivAt) about the regenerated code: every ETDRK stage formula is "
                "differentiable in the state with the chain-rule derivative (scalar and Frechet form), n-step rollouts likewise; "
                "polynomial nonlinearities are differentiable everywhere incl. u=0; every stored coefficient is differentiable in "
                "lambda AT lambda=0 and in dt (the contour formulation never evaluates the removable singularity); the whole "
                "ETDRK1/2/4 step is jointly differentiable in (dt, lambda) wherever no contour node is zero (every real lambda*dt); "
                "derivative of the linear step w.r.t. a PDE coefficient; the guarded divisions are linear in their argument for every "
                "divisor incl. 0 and the Poisson solve is linear; linear steppers: Jacobian = the step. Every model term (convection in all four variants, gradient norm, general, vorticity, rotational 3-D, Cahn-Hilliard, Gray-Scott, BZ) between the model transforms is ContDiff of every order on whole physical states with an explicit JVP (convection: -b P(sum_d u d_d v + v d_d u)); the regenerated stage formulas of orders 1-4 are differentiable with the chain-rule derivative and whole rollouts are smooth (also for the regenerated GeneralConvectionStepper wiring); a linear stepper is an R-linear map of the whole state so its Jacobian is the stepper itself; transposes (derivative, dealiasing, linear step) and the explicit reverse-mode formula of the convection term. JAX's AD engine and IEEE NaN "
                "propagation are not modelled: the correspondence compares jax.jvp / vjp of linear steppers with the model step of "
                "the tangent; the oracle checks, on the implementation, jvp vs central differences, vjp = adjoint, forward = reverse "
                "mode w.r.t. dt and every PDE coefficient for ETDRK orders 1-4, through rollouts, and finiteness + correctness at the "
                "guarded points (zero state, constant state) for every stepper class.",
        "technique": "Lean 4 proof (linearity, HasDerivAt of the propagator, guard independence) + AD-vs-model correspondence; AD engine external",
        "design_ref": "DESIGN.md §5 C07",
    },
    "C08": {
        "text": "Lean theorems: TRANSLATIONS, every D, every shift vector, every N>=1, arbitrary (white-noise) states: forward and "
                "inverse n-D shift theorem of the model transform; every nonlinear model term (convection in all four option "
                "combinations and any channel count, polynomial, any pointwise reaction incl. Gray-Scott / BZ, gradient norm, "
                "general, Cahn-Hilliard, 2-D vorticity, 3-D rotational) is translation equivariant; with Kolmogorov injection "
                "exactly for shifts by whole forcing periods along the forced axis and arbitrary shifts along the others; every "
                "regenerated ETDRK stage formula (orders 0-4, arbitrary coefficient arrays), n steps and whole rollouts commute "
                "with the n-D roll of the physical multi-channel state. REFLECTION: conjugates the spectrum of a real state; the "
                "stepper with factors E maps to the one with conj E (all D). AXIS PERMUTATION: 2-D transposition with permuted "
                "anisotropic symbols under the Nyquist-sign hypothesis, with a proved counterexample without it (the property's own "
                "caveat for odd-order terms on even grids); symbol-level permutation and 1-D embedding for every D; stage formulas "
                "under arbitrary mode relabellings. Not proved in Lean: axis permutations of the nonlinear terms and 3-D axis "
                "permutations at the transform level (correspondence of each stepper with the model + oracle on the implementation: "
                "shifts, axis swaps with permuted anisotropic coefficients, reflections, embedding, incl. the Wave stepper). AXIS PERMUTATIONS and 1-D EMBEDDING in every D: the spectrum of a permuted real state is the relabelled spectrum (every state); isotropic single-channel terms commute with axis permutations and multi-channel convection with the joint axis-and-channel permutation; ETDRK steps and rollouts of isotropic steppers commute with the permutation on real Nyquist-free states when N is odd or dealiasing is active (false for even N without dealiasing: recorded); the D-dimensional step of a 1-D state embedded along the last axis is the embedding of the 1-D step for every state. Cahn-Hilliard and pointwise reactions commute with every axis permutation; the 2-D vorticity term and step commute with omega -> -P_sigma omega under the axis swap (pseudo-scalar).",
        "technique": "Lean 4 proof (DFT shift theorem + equivariance of model terms and translated stage formulas) + correspondence",
        "design_ref": "DESIGN.md §5 C08",
    },
    "C09": {
        "text": "Lean theorems: conservation-form linear operators have symbol 0 at the mean mode hence exp_term = 1 there; zero "
                "mean-mode output of the conservative convection / Cahn-Hilliard / zero-fixed gradient-norm terms (all D, all "
                "inputs), of the non-conservative 1-D form on dealiased states and of the 2-D vorticity term for EVERY spectrum; "
                "hence n steps of every regenerated ETDRK order keep the mean; a per-mode or whole-spectrum equilibrium "
                "lambda u + N(u) = 0 is a fixed point of every regenerated stage formula with the exact phi coefficients; discrete "
                "no-work identities on dealiased states through the model pipeline: Burgers <u, N(u)> = 0 (1-D), 2-D vorticity form "
                "enstrophy <w, N(w)> = 0 and energy <psi, N(w)> = 0, 3-D rotational form <u, P(u x w)> = 0 for every velocity that "
                "is divergence-free on the retained modes (in particular after Leray projection), with the underlying triad "
                "identities for any truncated spectrum. Equilibria: transport terms vanish on constants, reaction terms map constants to constants, L(0)u+N(u)=0 at the documented equilibria of FisherKPP/AllenCahn/SwiftHohenberg/GrayScott through the regenerated wiring; with the STORED coefficients an equilibrium is exactly fixed iff the scalar defect e^z-1-z*mean(phi1) vanishes at the mean-mode symbol (always for transport equations), within |lambda dt|*5e-8 otherwise (the naive exact statement is proved false). Mean of the 3-D velocity stepper: the mean mode of the rotational term is mask(0) sum_x u_i div(u), zero exactly on divergence-free spectra, so every order and rollout keeps the mean of each channel on divergence-free states (counterexample for general spectra). Correspondence: every listed stepper vs the model on white-noise and "
                "smooth states. Oracle: mean drift, constant equilibria of the documented equations, no-work identities on "
                "band-limited states.",
        "technique": "Lean 4 proof (mean-mode algebra of translated stage formulas + model terms) + correspondence",
        "design_ref": "DESIGN.md §5 C09",
    },
    "C19": {
        "text": "PARTIAL. Lean theorems in exact arithmetic about the regenerated coefficient definitions: for real z = lambda*dt <= 0 "
                "and even M every contour node is at distance >= r sin(pi/M) from the removable singularity (z = 0, tiny and "
                "arbitrarily stiff z alike); every contour integrand and every stored ETDRK1-4 coefficient is bounded by "
                "|dt| C(r, M) uniformly in the stiffness; propagators are bounded by 1; one step is bounded by the state plus K "
                "times the nonlinear evaluations. IEEE overflow/underflow/NaN semantics and JAX dtype promotion cannot be "
                "expressed in the model: the check observes them in two subprocesses (default float32 and x64): finiteness of "
                "coefficients for |z| up to 1e15, output and leaf dtypes of every public stepper, single-vs-double agreement "
                "within a multiple of float32 epsilon, zero state. COMPLEX symbols: all fourteen coefficients bounded by |dt|(w_i+1.7e-12) for Re(lambda dt)<=0 and a bounded step for every order, exactly off the sixteen contour nodes -zeta_j (where the closed form is 0/0; real and imaginary symbols never meet them); the zero state stays zero under every unforced term and order. Correspondence: binary64 model vs implementation coefficients "
                "at stiff z.",
        "technique": "Lean 4 proof (uniform bounds on translated contour coefficients) + float32/x64 session observation; IEEE semantics external",
        "design_ref": "DESIGN.md §5 C19",
    },
}

PENDING_REASON = "check not built yet in this session (model and theorems planned in DESIGN.md §5); not claimed until its check exists"


# further additions (proof libraries written by sub-agents in the third session)
ADDENDA2 = {
    "C01": " THROUGH THE REGENERATED __call__ (Properties/C01_call.lean): BaseStepper_call of a one-channel order-0 stepper on the configured "
           "shape IS ExactLinear.linStep (any symbol array), every other shape is refused; hence one call returns the superposition of the "
           "analytic solutions for every documented polynomial operator and every real band-limited grid state; instantiated for Advection "
           "on its regenerated constructor wiring and linear operator (vector and scalar velocity: a pure translation by t*w).",
    "C03": " REACTION TERMS (Properties/C03_reaction.lean): the Cahn-Hilliard term b*Laplace(u^3) and both Gray-Scott channels "
           "(f(1-u) - u v^2, -(f+k) v + u v^2) return on the retained band the band truncation of the coefficients of the documented "
           "continuous operator applied to the continuous band-truncated fields (honest derivatives), zero outside the band, under the 1/2 "
           "rule 4K < N, every D; also read on any finer grid.",
    "C02": " STORED COEFFICIENTS, COMPLEX SYMBOLS (Properties/C02_stored_complex.lean): on the linear test family the regenerated ETDRK-p steps "
           "with the stored contour coefficients (M=16, r=1) converge with order p up to a floor 1.7e-12 for every symbol in the closed left "
           "half-plane off the sixteen contour nodes, p=1..4, and for every purely imaginary symbol (advection, dispersion) without any node "
           "hypothesis; the E3 case for real symbols surfaced.",
    "C05": " The REGENERATED Laplace and gradient-inner-product operators at the regenerated derivative-operator column of a mode equal the "
           "analytic symbols (-1)^n s^{2n} sum_d k_d^{2n} resp. i (-1)^n s^{2n+1} sum_d v_d k_d^{2n+1} (Properties/C05_generated.lean).",
    "C09": " ASSEMBLED (Properties/C09_assembled.lean): the regenerated whole step of GeneralConvectionStepper (conservative, a0 = 0), Burgers, "
           "KdV (every mixing flag, every D) and KS-conservative keeps the mean mode of every channel for every order, every contour, every n "
           "- in Fourier space and as the grid sum of the physical state.",
    "C10": " NYQUIST-FREE FIELDS ON EVERY GRID (Properties/C10_nyquist_free.lean, on the regenerated make_incompressible, 'ij' and 'xy', D >= 2, "
           "any N): the projected spectrum is Hermitian-consistent at EVERY stored mode, the result is divergence-free at every stored mode "
           "(k_last = 0 plane and Nyquist column included), idempotent as whole arrays, equals the model Leray projection at every mode, stays "
           "Nyquist-free and real; every real divergence-free field is returned unchanged (whole arrays, D >= 1, no Nyquist hypothesis).",
    "C16": " METRIC LAWS ON THE REGENERATED NAMED METRICS (Properties/C16_axioms.lean): MSE/RMSE/MAE and the n*/s* variants vanish on identical "
           "inputs, the absolute and symmetric ones are symmetric, nMSE/nMAE provably are not, MSE scales with a^2 and RMSE/MAE with |a|, the "
           "normalized and symmetric variants are scale-free, and all are positive-definite on the grid.",
    "C18": " OUTPUT SPECTRA (Properties/C18_output_spectrum.lean): rfftn of the RETURNED array of the truncated series, the diffused noise and "
           "the Gaussian random field equals the shaped spectrum handed to irfftn (whole arrays, all D, N, even grids included) - hence no "
           "content outside the cutoff box, mean = requested offset, kernel / power-law shaping of the noise spectrum - also for the regenerated "
           "generators with normalisation off.",
    "C20": " A successful call returns exactly the configured shape (Properties/C20_shape.lean).",
    "C08": " ASSEMBLED (Properties/C08_assembled.lean): the regenerated whole step (every order, every flag, stored contour coefficients) of "
           "the generic convection / gradient-norm / nonlinear / polynomial / linear steppers, Burgers, KdV (every mixing flag), KS, "
           "KS-conservative, Fisher-KPP, NS-vorticity and the five linear classes commutes with every whole-cell translation, n steps, in "
           "physical space, all D, N >= 1, any state; the Kolmogorov-forced vorticity stepper exactly with the shifts that leave the forcing "
           "invariant (N | m*s_1).",
    "C12": " Every order (Properties/C12_orders.lean): the laminar recurrences for ETDRK1-4 with arbitrary, exact and stored coefficients, and "
           "the 3-D ETDRK2 case. COMPOSED WRAPPERS (Properties/C12_composed.lean, regenerated _forced_stepper.py and "
           "_repeated_stepper.py): the forced step of a sub-stepped stepper is n inner steps of u + (dt*n)*f, equals the sub-stepped stepper "
           "for zero forcing, and the effective time step is the exact product dt*n.",
    "C14": " repeat with constant / sequenced aux is the fold (a sequence of the wrong length is refused), RepeatedStepper.dt = n*dt "
           "(Properties/C14_aux.lean, on the regenerated loops).",
}


ADDENDA3 = {
    "C06": " ON THE REGENERATED LOOPS (Properties/C06_generated.lean, vmap read as List.map / zipWith): rolling out the mapped stepper is the "
           "transpose of mapping the rollout, entry by entry and as whole arrays, with and without include_init; shapes; entry (t, b) = "
           "stepper^[t(+1)] batch[b]; member b depends only on batch[b] (and on its own aux / its own column of a time-major aux sequence); "
           "repeat of the mapped stepper = map of repeat; constant-aux and aux-sequence variants with the aux axes exchanged.",
    "C07": " ON THE ASSEMBLED REGENERATED STEPS (Properties/C07_assembled.lean): the whole step of GeneralLinearStepper, Advection, Diffusion, "
           "AdvectionDiffusion, Dispersion, HyperDiffusion (all constructor arguments) and every n-fold rollout is a C-linear map of the whole "
           "spectrum and its own linearisation (step(u+h) - step(u) = step(h)), entrywise exp(dt*symbol) (diagonal Jacobian); with the "
           "regenerated zero nonlinear function this holds for every order; order 0 is linear for any nonlinear function.",
    "C19": " ON THE ASSEMBLED REGENERATED STEPS (Properties/C19_assembled.lean): the zero state is fixed by every order whenever N(0) = 0, for "
           "every symbol and contour, hence by thirteen regenerated stepper classes for all constructor arguments; polynomial family: zero "
           "is fixed when c0 = 0 (converse only partial); at lambda = 0 exactly exp_term = half_exp_term = 1, no closed form is evaluated at "
           "zero, and all fourteen stored coefficients are within 1.7e-12*|dt| of dt*phi_k(0). Ten more classes (NS vorticity, Fisher-KPP, the "
           "Normalized / Difficulty wrappers) in Properties/C19_assembled2.lean.",
}


def main():
    props = [json.loads(l) for l in open(os.path.join(VERIF, "properties.jsonl"))]
    checks = []
    na = []
    for p in props:
        pid = p["id"]
        if pid in CLAIMS:
            c = CLAIMS[pid]
            checks.append({
                "property_id": pid,
                "quick_cmd": f"/venv/bin/python harness/run_check.py {pid} --tier quick",
                "thorough_cmd": f"/venv/bin/python harness/run_check.py {pid} --tier thorough",
                "evidence_file": f"evidence/{pid}.json",
                "replay_cmd_template": "/venv/bin/python harness/replay.py {path}",
                "engine": "lean-proof+correspondence",
                "level_claimed": {"category": "proof", "text": c["text"] + ADDENDA.get(pid, "") + ADDENDA2.get(pid, "") + ADDENDA3.get(pid, ""), "design_ref": c["design_ref"]},
                "level_note": c.get("note", NOTE_COMMON),
                "technique": c["technique"],
            })
        else:
            na.append({"property_id": pid, "reason": PENDING_REASON})
    m = {
        "version": 1,
        "setup_cmd": "sh setup.sh",
        "hooks": {
            "guard": "EXPONAX_VERIF",
            "enable": "no hooks are needed: every observed quantity is a Python attribute of the public objects; the guard is unused",
            "baseline_off_cmd": "cd /repo && /venv/bin/python -m pytest -ra -q -p no:cacheprovider --timeout=900 --continue-on-collection-errors",
            "source_commits": [],
            "add_only": True,
        },
        "engines": [{
            "name": "lean-proof+correspondence",
            "path": "harness/run_check.py",
            "serves_properties": sorted(CLAIMS),
            "kind_free_text": "Lean 4 theorems about a model that is partly regenerated from the Python source (translator) and partly "
                              "hand-written and tied by an executable-model-vs-implementation correspondence; property-level oracle on the real code",
        }],
        "checks": checks,
        "notes": "See DESIGN.md. fix: commits in /repo are listed in known_findings.json under 'fixed'.",
        "not_applicable": na,
    }
    with open(os.path.join(VERIF, "MANIFEST.json"), "w") as f:
        json.dump(m, f, indent=1)
    print(f"claimed {len(checks)}, not claimed {len(na)}")


if __name__ == "__main__":
    main()
