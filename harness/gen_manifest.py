#!/usr/bin/env python3
"""writes /verif/MANIFEST.json from the table below (kept valid at all times)"""
import json
import os

VERIF = os.path.dirname(os.path.dirname(os.path.abspath(__file__)))

NOTE_COMMON = ("Trusted: Lean 4.33 kernel + Mathlib v4.33 (axioms propext, Classical.choice, Quot.sound only; audited each run), "
               "harness/translate.py, the correspondence harness/driver I/O. Modelled not verified: IEEE-754 rounding, jnp.fft "
               "(as DFT sums), JAX tracing/jit/vmap/AD, jax.random.")

CLAIMS = {
    "C02": {
        "text": "Lean theorems over C about the definitions regenerated from exponax/etdrk/*.py on every run: every closed form under "
                "the contour integral equals its Cox-Matthews phi-combination, every stored coefficient is dt x the M-point contour "
                "mean at z=L*dt, the contour rule is exact on degree<M polynomials and its nodes avoid the singularity, the stage "
                "formulas equal the Cox-Matthews schemes for any nonlinear map, constant/zero nonlinearity are integrated exactly. "
                "Correspondence: stored arrays and step_fourier vs the compiled model over a dense z cover. Global dt^p error decay "
                "and the contour tail bound are not proved (paper results; measured by the oracle).",
        "technique": "Lean 4 proof over translated ETDRK definitions + model/implementation correspondence",
        "design_ref": "DESIGN.md §5 C02",
    },
    "C13": {
        "text": "Lean theorems over any field about the conversion functions regenerated from stepper/generic/_utils.py on "
                "every run (documented formulas alpha_j=a_j*dt/L^j, gamma_j=alpha_j*N^j*2^(j-1)*D, convection/gradient-norm/"
                "polynomial scales; all normalize/denormalize and reduce/extract pairs are mutual inverses) and about the "
                "regenerated ETDRK code (scaling covariance step(dt,lambda,N)=step(1,dt*lambda,dt*N): only the non-dimensional "
                "groups matter). Correspondence: conversions and every member of the specific/generic/normalized/difficulty "
                "families vs the one model evaluated on the documented equivalent. Oracle: specific-vs-generic pairs of the overview.",
        "technique": "Lean 4 proof over translated conversion/ETDRK definitions + model/implementation correspondence",
        "design_ref": "DESIGN.md §5 C13",
    },
    "C14": {
        "text": "Lean theorems by induction, for any state/aux type and every n>=0, about Loops.* (hand-written mirror of "
                "exponax/_utils.py: lax.scan as a fold): entry i of rollout is the (i+1)-fold application (shifted with the "
                "initial state prepended), repeat = last entry = f^n, step counts add, aux inputs are consumed in order / held "
                "constant, windows = every contiguous slice in order with rejection iff too long, RepeatedStepper = n inner "
                "steps with dt*n. Correspondence: exact integer bookkeeping steppers for every (n, flags), pytree leaves, "
                "every (T, window) pair; RepeatedStepper numerically vs n model steps.",
        "technique": "Lean 4 proof (induction over fold model) + exact model/implementation correspondence",
        "design_ref": "DESIGN.md §5 C14",
    },
    "C20": {
        "text": "Lean theorems about the decision logic (Layout.acceptsShape, Guards.*): accepted iff shape = (C, N,..,N) with D "
                "spatial axes, hence wrong channel count / extra batch axis / missing axis / any unequal axis rejected and "
                "accepted shapes returned unchanged; dimension, order-parity, generator-option and metric-mode guards equal the "
                "documented tables. Correspondence: accept/reject/exception class of every exported stepper class (enumerated "
                "from the package exports), RepeatedStepper, Poisson, operators, generators, metrics, nonlinear funs vs the model, exact.",
        "technique": "Lean 4 proof of decision logic + exhaustive exact accept/reject correspondence over package exports",
        "design_ref": "DESIGN.md §5 C20",
    },
}

PENDING_REASON = "check not built yet in this session (model and theorems planned in DESIGN.md §5); not claimed until its check exists"


def main():
    props = [json.loads(l) for l in open(os.path.join(VERIF, "properties.jsonl"))]
    checks = []
    na = []
    for p in props:
        pid = p["id"]
        if pid in CLAIMS:
            c = CLAIMS[pid]
            checks.append({
                "property_id": pid,
                "quick_cmd": f"/venv/bin/python harness/run_check.py {pid} --tier quick",
                "thorough_cmd": f"/venv/bin/python harness/run_check.py {pid} --tier thorough",
                "evidence_file": f"evidence/{pid}.json",
                "replay_cmd_template": "/venv/bin/python harness/replay.py {path}",
                "engine": "lean-proof+correspondence",
                "level_claimed": {"category": "proof", "text": c["text"], "design_ref": c["design_ref"]},
                "level_note": c.get("note", NOTE_COMMON),
                "technique": c["technique"],
            })
        else:
            na.append({"property_id": pid, "reason": PENDING_REASON})
    m = {
        "version": 1,
        "setup_cmd": "sh setup.sh",
        "hooks": {
            "guard": "EXPONAX_VERIF",
            "enable": "no hooks are needed: every observed quantity is a Python attribute of the public objects; the guard is unused",
            "baseline_off_cmd": "cd /repo && /venv/bin/python -m pytest -ra -q -p no:cacheprovider --timeout=900 --continue-on-collection-errors",
            "source_commits": [],
            "add_only": True,
        },
        "engines": [{
            "name": "lean-proof+correspondence",
            "path": "harness/run_check.py",
            "serves_properties": sorted(CLAIMS),
            "kind_free_text": "Lean 4 theorems about a model that is partly regenerated from the Python source (translator) and partly "
                              "hand-written and tied by an executable-model-vs-implementation correspondence; property-level oracle on the real code",
        }],
        "checks": checks,
        "notes": "See DESIGN.md. fix: commits in /repo are listed in known_findings.json under 'fixed'.",
        "not_applicable": na,
    }
    with open(os.path.join(VERIF, "MANIFEST.json"), "w") as f:
        json.dump(m, f, indent=1)
    print(f"claimed {len(checks)}, not claimed {len(na)}")


if __name__ == "__main__":
    main()
