#!/bin/sh
# Build the framework from files on disk only (offline): regenerate the translated
# Lean definitions from /repo's working tree, then compile the model, the driver and
# every property module.
set -e
cd "$(dirname "$0")"
python3 harness/translate.py >/dev/null || true
cd lean
PROPS=$(ls ExponaxModel/Properties/C*.lean | sed 's#/#.#g; s#\.lean$##')
lake build driver $PROPS
