import ExponaxModel.Proofs.InterpND
import ExponaxModel.Proofs.InterpMean
/-
C15 support — I4 in the degenerate case `min(N_old, N_new) = 1` (where the slice `-0:` of
`get_modes_slices` is the whole axis), and the full-strength statement of I4.
-/
set_option linter.unusedVariables false
set_option linter.unusedSimpArgs false
namespace Exponax.Interp
open Exponax Exponax.Layout Exponax.Transform Exponax.DFT Finset

/-! ### the degenerate case `min(N_old, N_new) = 1` -/

/-- with `m = 1` every written entry of an axis comes from the entry with the same index -/
theorem srcAxis_one_some (lenNew lenOld : ℕ) (isLast : Bool) (i j : ℕ) (hi : i < lenNew)
    (hs : srcAxis 1 lenNew lenOld isLast i = some j) : j = i := by
  unfold srcAxis at hs
  cases isLast
  · simp only [Bool.false_eq_true, if_false, show (1 : ℕ) / 2 = 0 by norm_num] at hs
    rw [pySlice_negZero_none, pySlice_negZero_none] at hs
    simp only [Nat.zero_le, hi, and_self, if_true, Nat.sub_zero, Nat.zero_add,
      Option.some.injEq] at hs
    exact hs.symm
  · simp only [if_true] at hs
    split_ifs at hs
    simp only [Option.some.injEq] at hs
    exact hs.symm

theorem flatten_eq_zero (shape : List ℕ) (hpos : ∀ a ∈ shape, 0 < a) (idx : List ℕ)
    (h0 : flatten shape idx = 0) : ∀ d, d < shape.length → idx.getD d 0 = 0 := by
  induction shape generalizing idx with
  | nil => intro d hd; simp at hd
  | cons a rest ih =>
    have hrest : ∀ b ∈ rest, 0 < b := fun b hb => hpos b (by simp [hb])
    have hsz := shapeSize_pos rest hrest
    simp only [flatten] at h0
    obtain ⟨h1, h2⟩ := Nat.add_eq_zero_iff.mp h0
    have hhead : idx.headD 0 = 0 := by
      rcases Nat.mul_eq_zero.mp h1 with h | h
      · exact h
      · omega
    intro d hd
    cases d with
    | zero =>
      cases idx with
      | nil => simp
      | cons x xs => simpa using hhead
    | succ d =>
      have := ih hrest idx.tail h2 d (by simpa using hd)
      cases idx with
      | nil => simp
      | cons x xs => simpa using this

/-- `m = 1`: only the DC target entry can receive the DC source entry -/
theorem srcIndex_one_flatten_zero (D Nold Nnew : ℕ) (hD : 0 < D) (hNo : 0 < Nold) (hNn : 0 < Nnew)
    (hm : min Nold Nnew = 1) (h' : ℕ) (hh : h' < numModes D Nnew) (idx : List ℕ)
    (hs : srcIndex D Nold Nnew (unflatten (wavenumberShape D Nnew) h') = some idx)
    (h0 : flatten (wavenumberShape D Nold) idx = 0) : h' = 0 := by
  set idx' := unflatten (wavenumberShape D Nnew) h' with hidx'
  have hz := flatten_eq_zero _ (wavenumberShape_pos D Nold hNo) idx h0
  rw [wavenumberShape_length D Nold hD] at hz
  rw [srcIndex_eq] at hs
  split_ifs at hs with hall
  simp only [Option.some.injEq] at hs
  have hdig : ∀ d, d < D → idx'.getD d 0 = 0 := by
    intro d hd
    have h1 := hall d (List.mem_range.mpr hd)
    have h2 := hz d hd
    rw [← hs, range_map_getD D _ d hd] at h2
    have hlt := unflatten_getD_lt (wavenumberShape D Nnew) (wavenumberShape_pos D Nnew hNn) h' hh d
      (by rw [wavenumberShape_length D Nnew hD]; exact hd)
    cases hx : axisSrc D Nold Nnew idx' d with
    | none => rw [hx] at h1; simp at h1
    | some j =>
      rw [hx] at h2
      simp only [Option.getD_some] at h2
      subst h2
      unfold axisSrc at hx
      rw [hm] at hx
      exact (srcAxis_one_some _ _ _ _ _ hlt hx).symm
  apply (wnFlat_eq_zero_iff D Nnew h' hD hNn hh).mp
  intro d hd
  rw [wnFlat_getD D Nnew h' d hd]
  unfold wn
  rw [← hidx', hdig d hd]
  simp [rfftfreq, fftfreq]

/-- band-limited below `1/2` means: only the mean mode is present -/
theorem bandLimitedN_one_spec (D Nold : ℕ) (hD : 0 < D) (hNo : 0 < Nold) (u : Array ℂ)
    (hbl : BandLimitedN D Nold 1 u) (h : ℕ) (hh : h < numModes D Nold) (hne : h ≠ 0) :
    (rfftnM D Nold u).getD h 0 = 0 := by
  apply hbl h hh
  intro hb
  apply hne
  apply (wnFlat_eq_zero_iff D Nold h hD hNo hh).mp
  intro d hd
  have := (inBand_wnFlat_iff D Nold 1 h).mp hb d hd
  have h1 := abs_nonneg ((wnFlat D Nold h).getD d 0)
  have : |(wnFlat D Nold h).getD d 0| = 0 := by push_cast at this; omega
  exact abs_eq_zero.mp this

/-- the new half spectrum when `min(N_old, N_new) = 1` and only the mean mode is present -/
theorem mapSpectrum_min_one (D Nold Nnew : ℕ) (hD : 0 < D) (hNo : 0 < Nold) (hNn : 0 < Nnew)
    (hm : min Nold Nnew = 1) (ob : Bool) (u : Array ℂ) (hbl : BandLimitedN D Nold 1 u)
    (h' : ℕ) (hh : h' < numModes D Nnew) :
    (mapSpectrum D Nold Nnew ob (rfftnM D Nold u)).getD h' 0 =
      if h' = 0 then (rfftnM D Nold u).getD 0 0 / (Nold : ℂ) ^ D * (Nnew : ℂ) ^ D else 0 := by
  by_cases h0 : h' = 0
  · subst h0
    rw [if_pos rfl, mapSpectrum_zero_mode D Nold Nnew hD hNo hNn]
  · rw [if_neg h0, mapSpectrum_getD D Nold Nnew ob _ h' hh]
    split_ifs with hc
    · rfl
    · cases hs : srcIndex D Nold Nnew (unflatten (wavenumberShape D Nnew) h') with
      | none => simp
      | some idx =>
        have hH : flatten (wavenumberShape D Nold) idx ≠ 0 :=
          fun hz => h0 (srcIndex_one_flatten_zero D Nold Nnew hD hNo hNn hm h' hh idx hs hz)
        have : oldSpec D Nold Nnew ob (rfftnM D Nold u) (flatten (wavenumberShape D Nold) idx) = 0 := by
          unfold oldSpec
          split_ifs with h1 h2
          · rfl
          · rw [bandLimitedN_one_spec D Nold hD hNo u hbl _ h1 hH]; simp
          · rfl
        simp only [this, zero_mul]

/-- I4 in the degenerate case `min(N_old, N_new) = 1` -/
theorem mapBetween_nd_exact_min_one (D Nold Nnew : ℕ) (hD : 0 < D) (hNo : 0 < Nold) (hNn : 0 < Nnew)
    (hm : min Nold Nnew = 1) (hne : Nold ≠ Nnew) (ob : Bool) (s : ℂ) (hs : s ≠ 0) (u : Array ℂ)
    (hbl : BandLimitedN D Nold 1 u) (j : ℕ) (hj : j < Nnew ^ D) :
    (mapBetween D Nold Nnew ob u).getD j 0 = interpolate D Nold s u (gridPoint D Nnew s j) := by
  have hNo' : ((Nold : ℂ) ^ D) ≠ 0 := pow_ne_zero _ (by exact_mod_cast hNo.ne')
  have hNn' : ((Nnew : ℂ) ^ D) ≠ 0 := pow_ne_zero _ (by exact_mod_cast hNn.ne')
  have hmn : 0 < numModes D Nnew := shapeSize_pos _ (wavenumberShape_pos D Nnew hNn)
  have hmo : 0 < numModes D Nold := shapeSize_pos _ (wavenumberShape_pos D Nold hNo)
  have hw : ∀ N, herm_weight D N 0 = 1 := by
    intro N
    unfold herm_weight
    simp only [unflatten_zero_getD, true_or, if_true]
  have hph : phaseK D Nnew (wnFlat D Nold 0) j = 0 := by
    rw [phaseK_eq_sum]
    exact Finset.sum_eq_zero (fun d _ => by rw [wnFlat_zero]; ring)
  unfold mapBetween
  rw [if_neg hne, irfftnM_getD D Nnew hNn _ j hj, interpolate_eq D Nold hD hNo,
    Finset.sum_eq_single_of_mem 0 (Finset.mem_range.mpr hmn),
    Finset.sum_eq_single_of_mem 0 (Finset.mem_range.mpr hmo)]
  · rw [mapSpectrum_min_one D Nold Nnew hD hNo hNn hm ob u hbl 0 hmn, if_pos rfl, hw, hw,
      exp_gridPoint D Nnew s hs, Conserve.phaseK_zero_mode, hph,
      twiddle_eq_zpow, neg_zero, zpow_zero, mul_one, mul_one]
    rw [show (rfftnM D Nold u).getD 0 0 / (Nold : ℂ) ^ D * (Nnew : ℂ) ^ D
        = ((((Nnew : ℝ) ^ D / (Nold : ℝ) ^ D : ℝ)) : ℂ) * (rfftnM D Nold u).getD 0 0 by push_cast; ring,
      Complex.re_ofReal_mul]
    push_cast
    field_simp
  · intro h hh h0
    rw [bandLimitedN_one_spec D Nold hD hNo u hbl h (Finset.mem_range.mp hh) h0]
    simp
  · intro h hh h0
    rw [mapSpectrum_min_one D Nold Nnew hD hNo hNn hm ob u hbl h (Finset.mem_range.mp hh), if_neg h0]
    simp

/-- **I4, full strength**: any `D ≥ 1`, any `N_old ≠ N_new`, both `≥ 1`, both `oddballZero`. -/
theorem mapBetween_nd_exact_full (D Nold Nnew : ℕ) (hD : 0 < D) (hNo : 0 < Nold) (hNn : 0 < Nnew)
    (hne : Nold ≠ Nnew) (ob : Bool) (s : ℂ) (hs : s ≠ 0) (u : Array ℂ)
    (hbl : BandLimitedN D Nold (min Nold Nnew) u) (j : ℕ) (hj : j < Nnew ^ D) :
    (mapBetween D Nold Nnew ob u).getD j 0 = interpolate D Nold s u (gridPoint D Nnew s j) := by
  by_cases hm : 2 ≤ min Nold Nnew
  · exact mapBetween_nd_exact D Nold Nnew hD hne hm ob s hs u hbl j hj
  · have hm1 : min Nold Nnew = 1 := by omega
    rw [hm1] at hbl
    exact mapBetween_nd_exact_min_one D Nold Nnew hD hNo hNn hm1 hne ob s hs u hbl j hj

end Exponax.Interp
