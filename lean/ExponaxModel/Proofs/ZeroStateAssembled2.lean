import ExponaxModel.Proofs.ZeroStateAssembled
/-
The zero state on MORE regenerated assembled steps (C19, continuation of `Proofs/ZeroStateAssembled.lean`):
`NavierStokesVorticity_step` (vorticity convection without injection), `FisherKPP_step` (polynomial `(0, 0, −r)`: no
constant term — `u = 0` IS a fixed point of `u' = r u (1 − u)`), and the Normalized / Difficulty wrappers of the
convection, gradient-norm, general-nonlinear and linear families (each is the generic step on the regenerated
`super().__init__` arguments, whatever those arguments turn out to be).
-/
set_option linter.unusedVariables false
namespace Exponax.Interface
open Exponax Exponax.Layout Exponax.Transform Exponax.Nonlin Exponax.Gen.Convert Exponax.Gen.Etdrk
open Exponax.Gen.StepperWiring Exponax.Gen.Steppers Exponax.StepperWiringEq Exponax.SmallGaps
open Exponax.EquivND (liftTermND)

theorem zeroPreserving_vorticity2d (c : Cfg ℂ) (scale : ℂ) : ZeroPreserving (vorticity2d c scale none) :=
  fun uh hz => by
    rw [vorticity2d_zero c scale uh hz]; exact isZeroMC_zeroMC _ _

/-- `NavierStokesVorticity._build_nonlinear_fun` (regenerated): the vorticity convection without injection -/
theorem NavierStokesVorticity_nonlin_zeroPreserving (c : Cfg ℂ) (a : NavierStokesVorticityArgs ℂ) :
    ZeroPreserving (NavierStokesVorticity_stepper_nonlinear_fun c a) := fun uh hz => by
  rw [NavierStokesVorticity_stepper_nonlinear_fun_eq c a uh]
  exact zeroPreserving_vorticity2d _ _ uh hz

/-- `FisherKPP._build_nonlinear_fun` (regenerated): the polynomial `(0, 0, −r)`, constant coefficient `0` -/
theorem FisherKPP_nonlin_zeroPreserving (c : Cfg ℂ) (a : FisherKPPArgs ℂ) :
    ZeroPreserving (FisherKPP_stepper_nonlinear_fun c a) := fun uh hz => by
  rw [FisherKPP_stepper_nonlinear_fun_eq c a uh]
  exact zeroPreserving_polynomial _ _ _ rfl uh hz

theorem NavierStokesVorticity_step_zero (a : NavierStokesVorticityArgs ℂ) : NavierStokesVorticity_step a 0 = 0 :=
  baseStep_zero _ _ _ (NavierStokesVorticity_nonlin_zeroPreserving _ a)

theorem FisherKPP_step_zero (a : FisherKPPArgs ℂ) : FisherKPP_step a 0 = 0 :=
  baseStep_zero _ _ _ (FisherKPP_nonlin_zeroPreserving _ a)

/-! #### the Normalized / Difficulty wrappers: the generic step on the regenerated `super().__init__` arguments -/

theorem NormalizedConvectionStepper_step_zero (n : NormalizedConvectionStepperArgs ℂ) :
    NormalizedConvectionStepper_step n 0 = 0 :=
  GeneralConvectionStepper_step_zero _

theorem DifficultyConvectionStepper_step_zero (d : DifficultyConvectionStepperArgs ℂ) :
    DifficultyConvectionStepper_step d 0 = 0 :=
  NormalizedConvectionStepper_step_zero _

theorem NormalizedGradientNormStepper_step_zero (n : NormalizedGradientNormStepperArgs ℂ) :
    NormalizedGradientNormStepper_step n 0 = 0 :=
  GeneralGradientNormStepper_step_zero _

theorem DifficultyGradientNormStepper_step_zero (d : DifficultyGradientNormStepperArgs ℂ) :
    DifficultyGradientNormStepper_step d 0 = 0 :=
  NormalizedGradientNormStepper_step_zero _

theorem NormalizedNonlinearStepper_step_zero (n : NormalizedNonlinearStepperArgs ℂ) :
    NormalizedNonlinearStepper_step n 0 = 0 :=
  GeneralNonlinearStepper_step_zero _

theorem DifficultyNonlinearStepper_step_zero (d : DifficultyNonlinearStepperArgs ℂ) :
    DifficultyNonlinearStepper_step d 0 = 0 :=
  NormalizedNonlinearStepper_step_zero _

theorem NormalizedLinearStepper_step_zero (n : NormalizedLinearStepperArgs ℂ) :
    NormalizedLinearStepper_step n 0 = 0 :=
  GeneralLinearStepper_step_zero _

theorem DifficultyLinearStepper_step_zero (d : DifficultyLinearStepperArgs ℂ) :
    DifficultyLinearStepper_step d 0 = 0 :=
  NormalizedLinearStepper_step_zero _

/-- the polynomial wrappers, under the hypothesis on the constant coefficient of the list the wrapper hands to its
    parent (the regenerated `super().__init__` arguments) -/
theorem NormalizedPolynomialStepper_step_zero (n : NormalizedPolynomialStepperArgs ℂ)
    (h0 : (NormalizedPolynomialStepper_super_args n).polynomial_coefficients.getD 0 0 = 0) :
    NormalizedPolynomialStepper_step n 0 = 0 :=
  GeneralPolynomialStepper_step_zero _ h0

theorem DifficultyPolynomialStepper_step_zero (d : DifficultyPolynomialStepperArgs ℂ)
    (h0 : (NormalizedPolynomialStepper_super_args
      (DifficultyPolynomialStepper_super_args d)).polynomial_coefficients.getD 0 0 = 0) :
    DifficultyPolynomialStepper_step d 0 = 0 :=
  NormalizedPolynomialStepper_step_zero _ h0

/-! non-vacuity: Fisher–KPP's coefficient list has constant coefficient `0` and is not the zero polynomial -/
example (r : ℂ) : ([0, 0, -r] : List ℂ).getD 0 0 = 0 := rfl
example : ([0, 0, -(1 : ℂ)] : List ℂ).getD 2 0 ≠ 0 := by simp

end Exponax.Interface
