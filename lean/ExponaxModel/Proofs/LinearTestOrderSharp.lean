import ExponaxModel.Proofs.LinearTestOrder
/-
C02 support — T4: SHARPNESS of the order statements (the theorems would notice a wrong coefficient).

 (a) exact leading error terms:  `(R_p(λt, μt) − e^{(λ+μ)t}) / t^{p+1} → L_p(λ, μ)` as `t → 0`, with
       L₁ = −μ(λ+μ)/2,  L₂ = −μ³/6 − λμ²/12 + λ²μ/12,  L₃ = −μ⁴/24 − λμ³/24,
       L₄ = −μ⁵/120 − λμ⁴/96 + λ²μ³/720 + 7λ³μ²/2880 − λ⁴μ/960,
     and `L_p(0, 1) = −1/(p+1)! ≠ 0`: the local error is NOT `O(t^{p+2})` — the order is exactly `p`.
 (b) wrong coefficients destroy the order (one per scheme; `ε ≠ 0` an arbitrary relative error):
       ETDRK1  `a₁ = dt(1+ε)φ₁`                        local error `~ εμ · t`
       ETDRK2  `a₂ = dt(1+ε)φ₂`                        local error `~ εμ(λ+μ)/2 · t²`
       ETDRK3  inner weight `a₁ = dt(1+ε)φ₁` (stage b) local error `~ εμ²/6 · t²`
       ETDRK4  last weight `b₃ = dt(1+ε)(4φ₃−φ₂)`       local error `~ εμ/6 · t`
       ETDRK4  `b₁` with the SIGN TYPO `(−4 + z + e^z(4 − 3z + z²))/z³` (correct: `−4 − z + …`)
               amplification `R₄ + 2μ/(λ² t)`: the local error blows up like `2μ/(λ²t)`.
-/
set_option linter.unusedVariables false
noncomputable section
namespace Exponax.LinearOrder
open Exponax Exponax.Spec Exponax.ContourTail Exponax.Gen.Etdrk Filter Topology

/-! ### limit lemmas -/

theorem tendsto_div_pow (F G : ℝ → ℂ) (k : ℕ) (hG : Continuous G)
    (h : ∀ t : ℝ, F t = (t : ℂ) ^ k * G t) :
    Tendsto (fun t : ℝ => F t / (t : ℂ) ^ k) (𝓝[≠] 0) (𝓝 (G 0)) := by
  have h1 : Tendsto G (𝓝[≠] 0) (𝓝 (G 0)) := hG.continuousAt.tendsto.mono_left nhdsWithin_le_nhds
  refine h1.congr' ?_
  filter_upwards [self_mem_nhdsWithin] with t ht
  have hne : (t : ℂ) ^ k ≠ 0 := pow_ne_zero _ (by exact_mod_cast ht)
  rw [h t]
  field_simp

/-- `g = t^{p+1} Q` (order `p`) plus a defect `d = t^k D`, `k ≤ p`: the quotient by `t^k` tends to `D 0` -/
theorem perturbed_limit (g d Q D : ℝ → ℂ) (p k : ℕ) (hk : k ≤ p) (hQ : Continuous Q)
    (hD : Continuous D) (hg : ∀ t : ℝ, g t = (t : ℂ) ^ (p + 1) * Q t)
    (hd : ∀ t : ℝ, d t = (t : ℂ) ^ k * D t) :
    Tendsto (fun t : ℝ => (g t + d t) / (t : ℂ) ^ k) (𝓝[≠] 0) (𝓝 (D 0)) := by
  have hc : Continuous fun t : ℝ => (t : ℂ) ^ (p + 1 - k) * Q t + D t := by fun_prop
  have h := tendsto_div_pow (fun t => g t + d t) (fun t : ℝ => (t : ℂ) ^ (p + 1 - k) * Q t + D t) k hc
    (fun t => by
      have hp : (t : ℂ) ^ (p + 1) = (t : ℂ) ^ k * (t : ℂ) ^ (p + 1 - k) := by
        rw [← pow_add]; congr 1; omega
      rw [hg, hd, hp]; ring)
  have h0 : ((0 : ℝ) : ℂ) ^ (p + 1 - k) * Q 0 + D 0 = D 0 := by
    rw [Complex.ofReal_zero, zero_pow (by omega), zero_mul, zero_add]
  rw [← h0]
  exact h

/-- a non-zero limit of `g/t^k` is incompatible with `‖g‖ ≤ C t^j` for any `j > k` -/
theorem not_isBigO_of_limit (g : ℝ → ℂ) (k j : ℕ) (hj : k < j) (L : ℂ) (hL : L ≠ 0)
    (h : Tendsto (fun t : ℝ => g t / (t : ℂ) ^ k) (𝓝[≠] 0) (𝓝 L)) (T : ℝ) (hT : 0 < T) :
    ¬ ∃ C : ℝ, ∀ t : ℝ, 0 < t → t ≤ T → ‖g t‖ ≤ C * t ^ j := by
  rintro ⟨C, hC⟩
  have hgt : Tendsto (fun t : ℝ => g t / (t : ℂ) ^ k) (𝓝[>] 0) (𝓝 L) :=
    h.mono_left (nhdsWithin_mono _ (fun t (ht : 0 < t) => ht.ne'))
  have h1 : Tendsto (fun t : ℝ => ‖g t / (t : ℂ) ^ k‖) (𝓝[>] 0) (𝓝 ‖L‖) := hgt.norm
  have h2 : Tendsto (fun t : ℝ => C * t ^ (j - k)) (𝓝[>] 0) (𝓝 0) := by
    have hc : Continuous fun t : ℝ => C * t ^ (j - k) := by fun_prop
    have := hc.continuousAt.tendsto (x := (0 : ℝ))
    rw [zero_pow (by omega), mul_zero] at this
    exact this.mono_left nhdsWithin_le_nhds
  have hle : ‖L‖ ≤ 0 := by
    refine le_of_tendsto_of_tendsto h1 h2 ?_
    filter_upwards [Ioc_mem_nhdsGT hT] with t ht
    have htk : 0 < t ^ k := pow_pos ht.1 k
    rw [norm_div, norm_pow, Complex.norm_real, Real.norm_eq_abs, abs_of_pos ht.1,
      div_le_iff₀ htk, mul_assoc, ← pow_add]
    rw [show j - k + k = j by omega]
    exact hC t ht.1 ht.2
  exact hL (norm_le_zero_iff.mp hle)

/-! ### (a) exact leading error terms -/

/-- the leading local-error coefficients -/
def L1 (l m : ℂ) : ℂ := -(m * (l + m)) / 2
def L2 (l m : ℂ) : ℂ := -m ^ 3 / 6 - l * m ^ 2 / 12 + l ^ 2 * m / 12
def L3 (l m : ℂ) : ℂ := -m ^ 4 / 24 - l * m ^ 3 / 24
def L4 (l m : ℂ) : ℂ :=
  -m ^ 5 / 120 - l * m ^ 4 / 96 + l ^ 2 * m ^ 3 / 720 + 7 * l ^ 3 * m ^ 2 / 2880 - l ^ 4 * m / 960

theorem R1_error_constant (l m : ℂ) :
    Tendsto (fun t : ℝ => (R1 (l * t) (m * t) - Complex.exp ((l + m) * t)) / (t : ℂ) ^ 2)
      (𝓝[≠] 0) (𝓝 (L1 l m)) := by
  have h := tendsto_div_pow _ _ 2 (continuous_Q1 l m) (fun t => R1_sub_exp l m t)
  have h0 : Q1 l m ((0 : ℝ) : ℂ) (phiE 2 (l * ((0 : ℝ) : ℂ))) (phiE 2 ((l + m) * ((0 : ℝ) : ℂ)))
      = L1 l m := by
    simp only [Complex.ofReal_zero, mul_zero, phiE_at_zero]
    unfold Q1 Q1c0 L1
    norm_num [Nat.factorial]
    ring
  rw [← h0]; exact h

theorem R2_error_constant (l m : ℂ) :
    Tendsto (fun t : ℝ => (R2 (l * t) (m * t) - Complex.exp ((l + m) * t)) / (t : ℂ) ^ 3)
      (𝓝[≠] 0) (𝓝 (L2 l m)) := by
  have h := tendsto_div_pow _ _ 3 (continuous_Q2 l m) (fun t => R2_sub_exp l m t)
  have h0 : Q2 l m ((0 : ℝ) : ℂ) (phiE 3 (l * ((0 : ℝ) : ℂ))) (phiE 3 ((l + m) * ((0 : ℝ) : ℂ)))
      = L2 l m := by
    simp only [Complex.ofReal_zero, mul_zero, phiE_at_zero]
    unfold Q2 Q2c0 L2
    norm_num [Nat.factorial]
    ring
  rw [← h0]; exact h

theorem R3_error_constant (l m : ℂ) :
    Tendsto (fun t : ℝ => (R3 (l * t) (m * t) - Complex.exp ((l + m) * t)) / (t : ℂ) ^ 4)
      (𝓝[≠] 0) (𝓝 (L3 l m)) := by
  have h := tendsto_div_pow _ _ 4 (continuous_Q3 l m) (fun t => R3_sub_exp l m t)
  have h0 : Q3 l m ((0 : ℝ) : ℂ) (phiE 4 (l * ((0 : ℝ) : ℂ))) (phiE 4 (l * ((0 : ℝ) : ℂ) / 2))
      (phiE 4 ((l + m) * ((0 : ℝ) : ℂ))) = L3 l m := by
    simp only [Complex.ofReal_zero, mul_zero, zero_div, phiE_at_zero]
    unfold Q3 Q3c0 L3
    norm_num [Nat.factorial]
    ring
  rw [← h0]; exact h

theorem R4_error_constant (l m : ℂ) :
    Tendsto (fun t : ℝ => (R4 (l * t) (m * t) - Complex.exp ((l + m) * t)) / (t : ℂ) ^ 5)
      (𝓝[≠] 0) (𝓝 (L4 l m)) := by
  have h := tendsto_div_pow _ _ 5 (continuous_Q4 l m) (fun t => R4_sub_exp l m t)
  have h0 : Q4 l m ((0 : ℝ) : ℂ) (phiE 5 (l * ((0 : ℝ) : ℂ))) (phiE 5 (l * ((0 : ℝ) : ℂ) / 2))
      (phiE 5 ((l + m) * ((0 : ℝ) : ℂ))) = L4 l m := by
    simp only [Complex.ofReal_zero, mul_zero, zero_div, phiE_at_zero]
    unfold Q4 Q4c0 L4
    norm_num [Nat.factorial]
    ring
  rw [← h0]; exact h

theorem L1_ne : L1 0 1 ≠ 0 := by unfold L1; norm_num
theorem L2_ne : L2 0 1 ≠ 0 := by unfold L2; norm_num
theorem L3_ne : L3 0 1 ≠ 0 := by unfold L3; norm_num
theorem L4_ne : L4 0 1 ≠ 0 := by unfold L4; norm_num

/-- **T4(a)**: the order of ETDRK`p` is EXACTLY `p`: already for `λ = 0, μ = 1` the local error is
    not `O(t^{p+2})` on any interval `(0,T]` -/
theorem order_exactly_p (T : ℝ) (hT : 0 < T) :
    (¬ ∃ C : ℝ, ∀ t : ℝ, 0 < t → t ≤ T →
      ‖R1 (0 * t) (1 * t) - Complex.exp ((0 + 1) * t)‖ ≤ C * t ^ 3) ∧
    (¬ ∃ C : ℝ, ∀ t : ℝ, 0 < t → t ≤ T →
      ‖R2 (0 * t) (1 * t) - Complex.exp ((0 + 1) * t)‖ ≤ C * t ^ 4) ∧
    (¬ ∃ C : ℝ, ∀ t : ℝ, 0 < t → t ≤ T →
      ‖R3 (0 * t) (1 * t) - Complex.exp ((0 + 1) * t)‖ ≤ C * t ^ 5) ∧
    (¬ ∃ C : ℝ, ∀ t : ℝ, 0 < t → t ≤ T →
      ‖R4 (0 * t) (1 * t) - Complex.exp ((0 + 1) * t)‖ ≤ C * t ^ 6) :=
  ⟨not_isBigO_of_limit _ 2 3 (by norm_num) _ L1_ne (R1_error_constant 0 1) T hT,
   not_isBigO_of_limit _ 3 4 (by norm_num) _ L2_ne (R2_error_constant 0 1) T hT,
   not_isBigO_of_limit _ 4 5 (by norm_num) _ L3_ne (R3_error_constant 0 1) T hT,
   not_isBigO_of_limit _ 5 6 (by norm_num) _ L4_ne (R4_error_constant 0 1) T hT⟩

/-! ### (b) wrong coefficients -/

attribute [local fun_prop] continuous_phi1e continuous_phi2e continuous_phi3e

/-- ETDRK1 with `a₁` off by the relative error `ε` -/
theorem cm1_perturbed (z dt μ ε u : ℂ) :
    cm1 (Complex.exp z) (dt * ((1 + ε) * phi1e z)) (fun v => μ * v) u
      = (R1 z (μ * dt) + ε * (μ * dt) * phi1e z) * u := by
  simp only [cm1, R1]; ring

/-- ETDRK2 with `a₂` off by the relative error `ε` -/
theorem cm2_perturbed (z dt μ ε u : ℂ) :
    cm2 (Complex.exp z) (dt * phi1e z) (dt * ((1 + ε) * phi2e z)) (fun v => μ * v) u
      = (R2 z (μ * dt) + ε * (μ * dt) * phi2e z * ((z + μ * dt) * phi1e z)) * u := by
  have h := exp_eq_one_add_mul_phi1e z
  simp only [cm2, R2]
  linear_combination (dt * ((1 + ε) * phi2e z) * μ * u - (μ * dt) * phi2e z * u) * h

/-- ETDRK3 with the inner weight `a₁` (stage `b`) off by the relative error `ε` -/
theorem cm3_perturbed (z dt μ ε u : ℂ) :
    cm3 (Complex.exp z) (Complex.exp (z / 2)) (dt * (phi1e (z / 2) / 2)) (dt * ((1 + ε) * phi1e z))
      (dt * (phi1e z - 3 * phi2e z + 4 * phi3e z)) (dt * (4 * phi2e z - 8 * phi3e z))
      (dt * (4 * phi3e z - phi2e z)) (fun v => μ * v) u
      = (R3 z (μ * dt) + ε * (μ * dt) ^ 2 * wC z * phi1e z
          * (2 * (Complex.exp (z / 2) + μ * dt / 2 * phi1e (z / 2)) - 1)) * u := by
  simp only [cm3, R3, wA, wB, wC, lit_eq]; push_cast; ring

/-- ETDRK4 with the last weight `b₃` off by the relative error `ε` -/
theorem cm4_perturbed (z dt μ ε u : ℂ) :
    cm4 (Complex.exp z) (Complex.exp (z / 2)) (dt * (phi1e (z / 2) / 2))
      (dt * (phi1e z - 3 * phi2e z + 4 * phi3e z)) (dt * (phi2e z - 2 * phi3e z))
      (dt * ((1 + ε) * (4 * phi3e z - phi2e z))) (fun v => μ * v) u
      = (R4 z (μ * dt) + ε * (μ * dt) * wC z
          * (Complex.exp z + μ * dt / 2 * phi1e (z / 2) * (3 * Complex.exp (z / 2) - 1)
            + (μ * dt) ^ 2 / 2 * phi1e (z / 2) ^ 2 * Complex.exp (z / 2)
            + (μ * dt) ^ 3 / 4 * phi1e (z / 2) ^ 3)) * u := by
  have h := exp_half_sq z
  simp only [cm4, R4, wA, wB, wC, lit_eq]; push_cast
  linear_combination (μ * dt * (1 + ε) * (4 * phi3e z - phi2e z) * u) * h

/-- the correct closed form of the `b₁` combination and the one with the sign typo differ by `2/z²` -/
theorem wA_sign_typo (z : ℂ) (hz : z ≠ 0) :
    (-4 + z + Complex.exp z * (4 - 3 * z + z ^ 2)) / z ^ 3 = wA z + 2 / z ^ 2 := by
  unfold wA
  rw [phi1e_of_ne z hz, phi2e_of_ne z hz, phi3e_of_ne z hz, phi1_closed, phi2_closed, phi3_closed]
  field_simp
  ring

/-- ETDRK4 with the SIGN TYPO in `b₁` (`−4 + z + …` instead of `−4 − z + …`) -/
theorem cm4_sign_typo (z dt μ u : ℂ) (hz : z ≠ 0) :
    cm4 (Complex.exp z) (Complex.exp (z / 2)) (dt * (phi1e (z / 2) / 2))
      (dt * ((-4 + z + Complex.exp z * (4 - 3 * z + z ^ 2)) / z ^ 3)) (dt * (phi2e z - 2 * phi3e z))
      (dt * (4 * phi3e z - phi2e z)) (fun v => μ * v) u
      = (R4 z (μ * dt) + 2 * (μ * dt) / z ^ 2) * u := by
  rw [wA_sign_typo z hz, add_mul, ← cm4_linear z dt μ u]
  simp only [cm4, wA, lit_eq]; push_cast
  ring

/-- the same for the regenerated `E4step` -/
theorem E4step_sign_typo (z dt μ u : ℂ) (hz : z ≠ 0) :
    E4step (Complex.exp z) (Complex.exp (z / 2)) (dt * (phi1e (z / 2) / 2))
      (dt * (phi1e (z / 2) / 2)) (dt * (phi1e (z / 2) / 2))
      (dt * ((-4 + z + Complex.exp z * (4 - 3 * z + z ^ 2)) / z ^ 3)) (dt * (phi2e z - 2 * phi3e z))
      (dt * (4 * phi3e z - phi2e z)) (fun v => μ * v) u
      = (R4 z (μ * dt) + 2 * (μ * dt) / z ^ 2) * u := by
  rw [C02_step_E4]; exact cm4_sign_typo z dt μ u hz

/-! limits of the perturbed local errors -/

/-- **T4(b), ETDRK1**: `(R̃₁ − e^{(λ+μ)t})/t → εμ` -/
theorem R1_perturbed_limit (l m ε : ℂ) :
    Tendsto (fun t : ℝ => (R1 (l * t) (m * t) + ε * (m * t) * phi1e (l * t)
        - Complex.exp ((l + m) * t)) / (t : ℂ) ^ 1) (𝓝[≠] 0) (𝓝 (ε * m)) := by
  have hD : Continuous fun t : ℝ => ε * m * phi1e (l * (t : ℂ)) := by fun_prop
  have h := perturbed_limit _ (fun t : ℝ => ε * (m * t) * phi1e (l * t)) _
    (fun t : ℝ => ε * m * phi1e (l * (t : ℂ))) 1 1 le_rfl (continuous_Q1 l m) hD
    (fun t => R1_sub_exp l m t) (fun t => by ring)
  simp only [Complex.ofReal_zero, mul_zero, phi1e_zero, mul_one] at h
  refine h.congr (fun t => ?_)
  ring

/-- **T4(b), ETDRK2**: `(R̃₂ − e^{(λ+μ)t})/t² → εμ(λ+μ)/2` -/
theorem R2_perturbed_limit (l m ε : ℂ) :
    Tendsto (fun t : ℝ => (R2 (l * t) (m * t)
        + ε * (m * t) * phi2e (l * t) * ((l * t + m * t) * phi1e (l * t))
        - Complex.exp ((l + m) * t)) / (t : ℂ) ^ 2) (𝓝[≠] 0) (𝓝 (ε * m * (l + m) / 2)) := by
  have hD : Continuous fun t : ℝ =>
      ε * m * (l + m) * phi2e (l * (t : ℂ)) * phi1e (l * (t : ℂ)) := by fun_prop
  have h := perturbed_limit _
    (fun t : ℝ => ε * (m * t) * phi2e (l * t) * ((l * t + m * t) * phi1e (l * t))) _
    (fun t : ℝ => ε * m * (l + m) * phi2e (l * (t : ℂ)) * phi1e (l * (t : ℂ))) 2 2 le_rfl
    (continuous_Q2 l m) hD (fun t => R2_sub_exp l m t) (fun t => by ring)
  simp only [Complex.ofReal_zero, mul_zero, phi1e_zero, phi2e_zero, mul_one] at h
  have hv : ε * m * (l + m) * (1 / 2) = ε * m * (l + m) / 2 := by ring
  rw [hv] at h
  refine h.congr (fun t => ?_)
  ring

/-- **T4(b), ETDRK3** (inner weight): `(R̃₃ − e^{(λ+μ)t})/t² → εμ²/6` -/
theorem R3_perturbed_limit (l m ε : ℂ) :
    Tendsto (fun t : ℝ => (R3 (l * t) (m * t) + ε * (m * t) ^ 2 * wC (l * t) * phi1e (l * t)
          * (2 * (Complex.exp (l * t / 2) + m * t / 2 * phi1e (l * t / 2)) - 1)
        - Complex.exp ((l + m) * t)) / (t : ℂ) ^ 2) (𝓝[≠] 0) (𝓝 (ε * m ^ 2 / 6)) := by
  have hD : Continuous fun t : ℝ => ε * m ^ 2 * wC (l * (t : ℂ)) * phi1e (l * (t : ℂ))
      * (2 * (Complex.exp (l * (t : ℂ) / 2) + m * (t : ℂ) / 2 * phi1e (l * (t : ℂ) / 2)) - 1) := by
    unfold wC; fun_prop
  have h := perturbed_limit _
    (fun t : ℝ => ε * (m * t) ^ 2 * wC (l * t) * phi1e (l * t)
      * (2 * (Complex.exp (l * t / 2) + m * t / 2 * phi1e (l * t / 2)) - 1)) _
    (fun t : ℝ => ε * m ^ 2 * wC (l * (t : ℂ)) * phi1e (l * (t : ℂ))
      * (2 * (Complex.exp (l * (t : ℂ) / 2) + m * (t : ℂ) / 2 * phi1e (l * (t : ℂ) / 2)) - 1))
    3 2 (by norm_num) (continuous_Q3 l m) hD (fun t => R3_sub_exp l m t) (fun t => by ring)
  have hv : ε * m ^ 2 * wC (l * ((0 : ℝ) : ℂ)) * phi1e (l * ((0 : ℝ) : ℂ))
      * (2 * (Complex.exp (l * ((0 : ℝ) : ℂ) / 2)
        + m * ((0 : ℝ) : ℂ) / 2 * phi1e (l * ((0 : ℝ) : ℂ) / 2)) - 1) = ε * m ^ 2 / 6 := by
    simp only [wC, Complex.ofReal_zero, mul_zero, zero_div, phi1e_zero, phi2e_zero, phi3e_zero,
      Complex.exp_zero, zero_mul]
    ring
  rw [hv] at h
  refine h.congr (fun t => ?_)
  ring

/-- **T4(b), ETDRK4** (last weight): `(R̃₄ − e^{(λ+μ)t})/t → εμ/6` -/
theorem R4_perturbed_limit (l m ε : ℂ) :
    Tendsto (fun t : ℝ => (R4 (l * t) (m * t) + ε * (m * t) * wC (l * t)
          * (Complex.exp (l * t) + m * t / 2 * phi1e (l * t / 2) * (3 * Complex.exp (l * t / 2) - 1)
            + (m * t) ^ 2 / 2 * phi1e (l * t / 2) ^ 2 * Complex.exp (l * t / 2)
            + (m * t) ^ 3 / 4 * phi1e (l * t / 2) ^ 3)
        - Complex.exp ((l + m) * t)) / (t : ℂ) ^ 1) (𝓝[≠] 0) (𝓝 (ε * m / 6)) := by
  have hD : Continuous fun t : ℝ => ε * m * wC (l * (t : ℂ))
      * (Complex.exp (l * (t : ℂ))
        + m * (t : ℂ) / 2 * phi1e (l * (t : ℂ) / 2) * (3 * Complex.exp (l * (t : ℂ) / 2) - 1)
        + (m * (t : ℂ)) ^ 2 / 2 * phi1e (l * (t : ℂ) / 2) ^ 2 * Complex.exp (l * (t : ℂ) / 2)
        + (m * (t : ℂ)) ^ 3 / 4 * phi1e (l * (t : ℂ) / 2) ^ 3) := by
    unfold wC; fun_prop
  have h := perturbed_limit _
    (fun t : ℝ => ε * (m * t) * wC (l * t)
      * (Complex.exp (l * t) + m * t / 2 * phi1e (l * t / 2) * (3 * Complex.exp (l * t / 2) - 1)
        + (m * t) ^ 2 / 2 * phi1e (l * t / 2) ^ 2 * Complex.exp (l * t / 2)
        + (m * t) ^ 3 / 4 * phi1e (l * t / 2) ^ 3)) _
    (fun t : ℝ => ε * m * wC (l * (t : ℂ))
      * (Complex.exp (l * (t : ℂ))
        + m * (t : ℂ) / 2 * phi1e (l * (t : ℂ) / 2) * (3 * Complex.exp (l * (t : ℂ) / 2) - 1)
        + (m * (t : ℂ)) ^ 2 / 2 * phi1e (l * (t : ℂ) / 2) ^ 2 * Complex.exp (l * (t : ℂ) / 2)
        + (m * (t : ℂ)) ^ 3 / 4 * phi1e (l * (t : ℂ) / 2) ^ 3))
    4 1 (by norm_num) (continuous_Q4 l m) hD (fun t => R4_sub_exp l m t) (fun t => by ring)
  have hv : ε * m * wC (l * ((0 : ℝ) : ℂ))
      * (Complex.exp (l * ((0 : ℝ) : ℂ))
        + m * ((0 : ℝ) : ℂ) / 2 * phi1e (l * ((0 : ℝ) : ℂ) / 2)
          * (3 * Complex.exp (l * ((0 : ℝ) : ℂ) / 2) - 1)
        + (m * ((0 : ℝ) : ℂ)) ^ 2 / 2 * phi1e (l * ((0 : ℝ) : ℂ) / 2) ^ 2
          * Complex.exp (l * ((0 : ℝ) : ℂ) / 2)
        + (m * ((0 : ℝ) : ℂ)) ^ 3 / 4 * phi1e (l * ((0 : ℝ) : ℂ) / 2) ^ 3) = ε * m / 6 := by
    simp only [wC, Complex.ofReal_zero, mul_zero, zero_div, phi1e_zero, phi2e_zero, phi3e_zero,
      Complex.exp_zero, zero_mul]
    ring
  rw [hv] at h
  refine h.congr (fun t => ?_)
  ring

/-- **T4(b), ETDRK4 sign typo**: `t · (R̃₄ − e^{(λ+μ)t}) → 2μ/λ²` (`λ ≠ 0`): the local error blows up -/
theorem R4_sign_typo_limit (l m : ℂ) (hl : l ≠ 0) :
    Tendsto (fun t : ℝ => (t : ℂ) * (R4 (l * t) (m * t) + 2 * (m * t) / (l * t) ^ 2
        - Complex.exp ((l + m) * t))) (𝓝[≠] 0) (𝓝 (2 * m / l ^ 2)) := by
  have hc : Continuous fun t : ℝ => (t : ℂ) ^ 6 *
      Q4 l m t (phiE 5 (l * (t : ℂ))) (phiE 5 (l * (t : ℂ) / 2)) (phiE 5 ((l + m) * (t : ℂ)))
      + 2 * m / l ^ 2 := by
    have := continuous_Q4 l m
    fun_prop
  have h1 := (hc.continuousAt (x := (0 : ℝ))).tendsto.mono_left
    (nhdsWithin_le_nhds (s := ({0}ᶜ : Set ℝ)))
  simp only [Complex.ofReal_zero, ne_eq, OfNat.ofNat_ne_zero, not_false_eq_true, zero_pow, zero_mul,
    zero_add] at h1
  refine h1.congr' ?_
  filter_upwards [self_mem_nhdsWithin] with t ht
  have hne : (t : ℂ) ≠ 0 := by exact_mod_cast ht
  have hg := R4_sub_exp l m (t : ℂ)
  have : R4 (l * t) (m * t) + 2 * (m * t) / (l * t) ^ 2 - Complex.exp ((l + m) * t)
      = (t : ℂ) ^ 5 * Q4 l m t (phiE 5 (l * (t : ℂ))) (phiE 5 (l * (t : ℂ) / 2))
          (phiE 5 ((l + m) * (t : ℂ))) + 2 * (m * t) / (l * t) ^ 2 := by
    rw [← hg]; ring
  rw [this]
  field_simp

/-! consequences: the perturbed schemes are NOT of order `p` -/

/-- **T4(b)** none of the perturbed schemes has local error `O(t^{p+1})` (here with `λ = 0`, `μ = 1`,
    any `ε ≠ 0`) — the order theorems T2/T3 would fail for them -/
theorem perturbed_not_order_p (ε : ℂ) (hε : ε ≠ 0) (T : ℝ) (hT : 0 < T) :
    (¬ ∃ C : ℝ, ∀ t : ℝ, 0 < t → t ≤ T →
      ‖R1 (0 * t) (1 * t) + ε * (1 * t) * phi1e (0 * t) - Complex.exp ((0 + 1) * t)‖ ≤ C * t ^ 2) ∧
    (¬ ∃ C : ℝ, ∀ t : ℝ, 0 < t → t ≤ T →
      ‖R2 (0 * t) (1 * t) + ε * (1 * t) * phi2e (0 * t) * ((0 * t + 1 * t) * phi1e (0 * t))
        - Complex.exp ((0 + 1) * t)‖ ≤ C * t ^ 3) ∧
    (¬ ∃ C : ℝ, ∀ t : ℝ, 0 < t → t ≤ T →
      ‖R3 (0 * t) (1 * t) + ε * (1 * t) ^ 2 * wC (0 * t) * phi1e (0 * t)
          * (2 * (Complex.exp (0 * t / 2) + 1 * t / 2 * phi1e (0 * t / 2)) - 1)
        - Complex.exp ((0 + 1) * t)‖ ≤ C * t ^ 4) ∧
    (¬ ∃ C : ℝ, ∀ t : ℝ, 0 < t → t ≤ T →
      ‖R4 (0 * t) (1 * t) + ε * (1 * t) * wC (0 * t)
          * (Complex.exp (0 * t) + 1 * t / 2 * phi1e (0 * t / 2) * (3 * Complex.exp (0 * t / 2) - 1)
            + (1 * t) ^ 2 / 2 * phi1e (0 * t / 2) ^ 2 * Complex.exp (0 * t / 2)
            + (1 * t) ^ 3 / 4 * phi1e (0 * t / 2) ^ 3)
        - Complex.exp ((0 + 1) * t)‖ ≤ C * t ^ 5) := by
  refine ⟨?_, ?_, ?_, ?_⟩
  · exact not_isBigO_of_limit _ 1 2 (by norm_num) _ (by simpa using hε)
      (R1_perturbed_limit 0 1 ε) T hT
  · exact not_isBigO_of_limit _ 2 3 (by norm_num) _ (by simpa using hε)
      (R2_perturbed_limit 0 1 ε) T hT
  · exact not_isBigO_of_limit _ 2 4 (by norm_num) _ (by simpa using hε)
      (R3_perturbed_limit 0 1 ε) T hT
  · exact not_isBigO_of_limit _ 1 5 (by norm_num) _ (by simpa using hε)
      (R4_perturbed_limit 0 1 ε) T hT

/-- **T4(b)** ETDRK4 with the sign typo is not even bounded as `t → 0` (`λ = μ = 1`): in particular its local
    error is not `O(t⁵)` -/
theorem sign_typo_not_order_4 (T : ℝ) (hT : 0 < T) :
    ¬ ∃ C : ℝ, ∀ t : ℝ, 0 < t → t ≤ T →
      ‖R4 (1 * t) (1 * t) + 2 * (1 * t) / (1 * (t : ℂ)) ^ 2 - Complex.exp ((1 + 1) * t)‖ ≤ C * t ^ 5 := by
  rintro ⟨C, hC⟩
  have hlim := R4_sign_typo_limit 1 1 one_ne_zero
  have hlim' : Tendsto (fun t : ℝ => ((t : ℂ) * (R4 (1 * t) (1 * t) + 2 * (1 * t) / (1 * (t : ℂ)) ^ 2
      - Complex.exp ((1 + 1) * t))) / (t : ℂ) ^ 0) (𝓝[≠] 0) (𝓝 (2 * 1 / 1 ^ 2)) := by
    simpa using hlim
  refine not_isBigO_of_limit _ 0 6 (by norm_num) _ (by norm_num) hlim' T hT ⟨C, fun t h0 h1 => ?_⟩
  rw [norm_mul, Complex.norm_real, Real.norm_eq_abs, abs_of_pos h0]
  calc t * _ ≤ t * (C * t ^ 5) := mul_le_mul_of_nonneg_left (hC t h0 h1) h0.le
    _ = C * t ^ 6 := by ring

/-! ### non-vacuity -/
example : (1 : ℂ) ≠ 0 := one_ne_zero
example : (0 : ℝ) < 1 := one_pos
example : ∃ ε : ℂ, ε ≠ 0 := ⟨1, one_ne_zero⟩

end Exponax.LinearOrder
end
