import ExponaxModel.Proofs.ReadOffBasic
import ExponaxModel.Proofs.LerayBasic
import Mathlib.Analysis.Calculus.IteratedDeriv.Lemmas
import Mathlib.Analysis.SpecialFunctions.Trigonometric.Deriv
/-
R1 (C05, physical-space link): spectral derivatives / Laplacian / Poisson solve are exact on resolved modes,
every `D ≥ 1`, every `N ≥ 1`, THROUGH the model routines `Nonlin.derivativeM`, `Nonlin.laplace`,
`Nonlin.poissonStep`.

For `u_j = a cos(2π κ·j/N + φ)` (`κ` strictly below Nyquist on every axis) and `s = 2π/L` real:

* `derivativeM c m d u = a (s κ_d)^m cos(2π κ·j/N + φ + m π/2)`  — the grid sample of the `m`-th `x_d`-derivative
  of `a cos(s κ·x + φ)` (`iteratedDeriv_cos_affine` is the calculus fact), every `m ≥ 0`, every axis `d`;
  by linearity for every `stateOf`;
* `irfftn(laplace c 2 ⊙ rfftn u) = −s²|κ|² u`;
* `Poisson.step_fourier`: `poissonSpec c 2 (rfftn f) = rfftn( f / (s²|κ|²) )` for `κ ≠ 0`, i.e. the model returns
  `u = +f/(s²|κ|²)`, which solves `∇²u = −f` (the sign the implementation documents: `u_xx = −f`);
  NOT `−f/(s²|κ|²)`.  For `κ = 0` (constant `f`) the model returns the zero spectrum (zero mean).
-/
set_option linter.unusedVariables false
namespace Exponax.ReadOff
open Exponax Exponax.Layout Exponax.Transform Exponax.DFT Exponax.ExactLinear Finset
open Exponax.Nonlin (Cfg laplace poissonStep derivativeM modes kInt kSq)
open scoped ComplexConjugate

/-! ### the calculus fact: derivatives of a cosine wave -/

/-- `d^m/dx^m [a cos(k x + θ)] = a k^m cos(k x + θ + m π/2)` -/
theorem iteratedDeriv_cos_affine (a k θ : ℝ) (m : ℕ) :
    iteratedDeriv m (fun x : ℝ => a * Real.cos (k * x + θ))
      = fun x : ℝ => a * k ^ m * Real.cos (k * x + θ + m * (Real.pi / 2)) := by
  induction m with
  | zero => funext x; simp
  | succ m ih =>
    rw [iteratedDeriv_succ, ih]
    funext x
    have h1 : HasDerivAt (fun x : ℝ => k * x + θ + m * (Real.pi / 2)) k x := by
      have := ((hasDerivAt_id x).const_mul k).add_const (θ + m * (Real.pi / 2))
      simpa [add_assoc] using this
    have h2 := (h1.cos).const_mul (a * k ^ m)
    rw [h2.deriv]
    have e : k * x + θ + ((m + 1 : ℕ) : ℝ) * (Real.pi / 2) = (k * x + θ + m * (Real.pi / 2)) + Real.pi / 2 := by
      push_cast; ring
    rw [e, Real.cos_add_pi_div_two]
    ring

/-! ### `derivativeM` is a Fourier multiplier -/

theorem derivativeM_eq_specApply (c : Cfg ℂ) (m d : ℕ) (u : Array ℂ) :
    derivativeM c m d u = specApply c.D c.N (fun h => npow (Nonlin.deriv c d h) m) u := rfl

theorem I_pow_eq_exp (m : ℕ) : Complex.I ^ m = Complex.exp (((m * (Real.pi / 2) : ℝ) : ℂ) * Complex.I) := by
  have : ((m * (Real.pi / 2) : ℝ) : ℂ) * Complex.I = (m : ℂ) * ((Real.pi : ℂ) / 2 * Complex.I) := by
    push_cast; ring
  rw [this, Complex.exp_nat_mul, Complex.exp_pi_div_two_mul_I]

/-- the derivative symbol of order `m` at a mode with wavenumber `k_d = q`: `(s q)^m e^{i m π/2}` -/
theorem deriv_symbol_polar (s : ℝ) (q : ℤ) (m : ℕ) :
    (Complex.I * ((s : ℂ) * (q : ℂ))) ^ m
      = (((s * (q : ℝ)) ^ m : ℝ) : ℂ) * Complex.exp (((m * (Real.pi / 2) : ℝ) : ℂ) * Complex.I) := by
  rw [mul_pow, I_pow_eq_exp]
  push_cast
  ring

theorem deriv_symbol_conj (s : ℝ) (q : ℤ) (m : ℕ) :
    (Complex.I * ((s : ℂ) * ((-q : ℤ) : ℂ))) ^ m = conj ((Complex.I * ((s : ℂ) * (q : ℂ))) ^ m) := by
  rw [map_pow, map_mul, map_mul, Complex.conj_I, Complex.conj_ofReal, map_intCast]
  push_cast
  ring

/-- **R1, one mode.**  `derivative(u, order = m)` along axis `d` of `a cos(2π κ·j/N + φ)` is
    `a (s κ_d)^m cos(2π κ·j/N + φ + m π/2)`: the sampled analytic derivative. Every `m`, every `d`
    (for `d ≥ D` both sides use `κ_d = 0`), every `D ≥ 1`, odd or even `N`. -/
theorem derivativeM_modeField (c : Cfg ℂ) (s : ℝ) (hs : c.s = (s : ℂ)) (hD : 0 < c.D) (hN : 0 < c.N)
    (κ : List ℤ) (hκ : BelowNyquist c.D c.N κ) (m d : ℕ) (a φ : ℝ) :
    derivativeM c m d (modeField c.D c.N κ a φ)
      = modeField c.D c.N κ (a * (s * (κ.getD d 0 : ℝ)) ^ m) (φ + m * (Real.pi / 2)) := by
  rw [derivativeM_eq_specApply]
  apply specApply_modeField c.D c.N hD hN _ κ hκ ((Complex.I * ((s : ℂ) * ((κ.getD d 0 : ℤ) : ℂ))) ^ m)
    ((s * (κ.getD d 0 : ℝ)) ^ m) (m * (Real.pi / 2)) (deriv_symbol_polar s _ m)
  · intro h hh hk
    rw [npow_eq, Nonlin.deriv_eq, hs]
    unfold kInt
    rw [hk]
  · intro h hh hk
    rw [← deriv_symbol_conj, npow_eq, Nonlin.deriv_eq, hs]
    unfold kInt
    rw [hk, negK_getD]

/-- the same on the grid, entry by entry -/
theorem derivativeM_modeField_getD (c : Cfg ℂ) (s : ℝ) (hs : c.s = (s : ℂ)) (hD : 0 < c.D) (hN : 0 < c.N)
    (κ : List ℤ) (hκ : BelowNyquist c.D c.N κ) (m d : ℕ) (a φ : ℝ) (j : ℕ) (hj : j < c.N ^ c.D) :
    (derivativeM c m d (modeField c.D c.N κ a φ)).getD j 0
      = (((a * (s * (κ.getD d 0 : ℝ)) ^ m *
          Real.cos (2 * Real.pi * ((phaseK c.D c.N κ j : ℤ) : ℝ) / c.N + (φ + m * (Real.pi / 2))) : ℝ)) : ℂ) := by
  rw [derivativeM_modeField c s hs hD hN κ hκ m d a φ, modeField_getD _ _ _ _ _ j hj]

/-- the differentiated modes: amplitude `a (s κ_d)^m`, phase `φ + m π/2` -/
noncomputable def diffModes (s : ℝ) (m d : ℕ) (ms : Modes) : Modes :=
  ms.map (fun q => (q.1, q.2.1 * (s * (q.1.getD d 0 : ℝ)) ^ m, q.2.2 + m * (Real.pi / 2)))

/-- **R1, superposition.**  On every finite sum of modes strictly below Nyquist, `derivativeM` returns the sum
    of the analytic derivatives. -/
theorem derivativeM_stateOf (c : Cfg ℂ) (s : ℝ) (hs : c.s = (s : ℂ)) (hD : 0 < c.D) (hN : 0 < c.N)
    (m d : ℕ) (ms : Modes) (hms : ∀ q ∈ ms, BelowNyquist c.D c.N q.1) :
    derivativeM c m d (stateOf c.D c.N ms) = stateOf c.D c.N (diffModes s m d ms) := by
  rw [derivativeM_eq_specApply]
  unfold stateOf diffModes
  rw [specApply_vsum c.D c.N hN, List.map_map, List.map_map]
  congr 1
  apply List.map_congr_left
  intro q hq
  simp only [Function.comp]
  rw [← derivativeM_eq_specApply]
  exact derivativeM_modeField c s hs hD hN q.1 (hms q hq) m d q.2.1 q.2.2

/-- R1 spelled out on the grid -/
theorem derivativeM_stateOf_tab (c : Cfg ℂ) (s : ℝ) (hs : c.s = (s : ℂ)) (hD : 0 < c.D) (hN : 0 < c.N)
    (m d : ℕ) (ms : Modes) (hms : ∀ q ∈ ms, BelowNyquist c.D c.N q.1) :
    derivativeM c m d (tab (c.N ^ c.D) (fun j =>
        (((ms.map (fun q => q.2.1 * Real.cos (2 * Real.pi * ((phaseK c.D c.N q.1 j : ℤ) : ℝ) / c.N + q.2.2))).sum : ℝ) : ℂ)))
      = tab (c.N ^ c.D) (fun j =>
        (((ms.map (fun q => q.2.1 * (s * (q.1.getD d 0 : ℝ)) ^ m *
            Real.cos (2 * Real.pi * ((phaseK c.D c.N q.1 j : ℤ) : ℝ) / c.N + (q.2.2 + m * (Real.pi / 2))))).sum : ℝ) : ℂ)) := by
  rw [← stateOf_eq_tab, derivativeM_stateOf c s hs hD hN m d ms hms, stateOf_eq_tab]
  congr 1
  funext j
  unfold diffModes
  rw [List.map_map]
  rfl

/-! ### Laplacian -/

/-- `|κ|² = Σ_{d<D} κ_d²` -/
def kappaSq (D : ℕ) (κ : List ℤ) : ℤ := ∑ d ∈ range D, κ.getD d 0 ^ 2

theorem kappaSq_nonneg (D : ℕ) (κ : List ℤ) : 0 ≤ kappaSq D κ := Finset.sum_nonneg (fun d _ => sq_nonneg _)

theorem kappaSq_negK (D : ℕ) (κ : List ℤ) : kappaSq D (negK κ) = kappaSq D κ := by
  unfold kappaSq
  apply Finset.sum_congr rfl
  intro d _
  rw [negK_getD, neg_sq]

theorem kappaSq_eq_zero_iff (D : ℕ) (κ : List ℤ) : kappaSq D κ = 0 ↔ ∀ d < D, κ.getD d 0 = 0 := by
  unfold kappaSq
  rw [Finset.sum_eq_zero_iff_of_nonneg (fun d _ => sq_nonneg _)]
  simp

theorem kappaSq_pos (D : ℕ) (κ : List ℤ) (hne : ∃ d < D, κ.getD d 0 ≠ 0) : 0 < kappaSq D κ := by
  rcases lt_or_eq_of_le (kappaSq_nonneg D κ) with h | h
  · exact h
  · obtain ⟨d, hd, hne⟩ := hne
    exact absurd ((kappaSq_eq_zero_iff D κ).mp h.symm d hd) hne

/-- `kappaSq` is the model's `Layout.normSq` (the quantity binned by `Spectrum.spectrum`) -/
theorem kappaSq_eq_normSq (κ : List ℤ) : kappaSq κ.length κ = normSq κ := by
  induction κ with
  | nil => simp [kappaSq, normSq_nil]
  | cons a κ ih =>
    rw [normSq_cons, ← ih]
    unfold kappaSq
    rw [List.length_cons, Finset.sum_range_succ']
    simp [add_comm]

theorem kSq_of_wnFlat (c : Cfg ℂ) (h : ℕ) (κ : List ℤ) (hk : wnFlat c.D c.N h = κ) : kSq c h = kappaSq c.D κ := by
  unfold kSq kappaSq kInt
  rw [hk]

/-- the Laplace symbol at a stored mode carrying `±κ` -/
theorem laplace_two_at (c : Cfg ℂ) (s : ℝ) (hs : c.s = (s : ℂ)) (h : ℕ) (κ : List ℤ)
    (hk : wnFlat c.D c.N h = κ ∨ wnFlat c.D c.N h = negK κ) :
    laplace c 2 h = ((-(s ^ 2 * (kappaSq c.D κ : ℝ)) : ℝ) : ℂ) := by
  rw [Nonlin.laplace_two_eq_real c s hs h]
  rcases hk with hk | hk
  · rw [kSq_of_wnFlat c h κ hk]
  · rw [kSq_of_wnFlat c h _ hk, kappaSq_negK]

/-- **R1, Laplacian.**  `irfftn(build_laplace_operator(2) ⊙ rfftn u) = −s²|κ|² u` on one mode. -/
theorem laplace_modeField (c : Cfg ℂ) (s : ℝ) (hs : c.s = (s : ℂ)) (hD : 0 < c.D) (hN : 0 < c.N)
    (κ : List ℤ) (hκ : BelowNyquist c.D c.N κ) (a φ : ℝ) :
    specApply c.D c.N (laplace c 2) (modeField c.D c.N κ a φ)
      = modeField c.D c.N κ (a * -(s ^ 2 * (kappaSq c.D κ : ℝ))) φ :=
  specApply_modeField_real c.D c.N hD hN _ κ hκ _
    (fun h _ hk => laplace_two_at c s hs h κ (Or.inl hk))
    (fun h _ hk => laplace_two_at c s hs h κ (Or.inr hk)) a φ

/-- the Laplacian is the sum of the second derivatives computed by `derivativeM` (symbol level: the model's
    `laplace c 2` IS `Σ_d (i s k_d)²`, the multipliers of `derivativeM c 2 d`) -/
theorem laplace_symbol_eq_sum_deriv (c : Cfg ℂ) (h : ℕ) :
    laplace c 2 h = ∑ d ∈ range c.D, npow (Nonlin.deriv c d h) 2 := by
  rw [Nonlin.laplace_two_eq_sum]
  simp only [npow_eq]

/-- the Laplacian on superpositions -/
noncomputable def lapModes (D : ℕ) (s : ℝ) (ms : Modes) : Modes :=
  ms.map (fun q => (q.1, q.2.1 * -(s ^ 2 * (kappaSq D q.1 : ℝ)), q.2.2))

theorem laplace_stateOf (c : Cfg ℂ) (s : ℝ) (hs : c.s = (s : ℂ)) (hD : 0 < c.D) (hN : 0 < c.N)
    (ms : Modes) (hms : ∀ q ∈ ms, BelowNyquist c.D c.N q.1) :
    specApply c.D c.N (laplace c 2) (stateOf c.D c.N ms) = stateOf c.D c.N (lapModes c.D s ms) := by
  unfold stateOf lapModes
  rw [specApply_vsum c.D c.N hN, List.map_map, List.map_map]
  congr 1
  apply List.map_congr_left
  intro q hq
  simp only [Function.comp]
  exact laplace_modeField c s hs hD hN q.1 (hms q hq) q.2.1 q.2.2

/-! ### Poisson -/

/-- `Poisson.step_fourier` on a whole (one-channel) spectrum: `poissonStep` at every stored mode -/
noncomputable def poissonSpec (c : Cfg ℂ) (order : ℕ) (fh : Array ℂ) : Array ℂ :=
  tab (numModes c.D c.N) (fun h => poissonStep c order h (fh.getD h 0))

@[simp] theorem poissonSpec_size (c : Cfg ℂ) (order : ℕ) (fh : Array ℂ) :
    (poissonSpec c order fh).size = numModes c.D c.N := by simp [poissonSpec]

theorem poissonSpec_getD (c : Cfg ℂ) (order : ℕ) (fh : Array ℂ) (h : ℕ) (hh : h < numModes c.D c.N) :
    (poissonSpec c order fh).getD h 0 = poissonStep c order h (fh.getD h 0) := by
  rw [poissonSpec, tab_getD _ _ _ _ hh]

/-- `poissonStep` is multiplication by `-(where(op = 0, 0, 1/op))` -/
theorem poissonStep_mul (c : Cfg ℂ) (order h : ℕ) (f : ℂ) :
    poissonStep c order h f = (if laplace c order h = 0 then 0 else -(1 / laplace c order h)) * f := by
  simp only [poissonStep]
  by_cases hl : laplace c order h = 0 <;> simp [HasIsZero.isZero, hl]

/-- the Poisson gain at a stored mode carrying `±κ`, `κ ≠ 0`: `+1/(s²|κ|²)` -/
theorem poissonStep_at (c : Cfg ℂ) (s : ℝ) (hs : c.s = (s : ℂ)) (hs0 : s ≠ 0) (h : ℕ) (κ : List ℤ)
    (hne : ∃ d < c.D, κ.getD d 0 ≠ 0)
    (hk : wnFlat c.D c.N h = κ ∨ wnFlat c.D c.N h = negK κ) (f : ℂ) :
    poissonStep c 2 h f = ((1 / (s ^ 2 * (kappaSq c.D κ : ℝ)) : ℝ) : ℂ) * f := by
  have hpos : (0 : ℝ) < (kappaSq c.D κ : ℝ) := by exact_mod_cast kappaSq_pos c.D κ hne
  have hne' : s ^ 2 * (kappaSq c.D κ : ℝ) ≠ 0 := mul_ne_zero (pow_ne_zero 2 hs0) hpos.ne'
  rw [poissonStep_mul, laplace_two_at c s hs h κ hk, if_neg]
  · congr 1
    push_cast
    have hne'' : (s : ℂ) ^ 2 * ((kappaSq c.D κ : ℤ) : ℂ) ≠ 0 := by
      have := Complex.ofReal_ne_zero.mpr hne'
      push_cast at this
      exact this
    field_simp
  · exact_mod_cast neg_ne_zero.mpr hne'

/-- the Poisson gain at the mean mode is `0` -/
theorem poissonStep_at_zero (c : Cfg ℂ) (s : ℝ) (hs : c.s = (s : ℂ)) (h : ℕ) (κ : List ℤ)
    (h0 : ∀ d < c.D, κ.getD d 0 = 0) (hk : wnFlat c.D c.N h = κ) (f : ℂ) :
    poissonStep c 2 h f = 0 := by
  rw [poissonStep_mul, laplace_two_at c s hs h κ (Or.inl hk), (kappaSq_eq_zero_iff c.D κ).mpr h0]
  simp

theorem poissonStep_zero (c : Cfg ℂ) (order h : ℕ) : poissonStep c order h 0 = 0 := by
  rw [poissonStep_mul, mul_zero]

/-- **R1, Poisson (`κ ≠ 0`).**  `Poisson.step_fourier` applied to the transform of `f = a cos(2π κ·j/N + φ)` returns the
    transform of `u = (a / (s²|κ|²)) cos(2π κ·j/N + φ)` — PLUS sign: the model solves `∇²u = −f`. -/
theorem poissonSpec_modeField (c : Cfg ℂ) (s : ℝ) (hs : c.s = (s : ℂ)) (hs0 : s ≠ 0) (hD : 0 < c.D)
    (hN : 0 < c.N) (κ : List ℤ) (hκ : BelowNyquist c.D c.N κ) (hne : ∃ d < c.D, κ.getD d 0 ≠ 0) (a φ : ℝ) :
    poissonSpec c 2 (rfftnM c.D c.N (modeField c.D c.N κ a φ))
      = rfftnM c.D c.N (modeField c.D c.N κ (a * (1 / (s ^ 2 * (kappaSq c.D κ : ℝ)))) φ) := by
  apply array_ext_getD _ _ (numModes c.D c.N) (by simp) (by simp)
  intro h hh
  rw [poissonSpec_getD c 2 _ h hh, rfftnM_modeField c.D c.N hD hN κ hκ a φ h hh,
    rfftnM_modeField c.D c.N hD hN κ hκ _ φ h hh]
  by_cases hA : wnFlat c.D c.N h = κ
  · rw [poissonStep_at c s hs hs0 h κ hne (Or.inl hA)]
    by_cases hB : wnFlat c.D c.N h = negK κ
    · rw [if_pos hA, if_pos hB, if_pos hA, if_pos hB]; push_cast; ring
    · rw [if_pos hA, if_neg hB, if_pos hA, if_neg hB]; push_cast; ring
  · by_cases hB : wnFlat c.D c.N h = negK κ
    · rw [poissonStep_at c s hs hs0 h κ hne (Or.inr hB)]
      rw [if_neg hA, if_pos hB, if_neg hA, if_pos hB]; push_cast; ring
    · rw [if_neg hA, if_neg hB, if_neg hA, if_neg hB, add_zero, poissonStep_zero]

/-- **R1, Poisson (`κ = 0`).**  A constant right-hand side is mapped to the zero spectrum: the returned solution has
    zero mean (and vanishes). -/
theorem poissonSpec_modeField_zero (c : Cfg ℂ) (s : ℝ) (hs : c.s = (s : ℂ)) (hD : 0 < c.D)
    (hN : 0 < c.N) (κ : List ℤ) (hκ : κ.length = c.D) (h0 : ∀ d < c.D, κ.getD d 0 = 0) (a φ : ℝ) :
    poissonSpec c 2 (rfftnM c.D c.N (modeField c.D c.N κ a φ)) = vzero (numModes c.D c.N) := by
  have hκ' : BelowNyquist c.D c.N κ := ⟨hκ, fun d hd => by rw [h0 d hd]; simpa using hN⟩
  apply array_ext_getD _ _ (numModes c.D c.N) (by simp) (by simp)
  intro h hh
  rw [poissonSpec_getD c 2 _ h hh, vzero_getD]
  by_cases hA : wnFlat c.D c.N h = κ
  · exact poissonStep_at_zero c s hs h κ h0 hA _
  · have hB : wnFlat c.D c.N h ≠ negK κ := by
      rw [← (eq_negK_iff c.D κ hκ).mpr h0]; exact hA
    rw [rfftnM_modeField_other c.D c.N hD hN κ hκ' a φ h hh hA hB, poissonStep_zero]

/-- in every case the mean coefficient of the Poisson output vanishes (`s ≠ 0` not needed) -/
theorem poissonSpec_mean_zero (c : Cfg ℂ) (s : ℝ) (hs : c.s = (s : ℂ)) (fh : Array ℂ) :
    (poissonSpec c 2 fh).getD 0 0 = 0 := by
  rcases Nat.eq_zero_or_pos (numModes c.D c.N) with h0 | hpos
  · rw [poissonSpec, tab_getD_of_le _ _ _ _ (by omega)]
  · rw [poissonSpec_getD c 2 fh 0 hpos, poissonStep_mul, Nonlin.laplace_two_eq_real c s hs 0]
    have : kSq c 0 = 0 := by
      rw [Nonlin.kSq_eq_zero_iff]
      intro d _
      exact wnFlat_zero c.D c.N d
    rw [this]
    simp

/-- **R1, Poisson in physical space.**  `irfftn(step_fourier(rfftn f)) = f / (s²|κ|²)` -/
theorem poisson_modeField_physical (c : Cfg ℂ) (s : ℝ) (hs : c.s = (s : ℂ)) (hs0 : s ≠ 0) (hD : 0 < c.D)
    (hN : 0 < c.N) (κ : List ℤ) (hκ : BelowNyquist c.D c.N κ) (hne : ∃ d < c.D, κ.getD d 0 ≠ 0) (a φ : ℝ) :
    irfftnM c.D c.N (poissonSpec c 2 (rfftnM c.D c.N (modeField c.D c.N κ a φ)))
      = modeField c.D c.N κ (a * (1 / (s ^ 2 * (kappaSq c.D κ : ℝ)))) φ := by
  rw [poissonSpec_modeField c s hs hs0 hD hN κ hκ hne a φ]
  apply array_ext_getD _ _ (c.N ^ c.D) (by simp) (by simp)
  intro j hj
  exact irfftn_rfftn c.D c.N hD hN _ (modeField_real c.D c.N κ _ φ) j hj

/-- **R1, Poisson sign convention.**  The returned field `u` satisfies `∇²u = −f` (spectral Laplacian of the model):
    `irfftn(laplace ⊙ rfftn u) = −f` for `f = a cos(2π κ·j/N + φ)`, `κ ≠ 0`. -/
theorem poisson_solves_neg_f (c : Cfg ℂ) (s : ℝ) (hs : c.s = (s : ℂ)) (hs0 : s ≠ 0) (hD : 0 < c.D)
    (hN : 0 < c.N) (κ : List ℤ) (hκ : BelowNyquist c.D c.N κ) (hne : ∃ d < c.D, κ.getD d 0 ≠ 0) (a φ : ℝ) :
    specApply c.D c.N (laplace c 2)
        (irfftnM c.D c.N (poissonSpec c 2 (rfftnM c.D c.N (modeField c.D c.N κ a φ))))
      = modeField c.D c.N κ (-a) φ := by
  rw [poisson_modeField_physical c s hs hs0 hD hN κ hκ hne a φ, laplace_modeField c s hs hD hN κ hκ]
  have hpos : (0 : ℝ) < (kappaSq c.D κ : ℝ) := by exact_mod_cast kappaSq_pos c.D κ hne
  have hne' : s ^ 2 * (kappaSq c.D κ : ℝ) ≠ 0 := mul_ne_zero (pow_ne_zero 2 hs0) hpos.ne'
  congr 1
  field_simp

/-! ### Poisson on superpositions -/

theorem poissonSpec_vadd (c : Cfg ℂ) (order : ℕ) (f g : Array ℂ) :
    poissonSpec c order (vadd (numModes c.D c.N) f g)
      = vadd (numModes c.D c.N) (poissonSpec c order f) (poissonSpec c order g) := by
  apply array_ext_getD _ _ (numModes c.D c.N) (by simp) (by simp)
  intro h hh
  rw [poissonSpec_getD c order _ h hh, vadd_getD _ _ _ _ hh, vadd_getD _ _ _ _ hh,
    poissonSpec_getD c order _ h hh, poissonSpec_getD c order _ h hh, poissonStep_mul, poissonStep_mul,
    poissonStep_mul]
  ring

theorem poissonSpec_vzero (c : Cfg ℂ) (order : ℕ) :
    poissonSpec c order (vzero (numModes c.D c.N)) = vzero (numModes c.D c.N) := by
  apply array_ext_getD _ _ (numModes c.D c.N) (by simp) (by simp)
  intro h hh
  rw [poissonSpec_getD c order _ h hh, vzero_getD, poissonStep_zero]

/-- the Poisson gain as a function of the wave vector: `1/(s²|κ|²)`, and `0` at `κ = 0` -/
noncomputable def poissonGain (D : ℕ) (s : ℝ) (κ : List ℤ) : ℝ :=
  if kappaSq D κ = 0 then 0 else 1 / (s ^ 2 * (kappaSq D κ : ℝ))

/-- the modes of the Poisson solution -/
noncomputable def poissonModes (D : ℕ) (s : ℝ) (ms : Modes) : Modes :=
  ms.map (fun q => (q.1, q.2.1 * poissonGain D s q.1, q.2.2))

/-- one mode, both cases at once -/
theorem poissonSpec_modeField_gain (c : Cfg ℂ) (s : ℝ) (hs : c.s = (s : ℂ)) (hs0 : s ≠ 0) (hD : 0 < c.D)
    (hN : 0 < c.N) (κ : List ℤ) (hκ : BelowNyquist c.D c.N κ) (a φ : ℝ) :
    poissonSpec c 2 (rfftnM c.D c.N (modeField c.D c.N κ a φ))
      = rfftnM c.D c.N (modeField c.D c.N κ (a * poissonGain c.D s κ) φ) := by
  unfold poissonGain
  by_cases h0 : kappaSq c.D κ = 0
  · rw [if_pos h0, mul_zero, modeField_zero_amp, rfftnM_vzero c.D c.N hN]
    exact poissonSpec_modeField_zero c s hs hD hN κ hκ.1 ((kappaSq_eq_zero_iff c.D κ).mp h0) a φ
  · rw [if_neg h0]
    have hne : ∃ d < c.D, κ.getD d 0 ≠ 0 := by
      by_contra hc
      apply h0
      rw [kappaSq_eq_zero_iff]
      intro d hd
      by_contra hd0
      exact hc ⟨d, hd, hd0⟩
    exact poissonSpec_modeField c s hs hs0 hD hN κ hκ hne a φ

/-- **R1, Poisson on superpositions.**  For every finite sum `f` of modes strictly below Nyquist,
    `step_fourier(rfftn f) = rfftn u` with `u = Σ (a/(s²|κ|²)) cos(2π κ·j/N + φ)` over the modes `κ ≠ 0`
    (the constant part of `f` is dropped): `∇²u = −(f − mean f)`, `mean u = 0`. -/
theorem poissonSpec_stateOf (c : Cfg ℂ) (s : ℝ) (hs : c.s = (s : ℂ)) (hs0 : s ≠ 0) (hD : 0 < c.D)
    (hN : 0 < c.N) (ms : Modes) (hms : ∀ q ∈ ms, BelowNyquist c.D c.N q.1) :
    poissonSpec c 2 (rfftnM c.D c.N (stateOf c.D c.N ms))
      = rfftnM c.D c.N (stateOf c.D c.N (poissonModes c.D s ms)) := by
  induction ms with
  | nil =>
    unfold stateOf poissonModes
    simp only [List.map_nil, vsum_nil]
    rw [rfftnM_vzero c.D c.N hN, poissonSpec_vzero]
  | cons q ms ih =>
    have ih' := ih (fun q' hq' => hms q' (List.mem_cons_of_mem _ hq'))
    unfold stateOf poissonModes at ih' ⊢
    simp only [List.map_cons, vsum_cons]
    rw [rfftnM_vadd c.D c.N hN, rfftnM_vadd c.D c.N hN, poissonSpec_vadd, ih',
      poissonSpec_modeField_gain c s hs hs0 hD hN q.1 (hms q List.mem_cons_self) q.2.1 q.2.2]

/-- … and in physical space -/
theorem poisson_stateOf_physical (c : Cfg ℂ) (s : ℝ) (hs : c.s = (s : ℂ)) (hs0 : s ≠ 0) (hD : 0 < c.D)
    (hN : 0 < c.N) (ms : Modes) (hms : ∀ q ∈ ms, BelowNyquist c.D c.N q.1) :
    irfftnM c.D c.N (poissonSpec c 2 (rfftnM c.D c.N (stateOf c.D c.N ms)))
      = stateOf c.D c.N (poissonModes c.D s ms) := by
  rw [poissonSpec_stateOf c s hs hs0 hD hN ms hms]
  apply array_ext_getD _ _ (c.N ^ c.D) (by simp) (by simp)
  intro j hj
  exact irfftn_rfftn c.D c.N hD hN _ (stateOf_real c.D c.N _) j hj

/-! non-vacuity -/
example : ∃ (c : Cfg ℂ) (s : ℝ) (κ : List ℤ), c.s = (s : ℂ) ∧ s ≠ 0 ∧ 0 < c.D ∧ 0 < c.N ∧
    BelowNyquist c.D c.N κ ∧ ∃ d < c.D, κ.getD d 0 ≠ 0 :=
  ⟨⟨2, 5, ((3 : ℝ) : ℂ), 2, 3⟩, 3, [2, -1], rfl, by norm_num, by norm_num, by norm_num,
    ⟨rfl, by intro d hd; interval_cases d <;> simp⟩, 0, by norm_num, by decide⟩
example : ∃ (c : Cfg ℂ) (κ : List ℤ), κ.length = c.D ∧ ∀ d < c.D, κ.getD d 0 = 0 :=
  ⟨⟨2, 5, 1, 2, 3⟩, [0, 0], rfl, by intro d hd; interval_cases d <;> simp⟩
example : ∀ q ∈ ([([1, 1], 2, 0.5), ([-1, 0], 1, 0)] : Modes), BelowNyquist 2 4 q.1 := by
  intro q hq
  simp only [List.mem_cons, List.mem_nil_iff, or_false] at hq
  rcases hq with rfl | rfl
  · exact ⟨rfl, by intro d hd; interval_cases d <;> simp⟩
  · exact ⟨rfl, by intro d hd; interval_cases d <;> simp⟩

end Exponax.ReadOff
